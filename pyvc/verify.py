"""Verification driver: one contract target -> paths -> obligations -> solver verdicts."""
import ast
import os
import shutil
import subprocess
import tempfile
import time
import traceback
import z3

from . import sorts as so
from .sorts import Val, I, B, S, SeqV, KwMap, SetMap, Event, Hist, GEvent, GHist
from .values import *
from .spec import parse_expr, parse_tag, Contract
from .loader import ClassInfo
from .symex import (Unsupported, SpecError, PathEnd, PyRaise, PyReturn, PyBreak, PyContinue, Frame, State, Obligation, initial_comp)
from . import calls as cl
from .calls import Calls

CVC5 = "/usr/bin/cvc5"


class Result:
    def __init__(self, name, status, backend, time_s, kind, line, model=None, detail="", witness=None, smt2=None):
        self.name = name
        self.status = status      # 'proved' | 'refuted' | 'unknown'
        self.backend = backend
        self.time_s = time_s
        self.kind = kind
        self.line = line
        self.model = model
        self.detail = detail
        self.witness = witness or {}

    def to_json(self):
        return dict(name=self.name, status=self.status, backend=self.backend, time_s=round(self.time_s, 4), kind=self.kind,
                    line=self.line, model=self.model, detail=self.detail, witness=self.witness)


class Verifier(Calls):
    def __init__(self, repo, registry, classids=None, timeout_ms=10000):
        super().__init__(repo, registry, classids, timeout_ms)
        self.spec_envs = []
        self.old_stack = [{}]
        self.cur_module = None
        self.spec_cls = None
        self.global_cache = {}
        self.str_hook = None
        self.verifying_key = None
        self.st = State()
        self.exit_kinds = {}
        self.no_typing = False
        self.iter_stack = []
        self.iter_by_ord = {}
        self.entry_by_ord = {}
        self.global_overrides = {}
        self.static_dicts = {}
        self.keepalive = []
        self.assumed_reads = set()
        from .symex import isinstance_any
        self.spec_fns["leaf_isinstance_any"] = isinstance_any
        self.spec_fns["sconcat"] = cl.sconcat
        self.spec_fns["bconcat"] = cl.bconcat
        self.spec_fns["bcp"] = cl.bcp

    # ---------------------------------------------------------- symbolic inputs
    def sym_value(self, name, tag):
        kind, arg = parse_tag(tag)
        if kind in (None, "any", "val"):
            t = z3.Const("p_" + name, Val)
            # closed heap: an argument that is an object reference refers to an object that already exists
            self.assume(z3.Implies(Val.is_ref(t), z3.And(Val.r(t) >= 0, Val.r(t) < self.comp("$alloc"))))
            return SV(t, None if kind is None else tag)
        if kind == "int":
            return SV(Val.intv(z3.Const("p_" + name, I)), "int")
        if kind == "bool":
            return SV(Val.boolv(z3.Const("p_" + name, B)), "bool")
        if kind == "str":
            return SV(Val.strv(z3.Const("p_" + name, S)), "str")
        if kind == "bytes":
            return SV(Val.bytesv(z3.Const("p_" + name, S)), "bytes")
        if kind == "none":
            return SV(Val.none, "none")
        if kind in ("tuple", "seq", "ftuple"):
            v_ = SV(Val.tup(z3.Const("p_" + name, SeqV)), tag)
            if kind == "ftuple":
                self.assume(z3.Length(z3.Const("p_" + name, SeqV)) == len(tag.strip()[1:-1].split(",")))
            return v_
        if kind == "class":
            return SV(Val.cls(z3.Const("p_" + name, I)), "class")
        if kind == "opt":
            t = z3.Const("p_" + name, Val)
            v = SV(t, tag)
            ikind = parse_tag(arg)[0]
            if ikind in ("str",):
                self.assume(z3.Or(t == Val.none, Val.is_strv(t)))
            elif ikind in ("int",):
                self.assume(z3.Or(t == Val.none, Val.is_intv(t)))
            else:
                r = Val.r(t)
                self.assume(z3.Or(t == Val.none, z3.And(Val.is_ref(t), r < self.comp("$alloc"), r >= 0, self.type_fact(r, arg))))
            return v
        # object with identity
        r = z3.Const("p_" + name, I)
        self.assume(z3.And(r >= 0, r < self.comp("$alloc")))
        self.assume(self.type_fact(r, tag))
        return SV(Val.ref(r), tag)

    def type_fact(self, r, tag):
        kind, arg = parse_tag(tag)
        if kind in ("list", "set", "frozenset", "dict"):
            return so.typeof(r) == self.cids.cid(kind)
        if kind == "anyset":
            return z3.Or(so.typeof(r) == self.cids.cid("set"), so.typeof(r) == self.cids.cid("frozenset"))
        if kind == "exc":
            self.mentioned.add("BaseException")
            return so.subclass(so.typeof(r), self.cids.cid("BaseException"))
        ci = self.repo.find_class(kind) if kind and kind not in self.reg.shapes else None
        if ci is not None:
            # an instance of a repo class is not one of the abstract shape objects
            return z3.And(so.typeof(r) == self.cids.cid(self.class_key(ci)), shape_kind(r) == 0)
        if kind in self.reg.shapes:
            # abstract objects are not builtin containers, and objects of different abstract shapes are different objects
            return z3.And([so.typeof(r) != self.cids.cid(k) for k in ("list", "set", "frozenset", "dict")]
                          + [shape_kind(r) == self.shape_id(kind)])
        return z3.BoolVal(True)

    def shape_id(self, name):
        ids = self.__dict__.setdefault("_shape_ids", {})
        if name not in ids:
            ids[name] = sorted(self.reg.shapes).index(name) + 1
        return ids[name]

    def from_term(self, term, ty=None):
        v = super().from_term(term, ty)
        if isinstance(v, SV) and ty is not None and not self.no_typing:
            self.assume_typed(v.term, ty)
        return v

    def assume_typed(self, t, ty):
        """heap reads are typed by the spec's field tags (trusted typing assumption)"""
        kind, arg = parse_tag(ty)
        guards = list(getattr(self, "spec_guards", ())) if self.spec_mode and not os.environ.get("VERIF_NO_GUARDS") else []
        if guards and getattr(self, "spec_bound", None):
            # inside a quantifier body: a guard over the bound variables cannot be what makes a read of a term WITHOUT bound variables
            # well typed (`forall i: 0 <= i and i < len(self.xs) ...` does not guard the read of self.xs)
            bound = set().union(*self.spec_bound)
            if not (_const_names(t) & bound):
                guards = [g for g in guards if not (_const_names(g) & bound)]
        key = (t.get_id(), ty) + tuple(g.get_id() for g in guards)
        if key in self.assumed_reads or (t.get_id(), ty) in self.assumed_reads:
            return
        fact = None
        # a value read from the untouched pre-state heap refers to a pre-existing object (closed heap)
        bound = self.heap_alloc0 if (getattr(self, "heap_alloc0", None) is not None and is_prestate_term(z3.simplify(t))) else self.comp("$alloc")
        if kind in ("list", "set", "frozenset", "anyset", "dict", "exc") or (kind and kind[0].isupper()):
            r = Val.r(t)
            fact = z3.And(Val.is_ref(t), r >= 0, r < bound, self.type_fact(r, ty))
        elif kind == "opt":
            ik = parse_tag(arg)[0]
            if ik in ("list", "set", "frozenset", "anyset", "dict", "exc") or (ik and ik[0].isupper()):
                r = Val.r(t)
                fact = z3.Or(t == Val.none, z3.And(Val.is_ref(t), r >= 0, r < bound, self.type_fact(r, arg)))
            elif ik == "str":
                fact = z3.Or(t == Val.none, Val.is_strv(t))
        elif kind == "str":
            fact = Val.is_strv(t)
        elif kind == "int":
            fact = Val.is_intv(t)
        elif kind == "bool":
            fact = Val.is_boolv(t)
        elif kind in ("tuple", "ftuple"):
            fact = Val.is_tup(t)
            if kind == "ftuple":
                fact = z3.And(fact, z3.Length(Val.elems(t)) == len(ty.strip()[1:-1].split(",")))
        elif kind == "bytes":
            fact = Val.is_bytesv(t)
        if fact is not None and getattr(self, "goal_facts", None) is not None and os.environ.get("VERIF_GOAL_TYPING") \
                and not is_prestate_term(z3.simplify(t)):
            # EXPERIMENTAL (VERIF_GOAL_TYPING=1, off by default): when evaluating a GOAL, a read of the CURRENT heap is well typed only
            # if that can be shown -- the typing fact becomes part of the goal instead of an assumption.  With the default (assumption)
            # a clause that reads an object of the wrong shape under a guard that holds is vacuously provable (known instance: seed
            # C10_j, found by the stand-in only); switching this on needs shape facts at allocation sites that most specs lack.
            self.goal_facts.append(z3.Implies(z3.And(guards), fact) if guards else fact)
            return
        if fact is not None:
            self.assumed_reads.add(key)
            self.keepalive.append(t)
            self.keepalive.extend(guards)
            # inside a guarded operand of a specification (implies / ite / and / or / if-else) the typing fact is conditional
            self.assume(z3.Implies(z3.And(guards), fact) if guards else fact)

    # ------------------------------------------------------------- one target
    def verify_target(self, c, max_paths=4000):
        key = c.target.split("@")[0]
        self.target_name = c.target
        self.verifying_key = key
        found = self.repo.find_function(key)
        if found is None:
            raise Unsupported("%s: contract target not found in /repo" % c.target)
        mod, cls, fnode = found
        from .calls import opaque_decorators
        if opaque_decorators(fnode):
            raise Unsupported("%s is decorated with %s (decorator semantics not modelled)" % (c.target, ", ".join(opaque_decorators(fnode))))
        self.func_info = dict(target=c.target, file=os.path.relpath(mod.path, self.repo.root), sha256=mod.sha256,
                              lines=[fnode.lineno, fnode.end_lineno])
        f = FuncV(fnode, mod, cls, None, fnode.name if not key.endswith("$set") else key.split(".")[-1])
        self.worklist = [[]]
        self.exit_kinds = {"normal": 0, "raise": 0, "cut": 0}
        self.npaths = 0
        while self.worklist:
            self.prefix = self.worklist.pop()
            self.npaths += 1
            if self.npaths > max_paths:
                raise Unsupported("%s: more than %d paths" % (c.target, max_paths))
            self.run_path(c, f, mod, cls, fnode)
        return self.obligations

    def setup_path(self):
        so._fresh[0] = 0
        self.st = State()
        self.solver = z3.Solver()
        self.solver.set("timeout", 2000)
        self.trace = []
        self.path_notes = []
        self.old_stack = [{}]
        self.spec_envs = []
        self.spec_mode = 0
        self.assumed_reads = set()
        self.keepalive = []
        self.iter_stack = []
        self.iter_by_ord = {}
        self.entry_by_ord = {}
        self.static_dicts = {}
        self.global_overrides = {}
        self.fresh_objs = {}
        self.closures = {}
        self.global_cache = {}
        self.pre_alloc = None
        self.heap_alloc0 = None
        self.assume(self.comp("$alloc") >= 0)

    def run_path(self, c, f, mod, cls, fnode):
        self.setup_path()
        self.current_contract = c
        a = fnode.args
        locs = {}
        try:
            params = [p.arg for p in a.posonlyargs + a.args + a.kwonlyargs]
            for p in params:
                tag = c.params.get(p)
                if tag is None and p == "self" and cls is not None:
                    tag = cls.name
                if tag is None and p == "cls" and cls is not None:
                    locs[p] = ClassV(cls)
                    continue
                locs[p] = self.sym_value(p, tag)
            if a.vararg is not None:
                locs[a.vararg.arg] = self.sym_value(a.vararg.arg, c.params.get(a.vararg.arg, "tuple"))
            self.heap_alloc0 = self.comp("$alloc")     # objects of the caller's heap are below this bound
            if a.kwarg is not None:
                tag = c.params.get(a.kwarg.arg, "dict")
                d = self.alloc("dict", tag)
                self.set_dict(d, z3.Const("p_" + a.kwarg.arg, KwMap))
                locs[a.kwarg.arg] = d
            closure_env = {}
            for gname, gtag in c.ghost_params.items():
                if ".<" in c.target:
                    closure_env[gname] = self.sym_value(gname, gtag)    # free variables of a nested function
                else:
                    locs[gname] = self.sym_value(gname, gtag)
            if closure_env:
                f = FuncV(fnode, mod, cls, closure_env, f.name)
            # the state after parameter set-up is the pre-state
            pre_heap = dict(self.st.heap)
            self.old_stack = [pre_heap]
            self.pre_alloc = self.comp("$alloc")
            entry = dict(locs)
            entry.update(closure_env)
            fr = Frame(f, locs)
            self.st.frames = [fr]
            self.spec_cls = cls
            self.context_vals = {}
            for nm, ex in c.context.items():
                self.context_vals[nm] = self.spec_value(parse_expr(ex), entry)
            self.spec_envs = [self.context_vals]       # contract context names are visible to invariants and callee contracts
            entry_ctx = dict(entry)
            entry_ctx.update(self.context_vals)
            for r in c.requires:
                self.assume(self.spec_bool(parse_expr(r), entry_ctx))
            if not self.check_sat():
                raise PathEnd()
            self.cur_sigs = {}
            for fnd in getattr(self, "finding_specs", []):
                self.cur_sigs[fnd["id"]] = self.spec_bool(parse_expr(fnd["signature"]), entry_ctx)
            self.entry_pc = list(self.st.pc)
            outcome = ("normal", SV(Val.none, "none"))
            is_gen = self.is_generator(fnode)
            if is_gen:
                fr.locals["_out"] = PSeq(so.EMPTY_SEQ)
            try:
                self.exec_block(fnode.body)
                if is_gen:
                    outcome = ("normal", SV(Val.tup(fr.locals["_out"].seq), "iter"))
            except PyReturn as r:
                outcome = ("normal", r.value if not is_gen else SV(Val.tup(fr.locals["_out"].seq), "iter"))
            except PyRaise as r:
                outcome = ("raise", r.exc, r.note)
            self.exit_kinds[outcome[0]] += 1
            env = dict(entry)
            env.update(self.context_vals)
            end_line = fnode.end_lineno
            fake = ast.Pass(lineno=end_line, col_offset=0)
            if outcome[0] == "normal":
                res = outcome[1]
                env["ret"] = res
                if "result" not in entry:          # a parameter called `result` keeps its name; the return value is `ret`
                    env["result"] = res
                for k, e in enumerate(c.ensures):
                    self.oblige("post", self.spec_goal(e, env), fake, c.labels.get(k, str(k)),
                                extra=dict(path=list(self.path_notes), exit="normal"))
                if c.returns is not None:
                    self.oblige("post", self.conforms(res, c.returns), fake, "returns",
                                extra=dict(path=list(self.path_notes), exit="normal"))
            else:
                env["exc"] = outcome[1]
                if c.exsures is None:
                    self.oblige("noraise", z3.BoolVal(False), fake, None, extra=dict(path=list(self.path_notes), exit="raise", note=outcome[2]))
                else:
                    for k, e in enumerate(c.exsures):
                        self.oblige("expost", self.spec_goal(e, env), fake, str(k),
                                    extra=dict(path=list(self.path_notes), exit="raise", note=outcome[2]))
            self.frame_obligations(c, env, pre_heap, fake)
        except PathEnd:
            if os.environ.get("VERIF_DEBUG_CUT"):
                import traceback, sys as _sys, ast as _ast
                traceback.print_exc()
                tb = _sys.exc_info()[2]
                while tb is not None:
                    n = tb.tb_frame.f_locals.get("node")
                    if n is not None and tb.tb_frame.f_code.co_name in ("ev_Attribute", "read_field", "from_term", "assume_typed"):
                        try:
                            print("   at spec/code node:", _ast.unparse(n)[:100], {k: str(v)[:80] for k, v in tb.tb_frame.f_locals.items() if k in ("ty", "tag", "attr", "fact")})
                        except Exception:
                            pass
                    tb = tb.tb_next
            self.exit_kinds["cut"] += 1

    def spec_goal(self, e, env):
        """a postcondition as a goal.  If evaluating it contradicts the path (a typed heap read in it -- a trusted typing assumption --
        is false for the value the code actually stored) the clause cannot hold as written: the goal is False under the path
        condition, never a silently dropped path"""
        return self.goal_bool(parse_expr(e), env)

    def conforms(self, v, tag):
        """the returned value has the declared result type"""
        kind, arg = parse_tag(tag)
        if isinstance(v, TupV):
            return z3.BoolVal(kind in ("tuple", "ftuple", "any", "seq", "opt") or kind is None)
        if not isinstance(v, SV):
            return z3.BoolVal(kind in ("any", None))
        t = v.term
        containers = [self.cids.cid(k) for k in ("list", "set", "frozenset", "dict")]
        if kind in ("any", "val", None):
            return z3.BoolVal(True)
        if kind == "none":
            return t == Val.none
        if kind == "bool":
            return Val.is_boolv(t)
        if kind == "int":
            return Val.is_intv(t)
        if kind == "str":
            return Val.is_strv(t)
        if kind == "bytes":
            return Val.is_bytesv(t)
        if kind in ("tuple", "seq", "iter", "ftuple"):
            return Val.is_tup(t)
        if kind == "opt":
            return z3.Or(t == Val.none, self.conforms(v, arg))
        r = Val.r(t)
        if kind in ("list", "set", "frozenset", "dict"):
            return z3.And(Val.is_ref(t), so.typeof(r) == self.cids.cid(kind))
        if kind == "anyset":
            return z3.And(Val.is_ref(t), z3.Or(so.typeof(r) == self.cids.cid("set"), so.typeof(r) == self.cids.cid("frozenset")))
        if kind in self.reg.shapes:
            return z3.And(Val.is_ref(t), *[so.typeof(r) != cid for cid in containers])
        ci = self.repo.find_class(kind)
        if ci is not None:
            return z3.And(Val.is_ref(t), so.subclass(so.typeof(r), self.class_id(ci)))
        return z3.BoolVal(True)

    def frame_obligations(self, c, env, pre_heap, node):
        listed = {}       # comp -> list of ref terms | None (= whole)
        self.spec_envs.append(env)
        self.spec_mode += 1
        cur = self.st.heap
        try:
            self.st.heap = pre_heap
            for loc in c.modifies:
                loc = loc.strip()
                if loc.startswith("$") or loc.startswith("f:"):
                    listed[loc] = None
                    continue
                e = parse_expr(loc)
                if isinstance(e, ast.Call) and isinstance(e.func, ast.Name):
                    comp = {"list": "$list", "listof": "$list", "set": "$set", "setof": "$set", "dict": "$dict", "dictof": "$dict", "hist": "$hist"}[e.func.id]
                    r = self.refof(self.ev(e.args[0]))
                elif isinstance(e, ast.Attribute):
                    comp = "f:" + self.mangle(e.attr)
                    r = self.refof(self.ev(e.value))
                else:
                    raise SpecError("bad modifies location %r" % loc)
                if listed.get(comp, []) is not None:
                    listed.setdefault(comp, []).append(r)
        finally:
            self.st.heap = cur
            self.spec_mode -= 1
            self.spec_envs.pop()
        pre = State()
        pre.heap = pre_heap
        for comp, term in list(self.st.heap.items()):
            if comp in ("$alloc", "$G"):
                continue
            if comp == "$hist" and "$hist" not in listed and not c.frame_hist:
                continue    # ghost call histories are framed only on request
            before = self.comp(comp, pre)
            if term.eq(before):
                continue
            if comp in listed and listed[comp] is None:
                continue
            r = z3.Const("frame_r", I)
            conds = [r >= 0, r < self.pre_alloc] + [r != x for x in listed.get(comp, [])]
            self.oblige("frame", z3.Implies(z3.And(conds), term[r] == before[r]), node, comp,
                        extra=dict(path=list(self.path_notes)))

    def canary(self, c):
        """vacuity guard: 'False' must not be provable from requires + typing assumptions"""
        o = Obligation(c.target + "/canary", list(getattr(self, "entry_pc", [])), z3.BoolVal(False), "canary", 0, {})
        r = discharge(o, self.background(), timeout_ms=2000, use_cvc5=False)
        return dict(status="contradictory" if r.status == "proved" else "ok")

    # ------------------------------------------------------------ background
    def background(self):
        ax = list(self.subclass_axioms())
        s = z3.Const("bs", SeqV)
        x = z3.Const("bx", Val)
        m = z3.Const("bm", SetMap)
        h = z3.Const("bh", Hist)
        e = z3.Const("be", Event)
        km = z3.Const("bk", KwMap)
        ax.append(z3.ForAll([s, x], cl._seq_to_set(s)[x] == z3.Contains(s, z3.Unit(x))))
        ax.append(z3.ForAll([m], cl._set_card(m) >= 0))
        ax.append(z3.ForAll([m], (cl._set_card(m) == 0) == (m == so.EMPTY_SET)))
        ax.append(cl._hist_len(Hist.hnil) == 0)
        ax.append(z3.ForAll([h, e], cl._hist_len(Hist.snoc(h, e)) == cl._hist_len(h) + 1))
        ax.append(z3.Length(so.dict_order(so.EMPTY_KW)) == 0)
        ax.append(z3.ForAll([km], (z3.Length(so.dict_order(km)) == 0) == (km == so.EMPTY_KW)))
        ax.extend(cl.deliver_axioms())
        ax.extend(cl.concat_axioms())
        # an abstract (shape) object is never one of the builtin containers
        ro = z3.Int("bro")
        from .symex import so_truthy_obj
        # (the tautological mention of truthy_obj makes the axiom relevant only to problems about truthiness of objects)
        ax.append(z3.ForAll([ro], z3.Implies(shape_kind(ro) > 0, z3.And([so.typeof(ro) != self.cids.cid(k) for k in ("list", "set", "frozenset", "dict")]
                                                                        + [z3.Or(so_truthy_obj(ro), z3.Not(so_truthy_obj(ro)))])),
                            patterns=[shape_kind(ro)]))
        ea = z3.Const("bea", SeqV)
        es = z3.Const("bes", so.S)
        # "".encode(...) == b"" and b"".decode(...) == "" (a literal in a trigger does not match reliably: guard instead)
        ax.append(z3.ForAll([es, ea], z3.Implies(z3.Length(es) == 0, cl._str_encode(es, ea) == z3.StringVal("")),
                            patterns=[cl._str_encode(es, ea)]))
        ax.append(z3.ForAll([es, ea], z3.Implies(z3.Length(es) == 0, cl._bytes_decode(es, ea) == z3.StringVal("")),
                            patterns=[cl._bytes_decode(es, ea)]))
        for name, vars_, expr in self.reg.axioms:
            t = self.axiom_term(vars_, expr, patterns=self.reg.axiom_patterns.get(name))
            if name in self.reg.link_axioms:
                _LINK[t.get_id()] = t
            ax.append(t)
        return ax

    def axiom_term(self, vars_, expr, assumes=(), patterns=None):
        env = {}
        qv = []
        for nm, srt in vars_.items():
            cst = z3.Const("ax_" + nm, cl.SORTS[srt])
            qv.append(cst)
            env[nm] = self.from_sort(cst, srt)
        saved = self.st
        body = self.spec_bool(parse_expr(expr), env)
        if assumes:
            body = z3.Implies(z3.And([self.spec_bool(parse_expr(a), env) for a in assumes]), body)
        if patterns and qv:
            pats = []
            for pexpr in patterns:
                pv = self.spec_value(parse_expr(pexpr), env)
                pt = pv.seq if isinstance(pv, PSeq) else pv.h if isinstance(pv, PHist) else pv.t if isinstance(pv, PRaw) else self.to_term(pv)
                pats.append(pt)
            return z3.ForAll(qv, body, patterns=[z3.MultiPattern(*pats) if len(pats) > 1 else pats[0]])
        return z3.ForAll(qv, body) if qv else body


shape_kind = z3.Function("shape_kind", I, I)


def is_prestate_term(t):
    """term built only from entry-state arrays (name@0), parameters (p_name) and literals"""
    seen = set()
    todo = [t]
    while todo:
        x = todo.pop()
        if x.get_id() in seen:
            continue
        seen.add(x.get_id())
        if z3.is_app(x):
            k = x.decl().kind()
            if k == z3.Z3_OP_STORE:
                return False          # (an if-then-else all of whose operands are entry-state terms is an entry-state term)
            if k == z3.Z3_OP_UNINTERPRETED and x.num_args() == 0:
                nm = x.decl().name()
                if nm == "$alloc@0" or not (nm.endswith("@0") or nm.startswith("p_")):
                    return False
        elif not z3.is_var(x):
            return False
        todo.extend(x.children())
    return True


# --------------------------------------------------------------------------
def discharge(obl, background, timeout_ms=10000, use_cvc5=True, want_model=True, seed=0):
    """-> Result. unsat(assumptions & background & not goal) == proved."""
    return discharge_smt2(obl.name, obl.kind, obl.line, to_smt2(obl, background), timeout_ms=timeout_ms, use_cvc5=use_cvc5, seed=seed,
                          detail=str(obl.extra), retries=0)


def pick_background(background, obl):
    return background


def axiom_keys(term):
    """names of the uninterpreted functions an axiom talks about"""
    names = set()
    seen = set()
    todo = [term]
    while todo:
        x = todo.pop()
        if x.get_id() in seen:
            continue
        seen.add(x.get_id())
        if z3.is_quantifier(x):
            todo.append(x.body())
            continue
        if z3.is_app(x):
            if x.decl().kind() == z3.Z3_OP_UNINTERPRETED and x.num_args() > 0 and x.decl().name() not in UBIQUITOUS:
                names.add(x.decl().name())
            todo.extend(x.children())
    return names


_AX_KEYS = {}
# engine symbols that occur in (nearly) every problem: they do not make an axiom relevant
UBIQUITOUS = {"typeof", "subclass", "shape_kind", "has_attr", "accepts_kw"}
_LINK = {}        # id -> term of "link" axioms (needing all their functions present); terms kept alive so that ids stay unique


def to_smt2(obl, background, extra_assumptions=()):
    """self-contained SMT-LIB2 text of one obligation (assumptions, the background axioms about symbols it mentions, negated goal)"""
    s = z3.Solver()
    for a in obl.assumptions:
        s.add(a)
    for a in extra_assumptions:
        s.add(a)
    s.add(z3.Not(obl.goal))
    text = s.to_smt2()
    chosen = []
    changed = True
    pool = list(background)
    # an axiom is relevant when every... no: when SOME function it constrains occurs in the problem (closure over added axioms)
    while changed:
        changed = False
        rest = []
        for b in pool:
            k = b.get_id()
            keys = _AX_KEYS.get(k)
            if keys is None or not keys[1].eq(b):
                keys = (axiom_keys(b), b)
                _AX_KEYS[k] = keys
            quant = all if (k in _LINK and _LINK[k].eq(b)) else any
            if not keys[0] or quant(("(" + nm + " ") in text or ("|" + nm + "|") in text for nm in keys[0]):
                chosen.append(b)
                changed = True
            else:
                rest.append(b)
        if changed and rest:
            s2 = z3.Solver()
            for b in chosen:
                s2.add(b)
            text = text + s2.to_smt2()
        pool = rest
        if not chosen or not rest:
            break
    for b in chosen:
        s.add(b)
    return s.to_smt2()


def to_smt2_ground(obl):
    """quantifier-free weakening: only the quantifier-free assumptions, no background (unsat here implies unsat of the full problem)"""
    from .symex import has_quantifier
    s = z3.Solver()
    for a in obl.assumptions:
        if not has_quantifier(a):
            s.add(a)
    s.add(z3.Not(obl.goal))
    return s.to_smt2()


def _const_names(term):
    """names of the 0-ary uninterpreted constants of a term"""
    names, seen, todo = set(), set(), [term]
    while todo:
        x = todo.pop()
        if x.get_id() in seen:
            continue
        seen.add(x.get_id())
        if z3.is_quantifier(x):
            todo.append(x.body())
        elif z3.is_app(x):
            if x.num_args() == 0 and x.decl().kind() == z3.Z3_OP_UNINTERPRETED:
                names.add(x.decl().name())
            todo.extend(x.children())
    return names


def term_symbols(term, cache={}):
    """names of the uninterpreted constants and functions of a term (heap arrays and engine-wide symbols excluded)"""
    k = term.get_id()
    hit = cache.get(k)
    if hit is not None and hit[1].eq(term):
        return hit[0]
    names = set()
    seen = set()
    todo = [term]
    while todo:
        x = todo.pop()
        if x.get_id() in seen:
            continue
        seen.add(x.get_id())
        if z3.is_quantifier(x):
            todo.append(x.body())
            continue
        if z3.is_app(x):
            if x.decl().kind() == z3.Z3_OP_UNINTERPRETED:
                nm = x.decl().name()
                if nm not in UBIQUITOUS and not nm.startswith("$") and not nm.startswith("f:") and not nm.startswith("alloc!"):
                    names.add(nm)
            todo.extend(x.children())
    cache[k] = (names, term)
    return names


def to_smt2_sliced(obl, background):
    """goal-directed weakening: only the assumptions connected to the goal through shared symbols (fixpoint), plus the relevant
    background.  Dropping assumptions is sound for a proof; unrelated quantified facts are what makes z3 wander."""
    from .symex import has_quantifier
    link = lambda syms: {x for x in syms if not x.startswith("p_")}     # parameters occur everywhere: they do not link
    live = link(term_symbols(obl.goal))
    rest = list(obl.assumptions)
    chosen = []
    changed = True
    while changed:
        changed = False
        keep = []
        for a in rest:
            syms = link(term_symbols(a))
            if (syms & live) or (not syms and not has_quantifier(a)):
                chosen.append(a)
                if not syms <= live:
                    live |= syms
                    changed = True
            else:
                keep.append(a)
        rest = keep
    if not rest:
        return None            # nothing dropped: same as the full problem
    o2 = Obligation(obl.name, chosen, obl.goal, obl.kind, obl.line, obl.extra)
    return to_smt2(o2, background)


def discharge_singles(name, kind, line, nobg_text, timeout_ms=2500, limit=12, seed=0):
    """weakenings `quantifier-free assumptions + ONE quantified assumption` (most recent first), from the no-background text.
    z3 finds the needed instance at once when the one relevant quantified fact stands alone, and wanders when all are present."""
    from .symex import has_quantifier
    t0 = time.time()
    ctx = z3.Context()
    asserts = list(z3.parse_smt2_string(nobg_text, ctx=ctx))
    if not asserts:
        return None
    goal_neg = asserts[-1]
    ground = [a for a in asserts[:-1] if not has_quantifier(a)]
    quants = [a for a in asserts[:-1] if has_quantifier(a)]
    if len(quants) < 2:
        return None
    def attempt(qs, label, to):
        s = z3.Solver(ctx=ctx)
        s.add(ground)
        s.add(qs)
        s.add(goal_neg)
        st, mdl, reason = run_z3_cli(s.to_smt2().replace("(check-sat)", ""), to, seed)
        if st == "unsat":
            return Result(name, "proved", label, time.time() - t0, kind, line)
        return None

    for q in list(reversed(quants))[:limit]:
        r = attempt([q], "z3 (quantifier-free assumptions + one quantified assumption)", timeout_ms)
        if r is not None:
            return r
    # quantified assumptions within one / two hops of the goal (shared non-parameter symbols)
    def syms(t):
        return {x for x in term_symbols_ctx(t) if not x.startswith("p_")}
    gs = syms(goal_neg)
    qsyms = [(q, syms(q)) for q in quants]
    h1 = [q for q, sy in qsyms if sy & gs]
    s1 = set(gs)
    for q, sy in qsyms:
        if sy & gs:
            s1 |= sy
    h2 = [q for q, sy in qsyms if sy & s1]
    for sel, label in ((h1, "one hop"), (h2, "two hops")):
        if 1 < len(sel) < len(quants):
            r = attempt(sel, "z3 (quantifier-free assumptions + quantified assumptions within %s of the goal)" % label, 4 * timeout_ms)
            if r is not None:
                return r
    return None


def term_symbols_ctx(term):
    """like term_symbols, for terms of any context (no cache); havoc'd heap arrays DO link, entry arrays and engine symbols do not"""
    names = set()
    seen = set()
    todo = [term]
    while todo:
        x = todo.pop()
        if x.get_id() in seen:
            continue
        seen.add(x.get_id())
        if z3.is_quantifier(x):
            todo.append(x.body())
            continue
        if z3.is_app(x):
            if x.decl().kind() == z3.Z3_OP_UNINTERPRETED:
                nm = x.decl().name()
                if nm not in UBIQUITOUS and not nm.endswith("@0") and not nm.startswith("alloc!") and nm != "$alloc@0":
                    names.add(nm)
            todo.extend(x.children())
    return names


Z3CLI = shutil.which("z3-new")


def run_z3_cli(smt2, timeout_ms, seed):
    """z3 (the same 5.1 build as the wheel) as a separate process with a HARD time limit: the in-process `timeout` parameter
    is only polled, and the sequence solver can run for minutes without polling it.  -> (status, model dict|None, reason)"""
    with tempfile.NamedTemporaryFile("w", suffix=".smt2", delete=False) as fh:
        fh.write(smt2 + "\n(check-sat)\n(get-model)\n")
        path = fh.name
    secs = max(1, int(timeout_ms / 1000))
    try:
        p = subprocess.run([Z3CLI, "-T:%d" % secs, "-t:%d" % timeout_ms, "smt.random_seed=%d" % seed, "sat.random_seed=%d" % seed, path],
                           capture_output=True, text=True, timeout=secs + 10)
        out = p.stdout
    except subprocess.TimeoutExpired:
        return "unknown", None, "timeout (killed)"
    finally:
        try:
            os.unlink(path)
        except OSError:
            pass
    first = out.strip().splitlines()[0].strip() if out.strip() else ""
    if first == "unsat":
        return "unsat", None, ""
    if first == "sat":
        return "sat", parse_cli_model(out), ""
    return "unknown", None, ("timeout" if "timeout" in out else first[:80] or "no answer")


def parse_cli_model(out, limit=60):
    """constants of the model printed by (get-model): name -> value text"""
    import re
    mdl = {}
    for m in re.finditer(r"\(define-fun (\|[^|]*\||\S+) \(\) (?:\([^()]*(?:\([^()]*\)[^()]*)*\)|\S+)\s+((?:\([^()]*(?:\([^()]*(?:\([^()]*\)[^()]*)*\)[^()]*)*\))|[^()\s]+)\)", out):
        nm = m.group(1).strip("|")
        if not (nm.startswith("p_") or nm.startswith("exc") or nm.startswith("res")):
            continue
        mdl[nm] = " ".join(m.group(2).split())[:120]
        if len(mdl) >= limit:
            break
    return mdl


def discharge_smt2(name, kind, line, smt2, timeout_ms=10000, use_cvc5=True, seed=0, detail="", retries=2, inproc=False):
    """-> Result, from the SMT-LIB2 text (runs in any process).  Every attempt is a fresh solver process (or, inproc=True, a FRESH
    z3 context), so the verdict is a function of the text and the seed only (z3's string solver is sensitive to what else lives
    in the context); a timeout is retried with other seeds before it counts as undecided."""
    t0 = time.time()
    reason = ""
    for attempt in range(1 + max(0, retries)):
        backend = "z3" if attempt == 0 else "z3 (retry seed+%d)" % attempt
        if inproc or Z3CLI is None:
            ctx = z3.Context()
            s = z3.Solver(ctx=ctx)
            s.set("timeout", timeout_ms)
            s.set("random_seed", seed + attempt)
            s.add(z3.parse_smt2_string(smt2, ctx=ctx))
            r = s.check()
            st = "unsat" if r == z3.unsat else "sat" if r == z3.sat else "unknown"
            mdl = model_summary(s.model()) if st == "sat" else None
            reason = s.reason_unknown() if st == "unknown" else ""
            del s, ctx
        else:
            st, mdl, reason = run_z3_cli(smt2, timeout_ms, seed + attempt)
        if st == "unsat":
            return Result(name, "proved", backend, time.time() - t0, kind, line)
        if st == "sat":
            return Result(name, "refuted", backend, time.time() - t0, kind, line, model=mdl, detail=detail)
        if attempt == 0 and use_cvc5 and os.path.exists(CVC5) and "Val" not in smt2:
            st, t2 = run_cvc5_text(smt2, timeout_ms)
            if st == "unsat":
                return Result(name, "proved", "cvc5", time.time() - t0, kind, line)
            if st == "sat":
                return Result(name, "refuted", "cvc5", time.time() - t0, kind, line, detail=detail)
    return Result(name, "unknown", "z3", time.time() - t0, kind, line, detail="z3: %s" % reason)


def run_cvc5_text(smt2, timeout_ms):
    t0 = time.time()
    with tempfile.NamedTemporaryFile("w", suffix=".smt2", delete=False) as fh:
        fh.write("(set-logic ALL)\n" + smt2)
        path = fh.name
    try:
        p = subprocess.run([CVC5, "--strings-exp", "--tlimit=%d" % timeout_ms, path], capture_output=True, text=True, timeout=timeout_ms / 1000 + 5)
        out = p.stdout.strip().splitlines()
        st = out[0].strip() if out else "error"
    except Exception:
        st = "error"
    finally:
        try:
            os.unlink(path)
        except OSError:
            pass
    return st, time.time() - t0


def run_cvc5(solver, timeout_ms):
    t0 = time.time()
    smt2 = "(set-logic ALL)\n" + solver.to_smt2()
    with tempfile.NamedTemporaryFile("w", suffix=".smt2", delete=False) as fh:
        fh.write(smt2)
        path = fh.name
    try:
        p = subprocess.run([CVC5, "--strings-exp", "--tlimit=%d" % timeout_ms, path], capture_output=True, text=True, timeout=timeout_ms / 1000 + 5)
        out = p.stdout.strip().splitlines()
        st = out[0].strip() if out else "error"
    except Exception as e:   # timeout or crash of the back end: undecided
        st = "error"
    finally:
        try:
            os.unlink(path)
        except OSError:
            pass
    return st, time.time() - t0


def model_summary(mdl, limit=60):
    out = {}
    for d in mdl.decls():
        nm = d.name()
        if d.arity() == 0 and (nm.startswith("p_") or nm.startswith("exc") or nm.startswith("res")):
            out[nm] = str(mdl[d])[:300]
        if len(out) >= limit:
            break
    return out
