"""Executor-side values."""
import z3
from .sorts import Val


class Value:
    pass


class SV(Value):
    """A symbolic Python value: a z3 term of sort Val plus a static type tag."""
    __slots__ = ("_term", "_b", "ty")

    def __init__(self, term=None, ty=None, b=None):
        self._term = term
        self._b = b
        self.ty = ty

    @property
    def term(self):
        if self._term is None:
            self._term = Val.boolv(self._b)
        return self._term

    def __repr__(self):
        return "SV(%s:%s)" % (self._term if self._term is not None else self._b, self.ty)


def BoolSV(b):
    if isinstance(b, bool):
        b = z3.BoolVal(b)
    return SV(None, "bool", b)


class PSeq(Value):
    """A pure (mathematical) sequence of Val: spec level, *args payloads, snapshots."""
    def __init__(self, seq, elem=None):
        self.seq = seq
        self.elem = elem

    def __repr__(self):
        return "PSeq(%s)" % self.seq


class PSet(Value):
    def __init__(self, m, elem=None):
        self.m = m
        self.elem = elem


class PMap(Value):
    """pure dict contents: Array(Val, Val) with absent; optional key order"""
    def __init__(self, m, elem=None):
        self.m = m
        self.elem = elem


class PHist(Value):
    def __init__(self, h):
        self.h = h


class PEvent(Value):
    def __init__(self, e):
        self.e = e


class PRaw(Value):
    """any other z3 term used at spec level (whole heap arrays, Hist arrays ...)"""
    def __init__(self, t):
        self.t = t


class TupV(Value):
    """Executor-side tuple of known arity."""
    def __init__(self, items):
        self.items = list(items)

    def __repr__(self):
        return "TupV(%r)" % (self.items,)


class FuncV(Value):
    def __init__(self, node, module, cls=None, env=None, name=None):
        self.node = node
        self.module = module
        self.cls = cls          # defining ClassInfo (for super(), name mangling)
        self.env = env          # closure environment (dict) or None
        self.name = name or getattr(node, "name", "<lambda>")

    def __repr__(self):
        return "FuncV(%s)" % self.name


class BoundV(Value):
    def __init__(self, recv, func, name):
        self.recv = recv        # Value
        self.func = func        # FuncV | Contract(shape) | ('builtin', kind) | ('lib', qualname)
        self.name = name

    def __repr__(self):
        return "BoundV(%r.%s)" % (self.recv, self.name)


class ClassV(Value):
    def __init__(self, info=None, ext=None):
        self.info = info        # ClassInfo
        self.ext = ext          # external dotted name / builtin exception name

    @property
    def name(self):
        return self.info.name if self.info is not None else self.ext

    def __repr__(self):
        return "ClassV(%s)" % self.name


class BuiltinV(Value):
    def __init__(self, name):
        self.name = name

    def __repr__(self):
        return "BuiltinV(%s)" % self.name


class ModuleV(Value):
    def __init__(self, name):
        self.name = name


class SuperV(Value):
    def __init__(self, cls, recv):
        self.cls = cls
        self.recv = recv


class MethodCallerV(Value):
    """operator.methodcaller(name, *args, **kwargs)"""
    def __init__(self, name, args, kwargs):
        self.name = name
        self.args = args
        self.kwargs = kwargs


class SpecFn(Value):
    def __init__(self, name):
        self.name = name


class StaticDictV(Value):
    """a dispatch table with constant keys evaluated from the source (class body / __init__)"""
    def __init__(self, items):
        self.items = dict(items)     # python constant -> Value


class PartialV(Value):
    """functools.partial(func, *args, **kwargs)"""
    def __init__(self, func, args, kwargs):
        self.func = func
        self.args = list(args)
        self.kwargs = dict(kwargs)
