"""z3 sorts and the fixed vocabulary of the encoding (DESIGN.md section 2.2)."""
import z3

z3.set_param("smt.random_seed", 0)

I = z3.IntSort()
B = z3.BoolSort()
S = z3.StringSort()

_Val = z3.Datatype("Val")
_fwd = z3.DatatypeSort("Val")
_Val.declare("none")
_Val.declare("absent")                      # "no such key / attribute" marker, never a Python value
_Val.declare("boolv", ("b", B))
_Val.declare("intv", ("i", I))
_Val.declare("strv", ("s", S))
_Val.declare("bytesv", ("bs", S))
_Val.declare("ref", ("r", I))               # mutable object with identity (heap address)
_Val.declare("cls", ("c", I))               # class object
_Val.declare("tup", ("elems", z3.SeqSort(_fwd)))
_Val.declare("opq", ("o", I))               # opaque immutable value (datetime, float, ...)
Val = _Val.create()

SeqV = z3.SeqSort(Val)
KwMap = z3.ArraySort(Val, Val)              # dict contents / keyword payload: key -> value | absent
SetMap = z3.ArraySort(Val, B)

_Event = z3.Datatype("Event")
_Event.declare("ev", ("name", S), ("args", SeqV), ("kw", KwMap))
Event = _Event.create()

_Hist = z3.Datatype("Hist")
_Hist.declare("hnil")
_Hist.declare("snoc", ("hinit", _Hist), ("hlast", Event))
Hist = _Hist.create()

# global ordered log: (receiver ref, event)
_GEvent = z3.Datatype("GEvent")
_GEvent.declare("gev", ("recv", I), ("gevent", Event))
GEvent = _GEvent.create()
_GHist = z3.Datatype("GHist")
_GHist.declare("gnil")
_GHist.declare("gsnoc", ("ginit", _GHist), ("glast", GEvent))
GHist = _GHist.create()

EMPTY_KW = z3.K(Val, Val.absent)
EMPTY_SET = z3.K(Val, z3.BoolVal(False))
EMPTY_SEQ = z3.Empty(SeqV)

# heap component sorts
FieldArr = z3.ArraySort(I, Val)
ListArr = z3.ArraySort(I, SeqV)
SetArr = z3.ArraySort(I, SetMap)
DictArr = z3.ArraySort(I, KwMap)
HistArr = z3.ArraySort(I, Hist)

# uninterpreted vocabulary
typeof = z3.Function("typeof", I, I)              # class id of an object
subclass = z3.Function("subclass", I, I, B)       # class id x class id
dict_order = z3.Function("dict_order", KwMap, SeqV)   # insertion order of a dict with these contents (abstract)
dict_pos = z3.Function("dict_pos", KwMap, Val, I)      # position of a present key in dict_order of these contents
set_order = z3.Function("set_order", SetMap, I, SeqV)
set_pos = z3.Function("set_pos", SeqV, Val, I)           # position of a member in an iteration order of a set  # an arbitrary iteration order (second arg: iteration instance)
fmt = z3.Function("fmt", S, SeqV, S)              # any formatting operation: total function of its arguments
opaque_str = z3.Function("opaque_str", Val, S)    # str()/repr() of a leaf value
py_eq = z3.Function("py_eq", Val, Val, B)         # == on values whose identity is not structural


def seq_of(terms):
    if not terms:
        return EMPTY_SEQ
    units = [z3.Unit(t) for t in terms]
    return units[0] if len(units) == 1 else z3.Concat(*units)


def strv(s):
    return Val.strv(z3.StringVal(s))


def intv(i):
    return Val.intv(z3.IntVal(i))


def boolv(b):
    return Val.boolv(z3.BoolVal(b))


_fresh = [0]


def fresh(prefix, sort):
    _fresh[0] += 1
    return z3.Const("%s!%d" % (prefix, _fresh[0]), sort)
