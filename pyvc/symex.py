"""Path-wise symbolic execution of real function bodies into verification
conditions.  One path at a time, driven by a decision prefix (stateless DFS):
branch points consult the solver for feasibility, take the first feasible
alternative and queue the others; every obligation carries the path condition
under which it was generated."""
import ast
import itertools
import z3

from . import sorts as so
from .sorts import Val, I, B, S, SeqV, KwMap, SetMap, Event, Hist, GEvent, GHist
from .values import *
from .spec import parse_expr, parse_tag, Contract
from .loader import ClassInfo


class Unsupported(Exception):
    pass


class SpecError(Exception):
    pass


class PathEnd(Exception):
    """path ends here (loop cut point, infeasible, assumed false)"""


class PyRaise(Exception):
    def __init__(self, exc, note=""):
        self.exc = exc      # SV: the exception object
        self.note = note


class PyReturn(Exception):
    def __init__(self, value):
        self.value = value


class PyBreak(Exception):
    pass


class PyContinue(Exception):
    pass


BUILTIN_KINDS = ["object", "list", "set", "frozenset", "dict", "function", "type", "str", "bytes", "int", "bool", "tuple", "NoneType"]
# builtin exception hierarchy (subset that the verified code mentions); audited against CPython by replay/audit.py
EXC_BASES = {
    "BaseException": "object",
    "Exception": "BaseException",
    "KeyboardInterrupt": "BaseException",
    "SystemExit": "BaseException",
    "GeneratorExit": "BaseException",
    "AssertionError": "Exception",
    "TypeError": "Exception",
    "ValueError": "Exception",
    "LookupError": "Exception",
    "KeyError": "LookupError",
    "IndexError": "LookupError",
    "AttributeError": "Exception",
    "RuntimeError": "Exception",
    "NotImplementedError": "RuntimeError",
    "StopIteration": "Exception",
    "OSError": "Exception",
    "ImportError": "Exception",
    "UnicodeError": "ValueError",
    "SkipTest": "Exception",            # unittest.case.SkipTest
    "_ShouldStop": "Exception",
    "_UnexpectedSuccess": "Exception",  # unittest.case._UnexpectedSuccess
    "Warning": "Exception",
    "DeprecationWarning": "Warning",
}
EXT_ALIASES = {
    "unittest.case.SkipTest": "SkipTest", "unittest.SkipTest": "SkipTest",
    "unittest.case._UnexpectedSuccess": "_UnexpectedSuccess",
}


class ClassIds:
    def __init__(self, repo):
        self.repo = repo
        self.ids = {}
        self.names = {}
        for n in BUILTIN_KINDS + sorted(EXC_BASES):
            self.cid(n)

    def cid(self, name):
        if name not in self.ids:
            k = len(self.ids) + 1
            self.ids[name] = k
            self.names[k] = name
        return self.ids[name]

    def key(self, c):
        """canonical key for a ClassInfo or external name"""
        if isinstance(c, ClassInfo):
            return c.qual
        c = EXT_ALIASES.get(c, c)
        return c.split(".")[-1] if c.split(".")[-1] in EXC_BASES or c in BUILTIN_KINDS else c

    def bases_closure(self, key):
        """all superclass keys (reflexive) of a known class key"""
        out = [key]
        c = self.repo.class_by_qual.get(key)
        if c is not None:
            for k in c.mro[1:]:
                kk = self.key(k)
                if kk not in out:
                    out.append(kk)
                if not isinstance(k, ClassInfo):
                    for b in self.bases_closure(kk):
                        if b not in out:
                            out.append(b)
        else:
            b = EXC_BASES.get(key)
            while b is not None:
                if b not in out:
                    out.append(b)
                b = EXC_BASES.get(b)
        if "object" not in out:
            out.append("object")
        return out


class Frame:
    def __init__(self, func, locs):
        self.func = func
        self.locals = locs
        self.cur_exc = None


class State:
    def __init__(self):
        self.heap = {}
        self.pc = []
        self.frames = []

    def copy(self):
        s = State()
        s.heap = dict(self.heap)
        s.pc = list(self.pc)
        s.frames = self.frames
        return s


def initial_comp(name):
    if name.startswith("f:"):
        return z3.Const(name + "@0", so.FieldArr)
    return {
        "$list": lambda: z3.Const("$list@0", so.ListArr),
        "$set": lambda: z3.Const("$set@0", so.SetArr),
        "$dict": lambda: z3.Const("$dict@0", so.DictArr),
        "$hist": lambda: z3.Const("$hist@0", so.HistArr),
        "$G": lambda: z3.Const("$G@0", GHist),
        "$alloc": lambda: z3.Const("$alloc@0", I),
        "$attrs": lambda: z3.Const("$attrs@0", so.DictArr),     # dynamic attributes of arbitrary objects: ref -> (name -> value | absent)
    }[name]()


def _conjuncts(t):
    if z3.is_and(t):
        out = []
        for c in t.children():
            out.extend(_conjuncts(c))
        return out
    return [t]


def skolemize_goal(goal, pc, max_inst=120, extra_terms=()):
    """Proof assistance, logically neutral: universally quantified integer variables at the top of the goal are replaced by fresh
    constants (proving the body for a fresh constant proves the universal), and every assumption of the form `forall i:Int. P(i)`
    is ADDITIONALLY instantiated at those constants (an instance of an assumption is a consequence of it).  E-matching through
    seq.nth is unreliable; the instances at the goal's own index are the ones a proof needs."""
    import os
    if os.environ.get("VERIF_NO_SKOLEM"):
        return goal, []
    sks = []

    def pull(t, depth=0):
        """skolemise universals in positive positions (under And / Or only): (forall x.P) or B == forall x.(P or B), x fresh"""
        if z3.is_quantifier(t) and t.is_forall() and t.num_vars() <= 2:
            consts = [so.fresh("sk", t.var_sort(k)) for k in range(t.num_vars())]
            sks.extend(consts)
            return z3.substitute_vars(t.body(), *reversed(consts))
        if depth < 4 and z3.is_and(t):
            return z3.And([pull(c, depth + 1) for c in t.children()])
        if depth < 4 and z3.is_or(t):
            return z3.Or([pull(c, depth + 1) for c in t.children()])
        return t

    parts = _conjuncts(goal)
    new_parts = [pull(p) for p in parts]
    if not sks and not extra_terms and not any(z3.is_quantifier(c) for h in pc[-40:] for c in _conjuncts(h)):
        return goal, []
    # the current loop indexes are further integer terms worth instantiating at (the element the body works on)
    seen_ids = set()
    for t in extra_terms:
        if t.get_id() not in seen_ids and not z3.is_int_value(t):
            seen_ids.add(t.get_id())
            sks.append(t)
    insts = []
    # a dictionary known to be non-empty (m != {}) has some key: name it, so that facts about all keys can be used for it
    for h in pc[-60:]:
        if z3.is_not(h) and z3.is_eq(h.arg(0)) and h.arg(0).arg(0).sort() == KwMap:
            a_, b_ = h.arg(0).arg(0), h.arg(0).arg(1)
            for m_, k_ in ((a_, b_), (b_, a_)):
                if z3.is_const_array(k_) and k_.arg(0).eq(Val.absent) and len(sks) < 8:
                    w = so.fresh("wit", Val)
                    insts.append(m_[w] != Val.absent)
                    sks.append(w)
    for h in pc:
        for c in _conjuncts(h):
            if z3.is_quantifier(c) and c.is_forall() and c.num_vars() == 2 and c.var_sort(0) == z3.IntSort() and c.var_sort(1) == z3.IntSort():
                ints = [t for t in sks if t.sort() == z3.IntSort()][:4]
                for a in ints:
                    for b in ints:
                        if not a.eq(b) and len(insts) < max_inst:
                            insts.append(z3.substitute_vars(c.body(), a, b))
            if z3.is_quantifier(c) and c.is_forall() and c.num_vars() == 1:
                for sk in sks:
                    if sk.sort() != c.var_sort(0):
                        continue
                    insts.append(z3.substitute_vars(c.body(), sk))
                    if len(insts) >= max_inst:
                        break
    # small literal indexes: facts about short literal sequences ([a, b, c] built by the code) are needed at 0, 1, 2.  They are
    # kept apart (ALT): an alternative strengthening tried only when the obligation does not go through without them
    alt = []
    for h in pc[-40:]:
        for c in _conjuncts(h):
            if z3.is_quantifier(c) and c.is_forall() and c.num_vars() == 1 and c.var_sort(0) == z3.IntSort() and len(alt) < max_inst:
                for k in (0, 1, 2):
                    alt.append(z3.substitute_vars(c.body(), z3.IntVal(k)))
    skolemize_goal.last_alt = alt
    # second round: positions of keys (dict_pos(m, k), ground) produced by the first round are indexes worth instantiating at
    pos_terms = {}
    for t in insts:
        todo = [t]
        seen = set()
        while todo:
            x = todo.pop()
            if x.get_id() in seen:
                continue
            seen.add(x.get_id())
            if z3.is_app(x):
                if x.decl().name() == "dict_pos" and not _has_var(x):
                    pos_terms[x.get_id()] = x
                todo.extend(x.children())
    if pos_terms:
        for h in pc:
            for c in _conjuncts(h):
                if z3.is_quantifier(c) and c.is_forall() and c.num_vars() == 1 and c.var_sort(0) == z3.IntSort():
                    for pt in list(pos_terms.values())[:4]:
                        if len(insts) < 2 * max_inst:
                            insts.append(z3.substitute_vars(c.body(), pt))
    return (z3.And(new_parts) if len(new_parts) > 1 else new_parts[0]), insts


def _has_var(t):
    todo = [t]
    seen = set()
    while todo:
        x = todo.pop()
        if x.get_id() in seen:
            continue
        seen.add(x.get_id())
        if z3.is_var(x):
            return True
        todo.extend(x.children())
    return False


class Obligation:
    def __init__(self, name, assumptions, goal, kind, line, extra=None):
        self.name = name
        self.assumptions = assumptions
        self.goal = goal
        self.kind = kind
        self.line = line
        self.extra = extra or {}
        self.alt = []          # further instances of assumptions (literal indexes), used as an alternative strengthening


class Engine:
    """Symbolic executor for one verification target."""

    def __init__(self, repo, registry, classids=None, timeout_ms=10000):
        self.repo = repo
        self.reg = registry
        self.cids = classids or ClassIds(repo)
        self.timeout_ms = timeout_ms
        self.obligations = []
        self.inlined = set()
        self.used_contracts = set()
        self.mentioned = set()          # class keys mentioned (for subclass ground facts)
        self.discovery = 0              # >0: written-set discovery pass (no obligations)
        self.loop_cache = {}
        self.spec_fns = {}
        self.closures = {}              # str(term) -> executor value stored in the heap
        self.warnings = []
        self.solver = None
        self.trace = []
        self.prefix = []
        self.worklist = []
        self.record = True
        self.spec_mode = 0
        self.old_heap = None
        self.target_name = ""
        self.path_notes = []
        self.npaths = 0
        self.current_contract = None
        self.context_vals = {}
        self.fresh_base = 0
        self.ghost = {}
        self.axiom_terms = None
        self.fresh_objs = {}

    # ------------------------------------------------------------------ utils
    def unsupported(self, node, what):
        line = getattr(node, "lineno", "?")
        raise Unsupported("%s: unsupported %s at line %s: %s" % (self.target_name, what, line, ast.unparse(node)[:80] if isinstance(node, ast.AST) else node))

    def comp(self, name, st=None):
        st = st or self.st
        t = st.heap.get(name)
        if t is None:
            t = initial_comp(name)
        return t

    def set_comp(self, name, term, idx=None):
        self.st.heap[name] = term
        if self.discovery:
            self.written.setdefault(name, []).append(idx)

    def assume(self, cond):
        cond = z3.simplify(cond)
        if z3.is_true(cond):
            return
        if z3.is_false(cond):
            raise PathEnd()
        self.st.pc.append(cond)
        if not has_quantifier(cond):
            self.solver.add(cond)

    def check_sat(self, extra=None):
        """feasibility over the quantifier-free part of the path condition (an over-approximation)"""
        if extra is not None and has_quantifier(extra):
            return True
        self.solver.set("timeout", 1000)
        r = self.solver.check(*([extra] if extra is not None else []))
        return r != z3.unsat

    def oblige(self, kind, goal, node=None, label=None, extra=None):
        if self.discovery or not self.record:
            return
        if len(self.trace) < len(self.prefix):
            return   # already emitted by the path sharing this prefix
        goal = z3.simplify(goal)
        if z3.is_true(goal):
            # still count trivially-true obligations (they are obligations of the contract)
            pass
        line = getattr(node, "lineno", 0) if node is not None else 0
        name = "%s/%s%s@L%s#%d" % (self.target_name, kind, ("/" + label) if label else "", line, len(self.obligations))
        extra = dict(extra or {})
        extra.setdefault("path", list(self.path_notes))
        extra["sigs"] = getattr(self, "cur_sigs", {})
        idx = []
        if self.st.frames:
            for nm, lv in self.st.frames[-1].locals.items():
                if nm.startswith("_i") and isinstance(lv, SV):
                    idx.append(z3.simplify(Val.i(lv.term)))
                    idx.append(z3.simplify(Val.i(lv.term) - 1))     # the index the just-finished iteration worked on
        skolemize_goal.last_alt = []
        goal, insts = skolemize_goal(goal, self.st.pc, extra_terms=idx)
        ob = Obligation(name, list(self.st.pc) + insts, goal, kind, line, extra)
        ob.alt = list(skolemize_goal.last_alt)
        self.obligations.append(ob)

    # ------------------------------------------------------------- branching
    def choose(self, n, label=""):
        """n-way nondeterministic choice (all alternatives assumed feasible)."""
        k = len(self.trace)
        if k < len(self.prefix):
            d = self.prefix[k]
        else:
            d = 0
            if n > 1 and getattr(self, "_no_branch", 0):
                raise Unsupported("%s: choice inside a comprehension element (%s)" % (getattr(self, "target_name", "?"), label))
            for alt in range(n - 1, 0, -1):
                self.worklist.append(list(self.trace) + [alt])
        self.trace.append(d)
        self.path_notes.append("%s=%d" % (label, d))
        return d

    def branch(self, cond, label=""):
        """two-way branch on a z3 Bool; returns the python bool taken on this path."""
        cond = z3.simplify(cond)
        if z3.is_true(cond):
            return True
        if z3.is_false(cond):
            return False
        k = len(self.trace)
        if k < len(self.prefix):
            d = self.prefix[k]
        else:
            t_ok = self.check_sat(cond)
            f_ok = self.check_sat(z3.Not(cond))
            if t_ok and f_ok:
                if getattr(self, "_no_branch", 0):
                    raise Unsupported("%s: branching inside a comprehension element (%s)" % (getattr(self, "target_name", "?"), label))
                d = 1
                self.worklist.append(list(self.trace) + [0])
            elif t_ok:
                d = 3      # forced true
            elif f_ok:
                d = 2      # forced false
            else:
                raise PathEnd()
        self.trace.append(d)
        taken = d in (1, 3)
        c = cond if taken else z3.Not(cond)
        self.st.pc.append(c)
        if not has_quantifier(c):
            self.solver.add(c)
        if d in (0, 1):
            self.path_notes.append("%s=%s" % (label, taken))
        return taken

    # -------------------------------------------------------------- classes
    def class_key(self, c):
        k = self.cids.key(c)
        self.mentioned.add(k)
        return k

    def class_id(self, c):
        return z3.IntVal(self.cids.cid(self.class_key(c)))

    def class_term(self, c):
        return Val.cls(self.class_id(c))

    def subclass_axioms(self):
        """ground facts for all mentioned classes + reflexivity/transitivity for symbolic ones"""
        keys = set()
        for k in list(self.mentioned):
            keys.update(self.cids.bases_closure(k))
        keys = sorted(keys)
        facts = []
        clos = {k: set(self.cids.bases_closure(k)) for k in keys}
        for a in keys:
            for b in keys:
                f = so.subclass(self.cids.cid(a), self.cids.cid(b))
                facts.append(f if b in clos[a] else z3.Not(f))
        x, y, w = z3.Ints("cx cy cw")
        facts.append(z3.ForAll([x], so.subclass(x, x)))
        facts.append(z3.ForAll([x, y, w], z3.Implies(z3.And(so.subclass(x, y), so.subclass(y, w)), so.subclass(x, w)),
                               patterns=[z3.MultiPattern(so.subclass(x, y), so.subclass(y, w))]))
        facts.append(z3.ForAll([x], so.subclass(x, self.cids.cid("object"))))
        return facts

    # ----------------------------------------------------------------- heap
    def alloc(self, clskey, ty, type_term=None):
        a = self.comp("$alloc")
        r = a
        self.set_comp("$alloc", a + 1)
        if type_term is not None:
            self.assume(so.typeof(r) == type_term)
        else:
            self.mentioned.add(clskey)
            self.assume(so.typeof(r) == self.cids.cid(clskey))
        v = SV(Val.ref(r), ty)
        _t = z3.simplify(v.term)
        self.fresh_objs[_t.get_id()] = (ty, _t)   # keep the term alive: ids are recycled after GC
        return v

    def refof(self, v, node=None):
        if isinstance(v, SV):
            return Val.r(v.term)
        self.unsupported(node, "reference of %r" % (v,))

    def get_field(self, ref, name):
        return read_array(self.comp("f:" + name), ref)

    def set_field(self, ref, name, term):
        c = "f:" + name
        self.set_comp(c, z3.Store(self.comp(c), ref, term), ref)

    def list_of(self, v):
        return read_array(self.comp("$list"), self.refof(v))

    def set_list(self, v, seq):
        r = self.refof(v)
        self.set_comp("$list", z3.Store(self.comp("$list"), r, seq), r)

    def setmap_of(self, v):
        return read_array(self.comp("$set"), self.refof(v))

    def set_setmap(self, v, m):
        r = self.refof(v)
        self.set_comp("$set", z3.Store(self.comp("$set"), r, m), r)

    def dict_of(self, v):
        return read_array(self.comp("$dict"), self.refof(v))

    def set_dict(self, v, m):
        r = self.refof(v)
        self.set_comp("$dict", z3.Store(self.comp("$dict"), r, m), r)

    def hist_of(self, ref):
        return self.comp("$hist")[ref]

    def emit(self, ref, name, args_seq, kw):
        e = Event.ev(z3.StringVal(name) if isinstance(name, str) else name, args_seq, kw)
        h = self.comp("$hist")
        self.set_comp("$hist", z3.Store(h, ref, Hist.snoc(h[ref], e)), ref)
        self.set_comp("$G", GHist.gsnoc(self.comp("$G"), GEvent.gev(ref, e)))

    def new_list(self, seq, elem=None):
        v = self.alloc("list", "list[%s]" % elem if elem else "list")
        self.set_list(v, seq)
        return v

    def new_set(self, m, kind="set"):
        v = self.alloc(kind, kind)
        self.set_setmap(v, m)
        return v

    def new_dict(self, m, elem=None):
        v = self.alloc("dict", "dict[%s]" % elem if elem else "dict")
        self.set_dict(v, m)
        return v

    # ---------------------------------------------------------- conversions
    def to_term(self, v, node=None):
        """executor value -> z3 Val term"""
        if isinstance(v, SV):
            return v.term
        if isinstance(v, TupV):
            return Val.tup(so.seq_of([self.to_term(x, node) for x in v.items]))
        if isinstance(v, ClassV):
            return self.class_term(v.info if v.info is not None else v.ext)
        if isinstance(v, PSeq):
            return Val.tup(v.seq)
        if isinstance(v, FuncV) and "BufFn" in self.reg.shapes and not self.spec_mode and isinstance(v.node, ast.Lambda) \
                and isinstance(v.node.body, ast.List) and not v.node.args.args and v.env is not None:
            # `lambda: [e1, e2]` over captured immutable values: a closure object that returns a NEW list of these items each call
            key = self._closure_key(v)
            t = self.closures.get(key)
            if t is None:
                self.spec_envs.append(v.env)
                try:
                    items = [self.to_term(self.ev(e), node) for e in v.node.body.elts]
                finally:
                    self.spec_envs.pop()
                obj = self.alloc("function", "BufFn")
                self.set_field(self.refof(obj), "items", Val.tup(so.seq_of(items)))
                self.set_field(self.refof(obj), "buf", Val.absent)
                t = (obj.term, v)
                self.closures[key] = t
            return t[0]
        if isinstance(v, FuncV) and "BufFn" in self.reg.shapes and not self.spec_mode:
            cap = captured_name(v)
            if cap is not None and v.env is not None and cap in v.env:
                # `lambda: xs` / `def f(): return xs`: a closure object whose only behaviour is to return the captured
                # object; represented as a heap object with ghost field `buf` (the captured variable is never rebound)
                key = self._closure_key(v)
                t = self.closures.get(key)
                if t is None:
                    obj = self.alloc("function", "BufFn")
                    self.set_field(self.refof(obj), "buf", self.to_term(v.env[cap], node))
                    self.set_field(self.refof(obj), "items", Val.absent)
                    t = (obj.term, v)
                    self.closures[key] = t
                return t[0]
        if isinstance(v, (FuncV, BoundV, MethodCallerV, BuiltinV, PartialV)):
            key = self._closure_key(v)
            t = self.closures.get(key)
            if t is None:
                t = (Val.ref(z3.Const("fn!%s" % key, I)), v)
                self.closures[key] = t
            _t = z3.simplify(t[0])
            self.closures[_t.get_id()] = (t[0], t[1], _t)
            return t[0]
        if isinstance(v, PSet) and self.spec_mode:
            self.unsupported(node, "pure set as term")
        self.unsupported(node, "conversion of %r to a term" % (v,))

    def _closure_key(self, v):
        if isinstance(v, FuncV):
            return "F%s_%s" % (v.name, getattr(v.node, "lineno", 0))
        if isinstance(v, BoundV):
            rt = v.recv.term if isinstance(v.recv, SV) else v.recv
            return "M%s_%s" % (v.name, str(rt)[:60])
        return "X%s" % id(v)

    def from_term(self, term, ty=None):
        t = z3.simplify(term)
        key = t.get_id()
        c = self.closures.get(key)
        if c is not None:
            return c[1]
        fty = self.fresh_objs.get(key)
        if fty is not None:
            return SV(t, fty[0])       # object allocated on this path: its concrete class is known
        return SV(term, ty)

    def is_fresh(self, v):
        return isinstance(v, SV) and z3.simplify(v.term).get_id() in self.fresh_objs

    def truthy(self, v, node=None):
        """z3 Bool: Python truthiness of a value"""
        if isinstance(v, SV):
            if v._b is not None:
                return v._b
            kind, arg = parse_tag(v.ty)
            t = v.term
            if kind == "bool":
                return Val.b(t)
            if kind == "int":
                return Val.i(t) != 0
            if kind == "str":
                return z3.Length(Val.s(t)) > 0
            if kind == "bytes":
                return z3.Length(Val.bs(t)) > 0
            if kind == "none":
                return z3.BoolVal(False)
            if kind == "list":
                return z3.Length(self.list_of(v)) > 0
            if kind in ("set", "frozenset", "anyset"):
                return self.setmap_of(v) != so.EMPTY_SET
            if kind == "dict":
                return self.dict_of(v) != so.EMPTY_KW
            if kind in ("tuple", "ftuple"):
                return z3.Length(Val.elems(t)) > 0
            if kind == "opt":
                inner = SV(t, arg)
                return z3.And(t != Val.none, self.truthy(inner, node))
            if kind is not None and kind not in ("any", "val"):
                # instance of a repo class or a shape: truthy unless it defines __bool__/__len__
                ci = self.repo.find_class(kind) if kind not in self.reg.shapes else None
                if ci is not None:
                    for k in ci.mro:
                        if isinstance(k, ClassInfo) and ("__bool__" in k.methods or "__len__" in k.methods):
                            self.unsupported(node, "truthiness of class with __bool__/__len__")
                return z3.BoolVal(True)
            return self.truthy_any(t)
        if isinstance(v, TupV):
            return z3.BoolVal(len(v.items) > 0)
        if isinstance(v, (FuncV, BoundV, ClassV, BuiltinV, MethodCallerV)):
            return z3.BoolVal(True)
        if isinstance(v, PSeq):
            return z3.Length(v.seq) > 0
        if isinstance(v, PSet):
            return v.m != so.EMPTY_SET
        if isinstance(v, PMap):
            return v.m != so.EMPTY_KW
        self.unsupported(node, "truthiness of %r" % (v,))

    def truthy_any(self, t):
        r = Val.r(t)
        ty = so.typeof(r)
        lst, st_, fz, dc = (self.cids.cid(k) for k in ("list", "set", "frozenset", "dict"))
        ref_truth = z3.If(ty == lst, z3.Length(self.comp("$list")[r]) > 0,
                     z3.If(z3.Or(ty == st_, ty == fz), self.comp("$set")[r] != so.EMPTY_SET,
                      z3.If(ty == dc, self.comp("$dict")[r] != so.EMPTY_KW, so_truthy_obj(r))))
        return z3.If(Val.is_none(t), False,
                z3.If(Val.is_boolv(t), Val.b(t),
                 z3.If(Val.is_intv(t), Val.i(t) != 0,
                  z3.If(Val.is_strv(t), z3.Length(Val.s(t)) > 0,
                   z3.If(Val.is_bytesv(t), z3.Length(Val.bs(t)) > 0,
                    z3.If(Val.is_tup(t), z3.Length(Val.elems(t)) > 0,
                     z3.If(Val.is_ref(t), ref_truth, True)))))))

    def as_bool(self, v, node=None):
        return self.truthy(v, node)

    def as_int(self, v, node=None):
        if isinstance(v, SV):
            return Val.i(v.term)
        self.unsupported(node, "int of %r" % (v,))

    def as_str(self, v, node=None):
        if isinstance(v, SV):
            k, a_ = parse_tag(v.ty)
            if k == "opt":
                k = parse_tag(a_)[0]
            if k == "bytes":
                return Val.bs(v.term)
            return Val.s(v.term)
        self.unsupported(node, "str of %r" % (v,))

    def as_seq(self, v, node=None):
        """pure sequence view of a list / tuple / PSeq value"""
        if isinstance(v, PSeq):
            return v.seq
        if isinstance(v, TupV):
            return so.seq_of([self.to_term(x, node) for x in v.items])
        if isinstance(v, SV):
            kind, arg = parse_tag(v.ty)
            if kind == "opt":
                kind, arg = parse_tag(arg)
            if kind == "list":
                return self.list_of(v)
            if kind in ("tuple", "ftuple"):
                return Val.elems(v.term)
            if kind in ("seq", "iter"):
                return Val.elems(v.term)
            t = z3.simplify(v.term)
            if z3.is_app(t) and t.decl().name() == "tup":
                return t.arg(0)          # statically a tuple value
        self.unsupported(node, "sequence view of %r" % (v,))

    def elem_tag(self, v):
        if isinstance(v, PSeq):
            return v.elem
        if isinstance(v, SV):
            kind, arg = parse_tag(v.ty)
            if kind in ("list", "tuple", "ftuple", "seq", "iter", "set", "frozenset", "anyset"):
                return arg
        return None

    def as_setmap(self, v, node=None):
        if isinstance(v, PSet):
            return v.m
        if isinstance(v, SV):
            kind, arg = parse_tag(v.ty)
            if kind in ("set", "frozenset", "anyset"):
                return self.setmap_of(v)
            if kind == "opt":
                return self.setmap_of(v)
        if isinstance(v, TupV) and not v.items:
            return so.EMPTY_SET
        if isinstance(v, TupV):
            m = so.EMPTY_SET
            for x in v.items:
                m = z3.Store(m, self.to_term(x), True)
            return m
        self.unsupported(node, "set view of %r" % (v,))

    def as_map(self, v, node=None):
        if isinstance(v, PMap):
            return v.m
        if isinstance(v, SV):
            kind, arg = parse_tag(v.ty)
            if kind in ("dict", "opt"):
                return self.dict_of(v)
        self.unsupported(node, "dict view of %r" % (v,))

    # ------------------------------------------------------------ exceptions
    def make_exc(self, clsval, args=(), node=None):
        key = self.class_key(clsval.info if clsval.info is not None else clsval.ext)
        e = self.alloc(key, clsval.name if clsval.info is not None else clsval.ext.split(".")[-1])
        self.set_field(self.refof(e), "args", Val.tup(so.seq_of([self.to_term(a, node) for a in args])))
        return e

    def raise_builtin(self, name, node=None, args=()):
        raise PyRaise(self.make_exc(ClassV(ext=name), args, node), note="implicit %s at L%s" % (name, getattr(node, "lineno", "?")))

    def isinstance_term(self, v, clsval, node=None):
        """z3 Bool for isinstance(v, clsval)"""
        if isinstance(clsval, TupV):
            return z3.Or([self.isinstance_term(v, c, node) for c in clsval.items]) if clsval.items else z3.BoolVal(False)
        if isinstance(clsval, SV) and parse_tag(clsval.ty)[0] == "tuple":
            return isinstance_any(self.to_term(v, node), Val.elems(clsval.term))
        if isinstance(clsval, SV):
            # symbolic class object
            if isinstance(v, SV):
                return z3.And(Val.is_ref(v.term), so.subclass(so.typeof(Val.r(v.term)), Val.c(clsval.term)))
            self.unsupported(node, "isinstance with symbolic class")
        if type(clsval).__name__ == "ExtV":
            clsval = ClassV(ext=clsval.dotted)
        if isinstance(clsval, BuiltinV):
            clsval = ClassV(ext=clsval.name)
        if not isinstance(clsval, ClassV):
            self.unsupported(node, "isinstance against %r" % (clsval,))
        name = clsval.name
        if isinstance(v, SV):
            kind, arg = parse_tag(v.ty)
            simple = {"str": "str", "bytes": "bytes", "int": "int", "bool": "bool", "dict": "dict", "list": "list", "tuple": "tuple", "set": "set", "frozenset": "frozenset"}
            if clsval.info is None and name in simple:
                t = v.term
                if kind in simple:
                    return z3.BoolVal(kind == name or (kind == "bool" and name == "int"))
                tests = {"str": Val.is_strv(t), "bytes": Val.is_bytesv(t), "int": z3.Or(Val.is_intv(t), Val.is_boolv(t)), "bool": Val.is_boolv(t), "tuple": Val.is_tup(t)}
                if name in tests:
                    return tests[name]
                return z3.And(Val.is_ref(t), so.typeof(Val.r(t)) == self.cids.cid(name))
            cid = self.class_id(clsval.info if clsval.info is not None else clsval.ext)
            if kind in ("str", "bytes", "int", "bool", "none", "tuple", "ftuple"):
                return z3.BoolVal(False)
            return z3.And(Val.is_ref(v.term), so.subclass(so.typeof(Val.r(v.term)), cid))
        if isinstance(v, (FuncV, BoundV)):
            return z3.BoolVal(name in ("FunctionType", "function"))
        if isinstance(v, TupV):
            return z3.BoolVal(name == "tuple")
        self.unsupported(node, "isinstance of %r" % (v,))


def read_array(arr, idx):
    """arr[idx], looking through Store chains whose indices differ from idx by a known non-zero integer"""
    a = arr
    while z3.is_app(a) and a.decl().kind() == z3.Z3_OP_STORE and a.arg(1).sort() == I:
        d = z3.simplify(a.arg(1) - idx)
        if z3.is_int_value(d):
            if d.as_long() == 0:
                return a.arg(2)
            a = a.arg(0)
            continue
        break
    return a[idx]


def captured_name(f):
    """name returned by a zero-argument closure of the form `lambda: x` / `def f(): return x`, else None"""
    n = f.node
    a = n.args
    if a.args or a.vararg or a.kwarg or a.kwonlyargs or a.posonlyargs:
        return None
    if isinstance(n, ast.Lambda):
        return n.body.id if isinstance(n.body, ast.Name) else None
    body = [st for st in n.body if not (isinstance(st, ast.Expr) and isinstance(st.value, ast.Constant))]
    if len(body) == 1 and isinstance(body[0], ast.Return) and isinstance(body[0].value, ast.Name):
        return body[0].value.id
    return None


_HQ_CACHE = {}


def has_quantifier(t):
    key = t.get_id()
    hit = _HQ_CACHE.get(key)
    if hit is not None and hit[1].eq(t):
        return hit[0]
    r = _has_quantifier(t)
    if len(_HQ_CACHE) > 200000:
        _HQ_CACHE.clear()
    _HQ_CACHE[key] = (r, t)
    return r


def _has_quantifier(t):
    seen = set()
    todo = [t]
    while todo:
        x = todo.pop()
        if z3.is_quantifier(x):
            return True
        i = x.get_id()
        if i in seen:
            continue
        seen.add(i)
        todo.extend(x.children())
    return False


_truthy_obj = z3.Function("truthy_obj", I, B)
isinstance_any = z3.Function("leaf_isinstance_any", Val, SeqV, B)


def so_truthy_obj(r):
    return _truthy_obj(r)
