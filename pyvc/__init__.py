"""PyVC: a verification-condition generator over the real Python AST of /repo.

Contracts live in /verif/specs (sidecar); obligations are discharged with z3
(and cvc5 as second back end).  See /verif/DESIGN.md section 2.
"""
