"""Attribute access, calls, contracts at call sites, builtins, spec vocabulary."""
import ast
import os
import z3

from . import sorts as so
from .sorts import Val, I, B, S, SeqV, KwMap, SetMap, Event, Hist, GEvent, GHist
from .values import *
from .spec import parse_expr, parse_tag, Contract
from .loader import ClassInfo
from .symex import (Unsupported, SpecError, PathEnd, PyRaise, PyReturn, PyBreak, PyContinue, Frame, State, EXC_BASES)
from .interp import Interp, ExtV, RangeV, ZipV, ChainEnv, BUILTIN_CLASSES, set_union, set_diff, set_inter, set_subset

has_attr = z3.Function("has_attr", I, S, B)          # capability of an abstract object: attribute present
accepts_kw = z3.Function("accepts_kw", I, S, S, B)   # target's method accepts that keyword

SORTS = {"val": Val, "int": I, "bool": B, "str": S, "seq": SeqV, "set": SetMap, "map": KwMap, "hist": Hist, "event": Event, "ref": I,
         "harr": so.HistArr, "darr": so.DictArr, "farr": z3.ArraySort(I, Val)}

BUILTIN_KIND_TAGS = ("list", "set", "frozenset", "anyset", "ftuple", "dict", "str", "bytes", "tuple", "int", "bool", "none", "seq", "iter")


class SplitV(Value):
    def __init__(self, s, sep):
        self.s, self.sep = s, sep


def _mentions_term(term, var):
    from .interp import _mentions
    return _mentions(term, var)


TRANSPARENT_DECORATORS = ("staticmethod", "classmethod", "property", "functools.wraps", "wraps", "defer.inlineCallbacks", "inlineCallbacks",
                          "not_reentrant")


def opaque_decorators(fnode):
    """decorators whose effect on the function the engine does not model (e.g. functools.lru_cache, which shares the returned object
    between calls): a function carrying one is never executed as if it were undecorated"""
    out = []
    for d in getattr(fnode, "decorator_list", []):
        t = ast.unparse(d.func if isinstance(d, ast.Call) else d)
        if t in TRANSPARENT_DECORATORS or t.endswith(".setter") or t.endswith(".getter"):
            continue
        out.append(ast.unparse(d))
    return out


def is_inline_callbacks(fnode):
    return any(ast.unparse(d).endswith("inlineCallbacks") for d in getattr(fnode, "decorator_list", []))


class ItemsV(Value):
    """dict.items() / .keys() / .values() view, possibly sorted"""
    def __init__(self, dictval, what, sorted_=False):
        self.dictval, self.what, self.sorted = dictval, what, sorted_


class Calls(Interp):

    # ------------------------------------------------------------------ attrs
    def class_of_tag(self, ty):
        kind, arg = parse_tag(ty)
        if kind is None or kind in BUILTIN_KIND_TAGS or kind in ("any", "val", "opt", "class", "exc"):
            return None
        if kind in self.reg.shapes:
            return None
        return self.repo.find_class(kind)

    def get_attr(self, obj, attr, node=None, default=None):
        if isinstance(obj, SV):
            kind, arg = parse_tag(obj.ty)
            if kind == "opt":
                if not self.spec_mode and default is None:
                    if not self.branch(obj.term != Val.none, "not None L%d" % getattr(node, "lineno", 0)):
                        self.raise_builtin("AttributeError", node)
                return self.get_attr(SV(obj.term, arg), attr, node, default)
            if kind in ("list", "set", "frozenset", "anyset", "dict", "str", "bytes", "tuple", "ftuple", "seq", "iter"):
                return BoundV(obj, ("builtin", kind), attr)
            ci = self.class_of_tag(obj.ty)
            if ci is not None:
                return self.instance_attr(obj, ci, attr, node, default)
            if kind in self.reg.shapes:
                return self.shape_attr(obj, kind, attr, node, default)
            if kind == "class" and attr in ("__name__", "__qualname__", "__module__"):
                return SV(Val.strv(so.fmt(z3.StringVal("class." + attr), z3.Unit(obj.term))), "str")
            if kind == "exc" or kind in EXC_BASES:
                if attr == "with_traceback":
                    return BoundV(obj, ("builtin", "exc"), attr)
                if attr == "args":
                    return SV(self.get_field(self.refof(obj), "args"), "tuple")
                if attr == "__class__":
                    return SV(Val.cls(so.typeof(self.refof(obj))), "class")
                return SV(self.get_field(self.refof(obj), attr), None)
            self.unsupported(node, "attribute %s of value with unknown type %r" % (attr, obj.ty))
        if isinstance(obj, ClassV):
            return self.class_attr(obj, attr, node)
        if isinstance(obj, ModuleV):
            return self.module_attr(obj, attr, node)
        if isinstance(obj, SuperV):
            k, m = self.repo.find_method(self.dyn_class(obj.recv, obj.cls), attr, after=obj.cls)
            if m is None:
                lib = self.lib_contract(k, attr)
                if lib is not None:
                    return BoundV(obj.recv, lib, attr)
                if attr == "__init__" and (k is None or (isinstance(k, str) and (k.split(".")[-1] in EXC_BASES or k in ("object",)))):
                    return BuiltinV("noop")       # BaseException.__init__ / object.__init__: `args` is set at allocation
                self.unsupported(node, "super().%s not found (base %r)" % (attr, k))
            if isinstance(m, tuple):
                self.unsupported(node, "super() property")
            return BoundV(obj.recv, FuncV(m, k.module, k), attr)
        if isinstance(obj, ExtV):
            return ExtV(obj.dotted + "." + attr)
        if isinstance(obj, FuncV) and attr == "__name__":
            return SV(so.strv(obj.name), "str")
        if isinstance(obj, BoundV) and attr == "__name__":
            return SV(so.strv(obj.name), "str")
        if isinstance(obj, StaticDictV):
            return BoundV(obj, ("builtin", "staticdict"), attr)
        if isinstance(obj, TupV) and attr in ("index", "count"):
            self.unsupported(node, "tuple method")
        self.unsupported(node, "attribute %s of %r" % (attr, obj))

    def dyn_class(self, recv, fallback):
        if isinstance(recv, SV):
            ci = self.class_of_tag(recv.ty)
            if ci is not None:
                return ci
        return fallback

    def lib_contract(self, base, attr):
        if not isinstance(base, str):
            return None
        for nm in (base, base.split(".")[-1]):
            c = self.reg.contracts.get("lib:%s.%s" % (nm, attr))
            if c is not None:
                return c
        return None

    def instance_attr(self, obj, ci, attr, node, default=None):
        ref = self.refof(obj)
        if attr == "__class__":
            return ClassV(ci)
        mattr = self.mangle(attr)
        k, m = self.repo.find_method(ci, mattr)
        # a class-level data attribute earlier in the MRO shadows a method later in it
        for c in ci.mro:
            if c is k:
                break
            if isinstance(c, ClassInfo) and mattr in c.assigns and mattr not in c.methods and mattr not in c.properties \
                    and mattr not in self.instance_fields(ci):
                self.check_not_overridden(c, mattr, node)
                v = self.class_data(c, mattr, node)
                if isinstance(v, FuncV) and isinstance(v.node, ast.Lambda):
                    return BoundV(obj, v, mattr)     # a plain function in a class body is a method
                return v
        if m is not None and isinstance(m, tuple) and self.spec_mode:
            m = None      # in specifications `obj.name` is the raw field, never a property getter (specs are pure)
            k = None
        if m is not None:
            if isinstance(m, tuple):
                getter = m[1][0]
                if getter is None:
                    self.unsupported(node, "write-only property")
                return self.call_value(BoundV(obj, FuncV(getter, k.module, k, None, mattr), mattr), [], {}, node)
            decs = k.decorators.get(mattr, [])
            if "staticmethod" in decs:
                return FuncV(m, k.module, k)
            if "classmethod" in decs:
                return BoundV(ClassV(ci), FuncV(m, k.module, k), mattr)
            return BoundV(obj, FuncV(m, k.module, k), mattr)
        # class-level data attribute?
        for c in ci.mro:
            if isinstance(c, ClassInfo) and mattr in c.assigns and mattr not in self.instance_fields(ci):
                self.check_not_overridden(c, mattr, node)
                return self.class_data(c, mattr, node)
        tag = self.reg.field_tag([c.name for c in ci.mro if isinstance(c, ClassInfo)], mattr)
        if self.current_contract is not None and mattr in self.current_contract.field_tags:
            tag = self.current_contract.field_tags[mattr]
        if tag is None and isinstance(k, str):
            lib = self.lib_contract(k, mattr)
            if lib is not None:
                return BoundV(obj, lib, mattr)
        if tag is None:
            # dynamic fallback
            gk, gm = self.repo.find_method(ci, "__getattr__")
            if gm is not None and not isinstance(gm, tuple):
                return self.call_value(BoundV(obj, FuncV(gm, gk.module, gk), "__getattr__"), [SV(so.strv(attr), "str")], {}, node)
        return self.read_field(ref, mattr, tag, node, default)

    def check_not_overridden(self, c, attr, node):
        """a class-level data attribute read through an instance is the class constant only if no code assigns it on instances;
        otherwise it has to be declared as an instance field (fields_of) so that it is read from the heap"""
        if self.spec_mode:
            return
        sites = self.repo.attr_assign_sites().get(attr)
        if sites:
            self.unsupported(node, "class attribute %s.%s is also assigned on instances (%s): declare it with fields_of" % (c.name, attr, sites[0]))

    def instance_fields(self, ci):
        out = set()
        for c in ci.mro:
            if isinstance(c, ClassInfo):
                out.update(self.reg.fields.get(c.name, {}))
        return out

    def read_field(self, ref, attr, tag, node, default=None):
        if tag is not None and tag.startswith("static:"):
            return self.static_field(ref, attr, tag[7:], node)
        if tag is not None and tag.startswith("const:"):
            # an attribute that is a fixed function of the object (never reassigned): const:<spec function>:<tag of the value>
            _, fn, inner = tag.split(":", 2)
            v = self.spec_call(fn, [SV(Val.ref(ref), None)], {}, node)
            if isinstance(v, PSeq):
                return SV(Val.tup(v.seq), inner)
            return SV(self.to_term(v, node), inner)
        t = self.get_field(ref, attr)
        maybe = False
        if tag is not None and tag.startswith("maybe "):
            maybe = True
            tag = tag[6:]
        if default is not None:
            d = default
            if maybe or tag is None:
                if self.spec_mode:
                    return self.ite(t != Val.absent, self.from_term(t, tag), d, node)
                if self.branch(t != Val.absent, "hasattr %s" % attr):
                    return self.from_term(t, tag)
                return d
            return self.from_term(t, tag)
        if maybe and not self.spec_mode:
            if not self.branch(t != Val.absent, "attr %s present" % attr):
                self.raise_builtin("AttributeError", node)
        return self.from_term(t, tag)

    def static_field(self, ref, attr, where, node):
        """field holding a dispatch table built once by `self.<attr> = {...}` in <Class>.<method> (and written nowhere else:
        checked by the frame scan): evaluated from that source with self bound to the object"""
        cname, mname = where.split(".")
        ci = self.repo.find_class(cname)
        fn = ci.methods[mname]
        rhs = None
        for n in ast.walk(fn):
            if isinstance(n, ast.Assign) and len(n.targets) == 1 and isinstance(n.targets[0], ast.Attribute) \
                    and n.targets[0].attr == attr and isinstance(n.targets[0].value, ast.Name) and n.targets[0].value.id == "self":
                rhs = n.value
        if rhs is None:
            self.unsupported(node, "static field %s not assigned in %s" % (attr, where))
        objtag = None
        for fr in reversed(self.st.frames):
            sv = fr.locals.get("self")
            if isinstance(sv, SV) and z3.simplify(Val.r(sv.term) == ref).eq(z3.BoolVal(True)):
                objtag = sv.ty
                break
        self.spec_envs.append({"self": SV(Val.ref(ref), objtag or cname)})
        saved = self.spec_cls
        self.spec_cls = ci
        try:
            return self.eval_const(rhs, ci.module, node)
        finally:
            self.spec_cls = saved
            self.spec_envs.pop()

    def class_data(self, c, attr, node):
        key = (c.qual, attr)
        if key not in self.global_cache:
            saved_cls = self.spec_cls
            self.spec_cls = c
            try:
                ex = c.assigns[attr]
                if isinstance(ex, ast.Call) and isinstance(ex.func, ast.Name) and ex.func.id == "object" and not ex.args:
                    # class-level sentinel `X = object()`: one pre-existing object, unlike anything the caller can hold
                    cst = z3.Const("sentinel!%s.%s" % (c.name, attr), I)
                    self.assume(z3.And(cst >= 0, cst < (self.heap_alloc0 if getattr(self, "heap_alloc0", None) is not None else self.comp("$alloc"))))
                    self.assume(so.typeof(cst) == self.cids.cid("object"))
                    v = SV(Val.ref(cst), "object")
                else:
                    v = self.eval_const(ex, c.module, node)
                extra = c.subscript_assigns.get(attr)
                if extra:
                    items = dict(v.items) if isinstance(v, StaticDictV) else {}
                    for k, vexpr in extra:
                        if isinstance(vexpr, ast.Name) and vexpr.id in c.methods:
                            items[k] = FuncV(c.methods[vexpr.id], c.module, c)
                        else:
                            items[k] = self.eval_const(vexpr, c.module, node)
                    v = StaticDictV(items)
                self.global_cache[key] = v
            finally:
                self.spec_cls = saved_cls
        return self.global_cache[key]

    def static_lookup(self, d, keyval, node, default=None, missing="KeyError"):
        """lookup in a constant-key table with a possibly symbolic key: one path per key"""
        for k, v in d.items.items():
            kv = self.const(k, node)
            if self.branch(self.equals(keyval, kv, node), "table key %r" % (k,)):
                return v
        if default is not None:
            return default
        self.raise_builtin(missing, node)

    def shape_attr(self, obj, shape, attr, node, default=None):
        c = self.reg.shape_method(shape, attr)
        if c is not None:
            if c.optional and not self.spec_mode:
                present = has_attr(self.refof(obj), z3.StringVal(attr))
                if default is not None:
                    if not self.branch(present, "has %s" % attr):
                        return default
                elif not self.branch(present, "has %s" % attr):
                    self.raise_builtin("AttributeError", node)
            if c.event == "property":
                return self.apply_contract(c, obj, [], {}, node, mname=attr)
            return BoundV(obj, c, attr)
        tag = self.reg.field_tag([shape] + self.reg.shape_bases.get(shape, []), attr)
        if tag is not None:
            return self.read_field(self.refof(obj), attr, tag, node, default)
        dyn = self.reg.shape_method(shape, "__getattr__")
        if dyn is not None and dyn.total:
            return BoundV(obj, dyn, attr)     # object implementing the whole protocol: every method exists
        if dyn is not None:
            # open object (raw target): any attribute; presence is a capability
            ref = self.refof(obj)
            present = has_attr(ref, z3.StringVal(attr))
            if default is not None:
                if self.spec_mode:
                    return self.ite(present, BoundOrField(self, obj, attr), default, node)
                if self.branch(present, "has %s" % attr):
                    return self.open_attr(obj, shape, attr)
                return default
            if not self.spec_mode and not self.branch(present, "has %s" % attr):
                self.raise_builtin("AttributeError", node)
            return self.open_attr(obj, shape, attr)
        self.unsupported(node, "attribute %s of shape %s" % (attr, shape))

    def open_attr(self, obj, shape, attr):
        """attribute of an open (capability) object: data attributes are fields, methods produce call events"""
        data = self.reg.fields.get(shape + "$data", {})
        if attr in data:
            return self.from_term(self.get_field(self.refof(obj), attr), data[attr])
        return BoundV(obj, self.reg.shape_method(shape, "__getattr__"), attr)

    def class_attr(self, cv, attr, node):
        if cv.info is None:
            if attr == "__name__":
                return SV(so.strv(cv.ext.split(".")[-1]), "str")
            if attr in ("__repr__", "__str__"):
                return BuiltinV("repr")          # BaseException.__repr__ etc.: a total text function
            if attr == "__init__" and (cv.ext.split(".")[-1] in EXC_BASES or cv.ext in ("BaseException",)):
                return BuiltinV("exc_init")      # Exception.__init__(self, *args): sets self.args
            self.unsupported(node, "attribute of external class")
        ci = cv.info
        if attr == "__name__":
            return SV(so.strv(ci.name), "str")
        k, m = self.repo.find_method(ci, attr)
        if m is not None and not isinstance(m, tuple):
            decs = k.decorators.get(attr, [])
            if "classmethod" in decs:
                return BoundV(cv, FuncV(m, k.module, k), attr)
            return FuncV(m, k.module, k)
        for c in ci.mro:
            if isinstance(c, ClassInfo) and attr in c.assigns:
                return self.class_data(c, attr, node)
        if isinstance(k, str):
            lib = self.lib_contract(k, attr)
            if lib is not None:
                return UnboundLib(lib, attr)
        self.unsupported(node, "class attribute %s.%s" % (ci.name, attr))

    def module_attr(self, mv, attr, node):
        m = self.repo.modules.get(mv.name)
        if m is not None:
            r = self.repo.lookup(m, attr)
            if r is None:
                self.unsupported(node, "module attribute")
            return self.global_value(r, attr, node)
        if mv.name == "sys" and attr == "exc_info":
            return BuiltinV("sys.exc_info")
        lv = self.reg.lib_values.get(mv.name + "." + attr)
        if lv is not None:
            return self.const(lv)          # a library constant whose value the spec fixes (e.g. signal numbers)
        return ExtV(mv.name + "." + attr)

    def set_attr(self, obj, attr, v, node):
        if isinstance(obj, SV):
            ci = self.class_of_tag(obj.ty)
            mattr = self.mangle(attr)
            if ci is not None:
                k, m = self.repo.find_method(ci, mattr)
                if isinstance(m, tuple):
                    setter = m[1][1]
                    if setter is None:
                        self.raise_builtin("AttributeError", node)
                    self.call_value(BoundV(obj, FuncV(setter, k.module, k, None, mattr + "$set"), mattr + "$set"), [v], {}, node)
                    return
            kind = parse_tag(obj.ty)[0]
            if kind in self.reg.shapes and self.reg.shape_method(kind, "__getattr__") is not None and mattr not in self.reg.fields.get(kind, {}):
                # attribute store on an open object is an observable effect
                ref = self.refof(obj)
                self.set_field(ref, mattr, self.to_term(v, node))
                return
            self.set_field(self.refof(obj, node), mattr, self.to_term(v, node))
            return
        self.unsupported(node, "attribute store on %r" % (obj,))

    # ------------------------------------------------------------------ calls
    def ev_Call(self, node):
        fn = node.func
        if isinstance(fn, ast.Name) and fn.id in ("all", "any") and len(node.args) == 1 and isinstance(node.args[0], (ast.GeneratorExp, ast.ListComp)) and self.spec_mode:
            return self.quantifier(fn.id, node.args[0], node)
        if isinstance(fn, ast.Name) and fn.id == "old" and self.spec_mode:
            return self.eval_old(node.args[0])
        if isinstance(fn, ast.Name) and fn.id == "iter0" and self.spec_mode:
            return self.eval_iter0(node.args[0])
        if isinstance(fn, ast.Name) and fn.id == "at_loop" and self.spec_mode:
            # at_loop(k, e): e in the state at the start of the current iteration of loop #k of this function
            k = node.args[0].value
            heap = self.iter_by_ord.get(k)
            if heap is None:
                raise SpecError("at_loop(%r) outside that loop" % (k,))
            cur = self.st.heap
            self.st.heap = heap
            try:
                return self.ev(node.args[1])
            finally:
                self.st.heap = cur
        if isinstance(fn, ast.Name) and fn.id == "at_entry" and self.spec_mode:
            # at_entry(k, e): e in the state in which loop #k of this function was entered
            heap = self.entry_by_ord.get(node.args[0].value)
            if heap is None:
                raise SpecError("at_entry(%r): that loop has not been entered on this path" % (node.args[0].value,))
            cur = self.st.heap
            self.st.heap = heap
            try:
                return self.ev(node.args[1])
            finally:
                self.st.heap = cur
        if isinstance(fn, ast.Name) and fn.id in ("forall", "exists") and self.spec_mode:
            return self.quant_lambda(fn.id, node)
        if isinstance(fn, ast.Name) and fn.id in ("implies", "ite") and self.spec_mode and not node.keywords \
                and len(node.args) == (2 if fn.id == "implies" else 3) and not any(isinstance(a, ast.Starred) for a in node.args):
            # the guarded operands are evaluated UNDER their guard: typing assumptions made by heap reads in them are conditional
            g = self.truthy(self.ev(node.args[0]), node)
            if fn.id == "implies":
                b = self.truthy(self.under_guard(g, node.args[1]), node)
                return BoolSV(z3.Implies(g, b))
            a1 = self.under_guard(g, node.args[1])
            a2 = self.under_guard(z3.Not(g), node.args[2])
            return self.ite(g, a1, a2, node)
        if isinstance(fn, ast.Name) and fn.id == "super" and not node.args:
            fr = self.frame
            return SuperV(fr.func.cls, fr.locals.get("self") or fr.locals.get("cls"))
        f = self.ev(fn)
        args, star = [], None
        for a in node.args:
            if isinstance(a, ast.Starred):
                sv = self.ev(a.value)
                if isinstance(sv, TupV) and star is None:
                    args.extend(sv.items)
                elif star is None:
                    star = sv
                else:
                    self.unsupported(node, "two starred arguments")
            else:
                if star is not None:
                    self.unsupported(node, "positional after *args")
                args.append(self.ev(a))
        kwargs, dstar = {}, None
        for k in node.keywords:
            if k.arg is None:
                if dstar is not None:
                    self.unsupported(node, "two ** arguments")
                dstar = self.ev(k.value)
            else:
                kwargs[k.arg] = self.ev(k.value)
        return self.call_value(f, args, kwargs, node, star, dstar)

    def call_value(self, f, args, kwargs, node=None, star=None, dstar=None):
        if isinstance(f, BoundV):
            fn = f.func
            if isinstance(fn, FuncV):
                return self.call_function(fn, [f.recv] + list(args), kwargs, node, star, dstar)
            if isinstance(fn, Contract):
                return self.apply_contract(fn, f.recv, args, kwargs, node, star, dstar, mname=f.name)
            if isinstance(fn, tuple) and fn[0] == "builtin":
                if star is not None or dstar is not None:
                    if fn[1] == "str" and f.name == "format":
                        seq = so.seq_of([f.recv.term] + [self.str_arg(a, node) for a in args])
                        if star is not None:
                            seq = z3.Concat(seq, self.as_seq(star, node))
                        return SV(Val.strv(so.fmt(z3.StringVal("format*"), seq)), "str")
                    self.unsupported(node, "star args to builtin method")
                return self.builtin_method(fn[1], f.name, f.recv, args, kwargs, node)
        if isinstance(f, FuncV):
            return self.call_function(f, list(args), kwargs, node, star, dstar)
        if isinstance(f, ClassV):
            if star is not None and isinstance(star, (PSeq, SV)):
                return self.instantiate(f, args, kwargs, node, star, dstar)
            return self.instantiate(f, args, kwargs, node, star, dstar)
        if isinstance(f, BuiltinV):
            return self.builtin_call(f.name, args, kwargs, node, star, dstar)
        if isinstance(f, SpecFn):
            return self.spec_call(f.name, args, kwargs, node)
        if isinstance(f, PartialV):
            kw = dict(f.kwargs)
            kw.update(kwargs)
            return self.call_value(f.func, f.args + list(args), kw, node, star, dstar)
        if isinstance(f, MethodCallerV):
            target = args[0]
            m = self.get_attr(target, f.name, node)
            return self.call_value(m, f.args, f.kwargs, node, f.star, f.dstar)
        if isinstance(f, UnboundLib):
            return self.apply_contract(f.contract, args[0], args[1:], kwargs, node, star, dstar, mname=f.name)
        if isinstance(f, SV):
            kind, arg = parse_tag(f.ty)
            if kind == "class":
                # instantiation of a symbolic class (e.g. test.failureException): a new object of exactly that class
                obj = self.alloc("object", "exc", type_term=Val.c(f.term))
                r = self.refof(obj)
                self.set_field(r, "args", Val.tup(so.seq_of([self.to_term(a, node) for a in args])))
                return obj
            if kind in self.reg.shapes:
                c = self.reg.shape_method(kind, "__call__")
                if c is not None:
                    return self.apply_contract(c, f, args, kwargs, node, star, dstar, mname="__call__")
            ci = self.class_of_tag(f.ty)
            if ci is not None:
                k, m = self.repo.find_method(ci, "__call__")
                if m is not None:
                    return self.call_function(FuncV(m, k.module, k), [f] + list(args), kwargs, node, star, dstar)
            self.unsupported(node, "call of value with type %r" % (f.ty,))
        if isinstance(f, ExtV) and f.dotted == "functools.partial":
            return self.bi_partial(args, kwargs, node)
        if isinstance(f, ExtV):
            c = self.reg.contracts.get("lib:" + f.dotted)
            if c is not None:
                return self.apply_contract(c, None, args, kwargs, node, star, dstar, mname=f.dotted)
            self.unsupported(node, "call of external %s without library contract" % f.dotted)
        self.unsupported(node, "call of %r" % (f,))

    # ---- inlining / contracts on repo functions ---------------------------
    def call_function(self, f, args, kwargs, node, star=None, dstar=None):
        key = self.func_key(f) if isinstance(f.node, ast.FunctionDef) else None
        c = None
        if key is not None:
            c = self.contract_for(key, f, args)
        if c is not None and not c.inline and not (self.st.frames == [] ):
            if self.verifying_key == key and len(self.st.frames) == 0:
                c = None
        if c is not None and key in self.reg.inline_fresh and args and self.is_fresh(args[0]):
            c = None       # receiver built on this path: execute the real body on it
        if c is not None and key in self.reg.inline_closure_args and any(isinstance(a, (FuncV, BoundV, PartialV, BuiltinV, ClassV)) for a in list(args) + list(kwargs.values())):
            c = None       # a local closure is passed: execute the real body (the contract speaks about abstract callbacks)
        if c is not None and not c.inline:
            recv = None
            a = list(args)
            return self.apply_contract(c, None, a, kwargs, node, star, dstar, func=f)
        return self.inline_call(f, args, kwargs, node, star, dstar, key)

    def contract_for(self, key, f, args):
        """contract registered for this function; variant contracts (key@Variant) are chosen by receiver class"""
        if f.cls is not None and args and isinstance(args[0], SV):
            ci = self.class_of_tag(args[0].ty)
            if ci is not None:
                c = self.reg.contracts.get("%s@%s" % (key, ci.name))
                if c is not None:
                    return c
        return self.reg.contracts.get(key)

    def inline_call(self, f, args, kwargs, node, star, dstar, key):
        if len(self.st.frames) > 40:
            self.unsupported(node, "inlining depth (recursion?) at %s" % key)
        if key is not None:
            self.inlined.add(key)
        if isinstance(f.node, ast.FunctionDef) and opaque_decorators(f.node):
            self.unsupported(node, "call of %s decorated with %s (decorator semantics not modelled)" % (key or f.node.name, ", ".join(opaque_decorators(f.node))))
        if isinstance(f.node, ast.FunctionDef) and is_trivial_body(f.node):
            return SV(Val.none, "none")     # `pass` bodies (abstract base methods): no effect
        locs = self.bind_args(f, args, kwargs, node, star, dstar)
        fr = Frame(f, locs)
        self.st.frames.append(fr)
        try:
            if isinstance(f.node, ast.Lambda):
                return self.ev(f.node.body)
            if self.is_generator(f.node):
                return self.run_generator(f, node)
            try:
                self.exec_block(f.node.body)
            except PyReturn as r:
                return r.value
            return SV(Val.none, "none")
        finally:
            self.st.frames.pop()

    def is_generator(self, fnode):
        if is_inline_callbacks(fnode):
            return False        # @defer.inlineCallbacks: a sequential coroutine -- `yield d` awaits d (see ev_Yield)
        for n in ast.walk(fnode):
            if isinstance(n, (ast.Yield, ast.YieldFrom)):
                return True
        return False

    def run_generator(self, f, node):
        """a generator function is run to exhaustion; its value is the sequence of yielded values"""
        self.frame.locals["_out"] = PSeq(so.EMPTY_SEQ)
        try:
            self.exec_block(f.node.body)
        except PyReturn:
            pass
        out = self.frame.locals["_out"]
        return SV(Val.tup(out.seq), "iter")

    def bind_args(self, f, args, kwargs, node, star=None, dstar=None):
        a = f.node.args
        params = [p.arg for p in a.posonlyargs + a.args]
        defaults = a.defaults
        locs = {}
        kwargs = dict(kwargs)
        if star is not None and not isinstance(star, TupV):
            items = static_seq_items(z3.simplify(self.as_seq(star, node)))
            if items is not None:
                args = list(args) + [self.from_term(t, self.elem_tag(star)) for t in items]
                star = None
        if dstar is not None:
            dm = z3.simplify(self.as_map(dstar, node))
            if dm.eq(z3.simplify(so.EMPTY_KW)):
                dstar = None
        nposdef = len(params) - len(defaults)
        pos = list(args)
        dmap = None
        if dstar is not None:
            if isinstance(dstar, PMap) or isinstance(dstar, SV):
                dmap = self.as_map(dstar, node)
            else:
                self.unsupported(node, "** of %r" % (dstar,))
        for i, p in enumerate(params):
            if i < len(pos):
                locs[p] = pos[i]
                if p in kwargs:
                    self.raise_builtin("TypeError", node)
            elif p in kwargs:
                locs[p] = kwargs.pop(p)
            else:
                if star is not None and i >= len(pos):
                    self.unsupported(node, "*args spilling into named parameter %s" % p)
                dflt = None
                if i >= nposdef:
                    dflt = defaults[i - nposdef]
                if dmap is not None:
                    t = dmap[so.strv(p)]
                    tag = self.param_tag(f, p)
                    if self.branch(t != Val.absent, "kw %s given" % p):
                        locs[p] = self.from_term(t, tag)
                        dmap = z3.Store(dmap, so.strv(p), Val.absent)
                        continue
                if dflt is None:
                    self.raise_builtin("TypeError", node)
                locs[p] = self.eval_default(dflt, f)
        extra = pos[len(params):]
        if a.vararg is not None:
            if star is not None:
                sseq = self.as_seq(star, node)
                if extra:
                    sseq = z3.Concat(so.seq_of([self.to_term(x, node) for x in extra]), sseq)
                locs[a.vararg.arg] = SV(Val.tup(sseq), "tuple")
            else:
                locs[a.vararg.arg] = TupV(extra)
        elif extra or star is not None:
            if star is not None:
                self.unsupported(node, "*args to function without varargs")
            self.raise_builtin("TypeError", node)
        for i, p in enumerate(a.kwonlyargs):
            if p.arg in kwargs:
                locs[p.arg] = kwargs.pop(p.arg)
            else:
                d = a.kw_defaults[i]
                if dmap is not None:
                    t = dmap[so.strv(p.arg)]
                    if self.branch(t != Val.absent, "kw %s given" % p.arg):
                        locs[p.arg] = self.from_term(t, None)
                        dmap = z3.Store(dmap, so.strv(p.arg), Val.absent)
                        continue
                if d is None:
                    self.raise_builtin("TypeError", node)
                locs[p.arg] = self.eval_default(d, f)
        if a.kwarg is not None:
            m = dmap if dmap is not None else so.EMPTY_KW
            for k, v in kwargs.items():
                m = z3.Store(m, so.strv(k), self.to_term(v, node))
            d = self.new_dict(m)
            if dmap is None:
                # **kwargs built from explicit keywords only: its items are statically known
                self.static_dicts[z3.simplify(d.term).get_id()] = (dict(kwargs), d.term)
            locs[a.kwarg.arg] = d
        elif kwargs:
            self.raise_builtin("TypeError", node)
        elif dmap is not None:
            # every remaining key must be absent, else TypeError
            pass
        return locs

    def param_tag(self, f, p):
        key = self.func_key(f) if isinstance(f.node, ast.FunctionDef) else None
        c = self.reg.contracts.get(key) if key else None
        if c is not None:
            return c.params.get(p)
        return None

    def eval_default(self, dnode, f):
        saved = self.cur_module
        self.cur_module = f.module
        frames = self.st.frames
        self.st.frames = []
        try:
            if isinstance(dnode, (ast.List, ast.Dict, ast.Set)):
                self.unsupported(dnode, "mutable default")
            return self.ev(dnode)
        finally:
            self.st.frames = frames
            self.cur_module = saved

    def instantiate(self, cv, args, kwargs, node, star=None, dstar=None):
        if cv.info is None:
            name = cv.ext.split(".")[-1]
            if name in EXC_BASES:
                return self.make_exc(cv, args, node)
            c = self.reg.contracts.get("lib:" + cv.ext) or self.reg.contracts.get("lib:" + name)
            if c is not None:
                return self.apply_contract(c, None, args, kwargs, node, star, dstar, mname=name)
            self.unsupported(node, "instantiation of external class %s" % cv.ext)
        ci = cv.info
        key = self.class_key(ci)
        obj = self.alloc(key, ci.name if self.repo.find_class(ci.name) is ci else ci.qual)
        is_exc = "BaseException" in self.cids.bases_closure(key)
        if is_exc:
            self.set_field(self.refof(obj), "args", Val.tup(so.seq_of([self.to_term(a, node) for a in args])) if star is None else Val.tup(self.as_seq(star, node)))
        k, m = self.repo.find_method(ci, "__init__")
        if m is not None and not isinstance(m, tuple):
            self.call_function(FuncV(m, k.module, k), [obj] + list(args), kwargs, node, star, dstar)
        elif isinstance(k, str):
            lib = self.lib_contract(k, "__init__")
            if lib is not None:
                self.apply_contract(lib, obj, args, kwargs, node, star, dstar, mname="__init__")
            elif not is_exc and (args or kwargs):
                self.unsupported(node, "external __init__ of %s" % k)
        return obj

    # ---- contract application ----------------------------------------------
    def contract_env(self, c, recv, args, kwargs, node, star, dstar, func=None):
        """bind the call's arguments to the contract's parameter names"""
        env = {}
        if func is not None:
            locs = self.bind_args(func, args, kwargs, node, star, dstar)
            env.update(locs)
            return env
        if recv is not None:
            env["self"] = recv
        if c.signature is not None:
            fake = ast.parse("def _f(%s): pass" % c.signature).body[0]
            fv = FuncV(fake, self.cur_module or (self.frame.func.module if self.st.frames else None), None, None, "_sig")
            env.update(self.bind_args(fv, args, kwargs, node, star, dstar))
        else:
            for i, a in enumerate(args):
                env["_a%d" % i] = a
        return env

    def call_payload(self, args, kwargs, node, star, dstar):
        seq = so.seq_of([self.to_term(a, node) for a in args])
        if star is not None:
            s2 = self.as_seq(star, node)
            seq = z3.Concat(seq, s2) if args else s2
        kw = self.as_map(dstar, node) if dstar is not None else so.EMPTY_KW
        for k, v in kwargs.items():
            kw = z3.Store(kw, so.strv(k), self.to_term(v, node))
        return seq, kw

    _MODELS = {}

    def run_model(self, c, recv, args, kwargs, node, star, dstar):
        """execute the assumed operational model of a library method/function (trusted text in the spec) as code"""
        fn = self._MODELS.get(c.target)
        if fn is None:
            import textwrap
            fn = ast.parse(textwrap.dedent(c.model)).body[0]
            self._MODELS[c.target] = fn
        f = FuncV(fn, self.cur_module if self.cur_module is not None else (self.frame.func.module if self.st.frames else None),
                  None, None, "model:" + c.target)
        saved = self.spec_mode
        self.spec_mode = 0
        try:
            return self.inline_call(f, ([recv] if recv is not None else []) + list(args), kwargs, node, star, dstar, None)
        finally:
            self.spec_mode = saved

    def apply_contract(self, c, recv, args, kwargs, node, star=None, dstar=None, mname=None, func=None):
        self.used_contracts.add(c.target)
        if c.model is not None:
            return self.run_model(c, recv, args, kwargs, node, star, dstar)
        env = self.contract_env(c, recv, args, kwargs, node, star, dstar, func)
        for pn, ptag in c.params.items():
            pv = env.get(pn)
            if isinstance(pv, SV) and pv.ty is None and ptag not in (None, "any"):
                env[pn] = SV(pv.term, ptag)       # arguments are typed by the callee's contract (trusted typing)
        for cn_, cv_ in self.context_vals.items():
            env.setdefault(cn_, cv_)
        if func is not None and "self" in env and recv is None:
            recv = env["self"]
        if c.context and not c.assumed or (c.context and func is not None):
            # the callee's own context names are evaluated in the state before the call
            saved_cls_ = self.spec_cls
            if func is not None:
                self.spec_cls = func.cls
            try:
                for cn_, cex_ in c.context.items():
                    env[cn_] = self.spec_value(parse_expr(cex_), env)
            finally:
                self.spec_cls = saved_cls_
        if c.event and c.event != "property":
            if c.signature is not None and func is None and star is None and dstar is None:
                # canonical payload: every parameter of the declared signature, positionally, defaults filled in
                fake = ast.parse("def _f(%s): pass" % c.signature).body[0]
                names = [a.arg for a in fake.args.args]
                seq, kw = so.seq_of([self.to_term(env[n], node) for n in names]), so.EMPTY_KW
            else:
                seq, kw = self.call_payload(args, kwargs, node, star, dstar)
            env["_args"] = PSeq(seq)
            env["_kw"] = PMap(kw)
            env["_name"] = SV(so.strv(mname), "str")
        saved_cls = self.spec_cls
        if func is not None:
            self.spec_cls = func.cls
        try:
            for k, r in enumerate(c.requires):
                b = self.goal_bool(parse_expr(r), env)
                self.oblige("pre", b, node, "%s.%d" % (c.target.split(":")[-1], k))
                self.assume(b)
            old_heap = dict(self.st.heap)
            if c.event and c.event not in ("property", "normal"):
                self.emit(self.refof(recv), mname, seq, kw)
            # havoc
            self.spec_envs.append(env)
            self.spec_mode += 1
            try:
                for loc in c.modifies:
                    self.havoc_loc(loc, old_heap)
            finally:
                self.spec_mode -= 1
                self.spec_envs.pop()
            if not c.noalloc:
                a2 = so.fresh("alloc", I)
                self.assume(a2 >= self.comp("$alloc"))
                self.st.heap["$alloc"] = a2
                if self.discovery:
                    self.written.setdefault("$alloc", []).append(None)
            exceptional = False
            if c.exsures is not None:
                exceptional = self.choose(2, "raises %s" % c.target.split(":")[-1]) == 1
            if c.event == "normal" and not exceptional:
                self.emit(self.refof(recv), mname, seq, kw)     # the call takes effect only when it returns
            self.old_stack.append(old_heap)
            try:
                if not exceptional:
                    if c.value is not None:
                        rv = self.spec_value(parse_expr(c.value), env)
                        res = SV(self.to_term(rv, node), c.returns) if not isinstance(rv, SV) or rv.ty is None else rv
                    else:
                        res = self.fresh_result(c.returns)
                    env2 = dict(env)
                    env2["ret"] = res
                    if "result" not in env or func is None and c.signature is None:
                        env2["result"] = res
                    elif "result" not in self._param_names(c, func):
                        env2["result"] = res
                    for e in c.ensures:
                        self.assume(self.spec_bool(parse_expr(e), env2))
                    return res
                exc = SV(Val.ref(so.fresh("exc", I)), "exc")
                self.mentioned.add("BaseException")
                self.assume(so.subclass(so.typeof(self.refof(exc)), self.cids.cid("BaseException")))
                env2 = dict(env)
                env2["exc"] = exc
                for e in c.exsures:
                    self.assume(self.spec_bool(parse_expr(e), env2))
                raise PyRaise(exc, note="raised by %s" % c.target)
            finally:
                self.old_stack.pop()
        finally:
            self.spec_cls = saved_cls

    def _param_names(self, c, func):
        if func is not None:
            a = func.node.args
            return {p.arg for p in a.posonlyargs + a.args + a.kwonlyargs}
        if c.signature:
            fake = ast.parse("def _f(%s): pass" % c.signature).body[0]
            return {p.arg for p in fake.args.args}
        return set()

    def fresh_result(self, tag):
        kind, arg = parse_tag(tag)
        if kind == "none":
            return SV(Val.none, "none")
        if kind == "bool":
            return SV(Val.boolv(so.fresh("res", B)), "bool")
        if kind == "int":
            return SV(Val.intv(so.fresh("res", I)), "int")
        if kind == "str":
            return SV(Val.strv(so.fresh("res", S)), "str")
        if kind == "bytes":
            return SV(Val.bytesv(so.fresh("res", S)), "bytes")
        if kind in ("seq", "iter", "tuple", "ftuple"):
            return SV(Val.tup(so.fresh("res", SeqV)), tag)
        if kind in ("list", "set", "frozenset", "anyset", "dict") or (kind and kind[0].isupper()):
            v = SV(Val.ref(so.fresh("res", I)), tag)
        else:
            v = SV(so.fresh("res", Val), tag)
        if tag is not None:
            self.assume_typed(v.term, tag)
        return v

    def havoc_loc(self, loc, old_heap):
        """havoc one location of a modifies clause (expression evaluated in the pre-state heap)"""
        loc = loc.strip()
        if loc in ("$hist", "$list", "$set", "$dict", "$G", "$attrs"):
            self.set_comp(loc, so.fresh("hv_" + loc, self.comp(loc).sort()))
            return
        if loc.startswith("f:"):
            self.set_comp(loc, so.fresh("hv_" + loc, so.FieldArr))
            return
        e = parse_expr(loc)
        cur = self.st.heap
        if isinstance(e, ast.Call) and isinstance(e.func, ast.Name) and e.func.id in ("list", "set", "dict", "hist", "listof", "setof", "dictof"):
            self.st.heap = old_heap
            try:
                target = self.ev(e.args[0])
            finally:
                self.st.heap = cur
            comp = {"list": "$list", "listof": "$list", "set": "$set", "setof": "$set", "dict": "$dict", "dictof": "$dict", "hist": "$hist"}[e.func.id]
            r = self.refof(target)
            arr = self.comp(comp)
            self.set_comp(comp, z3.Store(arr, r, so.fresh("hv", arr.sort().range())), r)
            if comp == "$hist":
                self.set_comp("$G", so.fresh("hv_G", GHist))
            return
        if isinstance(e, ast.Attribute):
            self.st.heap = old_heap
            try:
                target = self.ev(e.value)
            finally:
                self.st.heap = cur
            r = self.refof(target)
            attr = self.mangle(e.attr)
            self.set_field(r, attr, so.fresh("hv_" + attr, Val))
            return
        raise SpecError("bad modifies location %r" % loc)

    # ---------------------------------------------------------------- builtins
    def builtin_call(self, name, args, kwargs, node, star=None, dstar=None):
        m = getattr(self, "bi_" + name.replace(".", "_"), None)
        if m is None and ("lib:" + name) in self.reg.contracts:
            return self.apply_contract(self.reg.contracts["lib:" + name], None, args, kwargs, node, star, dstar, mname=name)
        if m is None:
            self.unsupported(node, "builtin %s" % name)
        if star is not None or dstar is not None:
            if name == "dict" and dstar is not None and not args:
                mp = self.as_map(dstar, node)
                for k, v in kwargs.items():
                    mp = z3.Store(mp, so.strv(k), self.to_term(v, node))
                return PMap(mp) if self.spec_mode else self.new_dict(mp)
            if name == "methodcaller":
                mc = MethodCallerV(self.const_str(args[0], node), args[1:], kwargs)
                mc.star, mc.dstar = star, dstar
                return mc
            self.unsupported(node, "star args to builtin %s" % name)
        return m(args, kwargs, node)

    def const_str(self, v, node):
        if isinstance(v, SV):
            t = z3.simplify(v.term)
            if t.decl().name() == "strv" and z3.is_string_value(t.arg(0)):
                return t.arg(0).as_string()
        self.unsupported(node, "non-constant string")

    def bi_methodcaller(self, args, kwargs, node):
        mc = MethodCallerV(self.const_str(args[0], node), args[1:], kwargs)
        mc.star = mc.dstar = None
        return mc

    def bi_sys_exc_info(self, args, kwargs, node):
        e = self.frame.cur_exc
        if e is None:
            self.unsupported(node, "sys.exc_info() outside handler")
        return TupV([SV(Val.cls(so.typeof(self.refof(e))), "class"), e, SV(Val.opq(so.fresh("tb", I)), "any")])

    def bi_len(self, args, kwargs, node):
        v = args[0]
        k = self.kind_of(v)
        if k == "TupV":
            return SV(so.intv(len(v.items)), "int")
        if k in ("list", "tuple", "PSeq", "seq", "iter"):
            return SV(Val.intv(z3.Length(self.as_seq(v, node))), "int")
        if k in ("str", "bytes"):
            return SV(Val.intv(z3.Length(self.as_str(v))), "int")
        if k in ("set", "frozenset", "anyset", "PSet"):
            return SV(Val.intv(set_card(self.as_setmap(v, node))), "int")
        if k in ("dict", "PMap"):
            return SV(Val.intv(z3.Length(so.dict_order(self.as_map(v, node)))), "int")
        if isinstance(v, PHist):
            return SV(Val.intv(hist_len(v.h)), "int")
        self.unsupported(node, "len of %r" % (v,))

    def bi_isinstance(self, args, kwargs, node):
        return BoolSV(self.isinstance_term(args[0], args[1], node))

    def bi_callable(self, args, kwargs, node):
        v = args[0]
        if isinstance(v, (FuncV, BoundV, ClassV, BuiltinV)):
            return BoolSV(True)
        self.unsupported(node, "callable()")

    def dyn_attr_name(self, v):
        """None when the attribute name is a literal, else its string term"""
        if isinstance(v, SV):
            t = z3.simplify(v.term)
            if t.decl().name() == "strv" and z3.is_string_value(t.arg(0)):
                return None
            return v.term
        return None

    def bi_getattr(self, args, kwargs, node):
        if isinstance(args[0], ModuleV) and isinstance(args[1], SV):
            nm = z3.simplify(Val.s(args[1].term))
            if z3.is_string_value(nm):
                # getattr(module, "NAME", default) with a name known on this path (library constants fixed by the spec exist)
                return self.module_attr(args[0], nm.as_string(), node)
        dyn = self.dyn_attr_name(args[1])
        if dyn is not None and isinstance(args[0], SV) and parse_tag(args[0].ty)[0] in self.reg.shapes \
                and self.reg.shape_method(parse_tag(args[0].ty)[0], "__getattr__") is None:
            # getattr(obj, <computed name>) on an abstract object with a closed method set: one path per method
            shape = parse_tag(args[0].ty)[0]
            names = sorted(self.reg.shapes.get(shape, {}))
            for nm in names:
                if self.branch(Val.s(dyn) == z3.StringVal(nm), "getattr is %s" % nm):
                    return self.get_attr(args[0], nm, node)
            if len(args) > 2:
                return args[2]
            self.raise_builtin("AttributeError", node)
        if dyn is not None:
            # getattr(obj, <computed name>): the object's dynamic attribute table
            m = self.comp("$attrs")[self.refof(args[0], node)]
            t = m[dyn]
            if len(args) > 2:
                if self.spec_mode:
                    return self.ite(t != Val.absent, SV(t, None), args[2], node)
                if self.branch(t != Val.absent, "dyn attr present L%d" % getattr(node, "lineno", 0)):
                    return SV(t, None)
                return args[2]
            if not self.spec_mode and not self.branch(t != Val.absent, "dyn attr present L%d" % getattr(node, "lineno", 0)):
                self.raise_builtin("AttributeError", node)
            return SV(t, None)
        name = self.const_str(args[1], node)
        return self.get_attr(args[0], name, node, default=args[2] if len(args) > 2 else None)

    def bi_delattr(self, args, kwargs, node):
        dyn = self.dyn_attr_name(args[1])
        if dyn is None:
            self.unsupported(node, "delattr with literal name")
        r = self.refof(args[0], node)
        A = self.comp("$attrs")
        if not self.branch(A[r][dyn] != Val.absent, "delattr present L%d" % getattr(node, "lineno", 0)):
            self.raise_builtin("AttributeError", node)
        self.set_comp("$attrs", z3.Store(A, r, z3.Store(A[r], dyn, Val.absent)), r)
        return SV(Val.none, "none")

    def bi_hasattr(self, args, kwargs, node):
        name = self.const_str(args[1], node)
        obj = args[0]
        if isinstance(obj, SV):
            kind, _ = parse_tag(obj.ty)
            if kind in self.reg.shapes and self.reg.shape_method(kind, "__getattr__") is not None and self.reg.shape_method(kind, name) is None:
                return BoolSV(has_attr(self.refof(obj), z3.StringVal(name)))
            ci = self.class_of_tag(obj.ty)
            if ci is not None:
                k, m = self.repo.find_method(ci, name)
                if m is not None:
                    return BoolSV(True)
                tag = self.reg.field_tag([c.name for c in ci.mro if isinstance(c, ClassInfo)], name)
                if tag is not None and not tag.startswith("maybe "):
                    return BoolSV(True)
                return BoolSV(self.get_field(self.refof(obj), name) != Val.absent)
            if kind in self.reg.shapes:
                sm = self.reg.shape_method(kind, name)
                if sm is not None and not sm.optional:
                    return BoolSV(True)
                return BoolSV(has_attr(self.refof(obj), z3.StringVal(name)))
        self.unsupported(node, "hasattr on %r" % (obj,))

    def bi_setattr(self, args, kwargs, node):
        dyn = self.dyn_attr_name(args[1])
        if dyn is not None:
            r = self.refof(args[0], node)
            A = self.comp("$attrs")
            self.set_comp("$attrs", z3.Store(A, r, z3.Store(A[r], dyn, self.to_term(args[2], node))), r)
            return SV(Val.none, "none")
        name = self.const_str(args[1], node)
        self.set_attr(args[0], name, args[2], node)
        return SV(Val.none, "none")

    def bi_bool(self, args, kwargs, node):
        return BoolSV(self.truthy(args[0], node)) if args else BoolSV(False)

    def bi_object(self, args, kwargs, node):
        return self.alloc("object", "object")

    def bi_id(self, args, kwargs, node):
        return SV(Val.intv(self.refof(args[0], node)), "int")

    def bi_type(self, args, kwargs, node):
        v = args[0]
        if isinstance(v, SV):
            ci = self.class_of_tag(v.ty)
            if ci is not None:
                return ClassV(ci)
            return SV(Val.cls(so.typeof(self.refof(v))), "class")
        self.unsupported(node, "type()")

    def bi_set(self, args, kwargs, node, kind="set"):
        if not args:
            m = so.EMPTY_SET
        else:
            m = self.setmap_from_iterable(args[0], node)
        if self.spec_mode:
            return PSet(m)
        return self.new_set(m, kind)

    def bi_frozenset(self, args, kwargs, node):
        return self.bi_set(args, kwargs, node, "frozenset")

    def setmap_from_iterable(self, v, node):
        if isinstance(v, ItemsV) and v.what == "keys":
            v = v.dictval                      # set(d.keys()) == set(d)
        k = self.kind_of(v)
        if k in ("set", "frozenset", "anyset", "PSet", "TupV"):
            return self.as_setmap(v, node)
        if k in ("list", "tuple", "PSeq", "seq", "iter"):
            return seq_to_set(self.as_seq(v, node))
        if k == "opt":
            return self.as_setmap(v, node)
        if k in ("dict", "PMap"):
            # set(d): the keys of d
            m = self.as_map(v, node)
            x = z3.Const("sk!%d" % so._fresh[0], Val)
            so._fresh[0] += 1
            out = so.fresh("keyset", SetMap)
            self.assume(z3.ForAll([x], out[x] == (m[x] != Val.absent), patterns=[out[x]]))
            return out
        self.unsupported(node, "set() of %r" % (v,))

    def bi_list(self, args, kwargs, node):
        if not args:
            return PSeq(so.EMPTY_SEQ) if self.spec_mode else self.new_list(so.EMPTY_SEQ)
        v = args[0]
        if isinstance(v, (ItemsV,)):
            self.unsupported(node, "list(items view)")
        k = self.kind_of(v)
        if k in ("set", "frozenset", "anyset"):
            seq, et = self.iter_seq(v, node)
        else:
            seq, et = self.as_seq(v, node), self.elem_tag(v)
        if self.spec_mode:
            return PSeq(seq, et)
        return self.new_list(seq, et)

    def bi_tuple(self, args, kwargs, node):
        if not args:
            return TupV([])
        v = args[0]
        if isinstance(v, TupV):
            return v
        return SV(Val.tup(self.as_seq(v, node)), "tuple[%s]" % self.elem_tag(v) if self.elem_tag(v) else "tuple")

    def bi_dict(self, args, kwargs, node):
        m = so.EMPTY_KW
        if args:
            m = self.as_map(args[0], node)
        for k, v in kwargs.items():
            m = z3.Store(m, so.strv(k), self.to_term(v, node))
        if self.spec_mode:
            return PMap(m)
        d = self.new_dict(m)
        return d

    def bi_str(self, args, kwargs, node):
        if not args:
            return SV(so.strv(""), "str")
        v = args[0]
        if isinstance(v, SV) and parse_tag(v.ty)[0] == "str":
            return v
        return SV(Val.strv(so.opaque_str(self.str_arg(v, node))), "str")

    def bi_repr(self, args, kwargs, node):
        v = args[0]
        return SV(Val.strv(so.fmt(z3.StringVal("repr"), z3.Unit(self.str_arg(v, node)))), "str")

    def bi_format(self, args, kwargs, node):
        return SV(Val.strv(so.fmt(z3.StringVal("format"), so.seq_of([self.str_arg(a, node) for a in args]))), "str")

    def bi_int(self, args, kwargs, node):
        v = args[0]
        if self.kind_of(v) in ("int", "bool"):
            return SV(Val.intv(self.as_int(v)), "int")
        self.unsupported(node, "int() conversion")

    def bi_range(self, args, kwargs, node):
        if len(args) == 1:
            return RangeV(z3.IntVal(0), self.as_int(args[0], node))
        if len(args) == 2:
            return RangeV(self.as_int(args[0], node), self.as_int(args[1], node))
        self.unsupported(node, "range with step")

    def bi_enumerate(self, args, kwargs, node):
        from .interp import EnumV
        v = args[0]
        if isinstance(v, LazyMapV):
            v = v.force(self, node)
        seq, et = self.iter_seq(v, node)
        if isinstance(seq, ZipV):
            self.unsupported(node, "enumerate of zip")
        return EnumV(seq, et)

    def bi_zip(self, args, kwargs, node):
        parts = []
        for a in args:
            parts.append((self.as_seq(a, node), self.elem_tag(a)))
        return ZipV(parts)

    def bi_map(self, args, kwargs, node):
        f = args[0]
        if len(args) != 2:
            self.unsupported(node, "map with several sequences")
        xs = args[1]
        if isinstance(xs, TupV):
            return TupV([self.call_value(f, [x], {}, node) for x in xs.items])
        return LazyMapV(f, xs)

    def bi_reversed(self, args, kwargs, node):
        v = args[0]
        if isinstance(v, TupV):
            return TupV(list(reversed(v.items)))
        from .interp import RevV
        return RevV(self.as_seq(v, node), self.elem_tag(v))

    def bi_sorted(self, args, kwargs, node):
        v = args[0]
        if isinstance(v, ItemsV):
            return ItemsV(v.dictval, v.what, True)
        if isinstance(v, LazyMapV):
            v = v.force(self, node)
        # some permutation of the elements: only the length is known here
        seq = self.as_seq(v, node)
        out = so.fresh("sorted", SeqV)
        self.assume(z3.Length(out) == z3.Length(seq))
        if self.spec_mode:
            return PSeq(out, self.elem_tag(v))
        return self.new_list(out, self.elem_tag(v))

    def bi_any(self, args, kwargs, node):
        return self._anyall(args[0], node, True)

    def bi_all(self, args, kwargs, node):
        return self._anyall(args[0], node, False)

    def _anyall(self, v, node, is_any):
        if isinstance(v, TupV):
            bs = [self.truthy(x, node) for x in v.items]
            if not bs:
                return BoolSV(not is_any and True or False) if is_any else BoolSV(True)
            return BoolSV(z3.Or(bs) if is_any else z3.And(bs))
        defn = getattr(v, "defn", None)
        if defn is not None:
            n, j, bterm = defn
            body = self.truthy(SV(bterm, None), node)
            rng = z3.And(0 <= j, j < n)
            return BoolSV(z3.Exists([j], z3.And(rng, body)) if is_any else z3.ForAll([j], z3.Implies(rng, body)))
        seq = self.as_seq(v, node)
        et = self.elem_tag(v)
        j = z3.Int("aj")
        body = self.truthy(self.from_term(seq[j], et), node)
        rng = z3.And(0 <= j, j < z3.Length(seq))
        return BoolSV(z3.Exists([j], z3.And(rng, body)) if is_any else z3.ForAll([j], z3.Implies(rng, body)))

    def bi_min(self, args, kwargs, node):
        if len(args) == 2:
            a, b = self.as_int(args[0], node), self.as_int(args[1], node)
            return SV(Val.intv(z3.If(a <= b, a, b)), "int")
        self.unsupported(node, "min()")

    def bi_max(self, args, kwargs, node):
        if len(args) == 2:
            a, b = self.as_int(args[0], node), self.as_int(args[1], node)
            return SV(Val.intv(z3.If(a >= b, a, b)), "int")
        self.unsupported(node, "max()")

    def bi_sum(self, args, kwargs, node):
        v = args[0]
        if isinstance(v, TupV):
            tot = z3.IntVal(0)
            for x in v.items:
                tot = tot + self.as_int(x, node)
            return SV(Val.intv(tot), "int")
        self.unsupported(node, "sum()")

    def bi_noop(self, args, kwargs, node):
        return SV(Val.none, "none")

    def bi_print(self, args, kwargs, node):
        return SV(Val.none, "none")

    def bi_exc_init(self, args, kwargs, node):
        self.set_field(self.refof(args[0], node), "args", Val.tup(so.seq_of([self.to_term(a, node) for a in args[1:]])))
        return SV(Val.none, "none")

    def bi_partial(self, args, kwargs, node):
        return PartialV(args[0], args[1:], kwargs)

    def bi_ghost_new(self, args, kwargs, node):
        """ghost_new('Shape', field=value, ...): a new abstract object (used by library models)"""
        shape = self.const_str(args[0], node)
        obj = self.alloc("object", shape)
        from .verify import shape_kind
        self.assume(shape_kind(self.refof(obj)) == self.shape_id(shape))
        for k, v in kwargs.items():
            self.set_field(self.refof(obj), k, self.to_term(v, node))
        return obj

    def bi_is_shape(self, args, kwargs, node):
        v = args[0]
        shape = self.const_str(args[1], node)
        if not isinstance(v, SV):
            return BoolSV(False)
        if parse_tag(v.ty)[0] == shape:
            return BoolSV(True)
        from .verify import shape_kind
        return BoolSV(z3.And(Val.is_ref(v.term), shape_kind(Val.r(v.term)) == self.shape_id(shape)))

    def bi_iter(self, args, kwargs, node):
        c = self.reg.contracts.get("lib:iter")
        if c is not None:
            return self.apply_contract(c, None, args, kwargs, node, None, None, mname="iter")
        self.unsupported(node, "iter()")

    def bi_property(self, args, kwargs, node):
        return SV(Val.opq(z3.IntVal(-2)), "any")

    # ---- builtin methods ---------------------------------------------------
    def builtin_method(self, kind, name, recv, args, kwargs, node):
        m = getattr(self, "bm_%s_%s" % (kind if kind not in ("frozenset", "anyset") else "set", name), None)
        if m is None and kind in ("str", "bytes"):
            # a str/bytes method without a model: an uninterpreted total function of receiver and arguments
            # (immutable receiver, no side effect); nothing about its value can be proved
            seq = so.seq_of([recv.term] + [self.to_term(a, node) for a in args])
            return SV(opaque_method(z3.StringVal("%s.%s" % (kind, name)), seq), None)
        if m is None:
            self.unsupported(node, "method %s.%s" % (kind, name))
        return m(recv, args, kwargs, node)

    # list
    def bm_list_append(self, recv, args, kwargs, node):
        self.set_list(recv, z3.Concat(self.list_of(recv), z3.Unit(self.to_term(args[0], node))))
        return SV(Val.none, "none")

    def sort_function(self, key, reverse=False):
        """the uninterpreted function `stable sort by this key`: one symbol per key function TEXT (a changed key is another function)"""
        import hashlib
        if key is None:
            tag = "natural"
        elif isinstance(key, FuncV) and isinstance(key.node, ast.Lambda):
            tag = hashlib.md5(ast.dump(key.node).encode()).hexdigest()[:10]
        else:
            return None
        return z3.Function("sorted!%s%s" % (tag, "!rev" if reverse else ""), SeqV, SeqV)

    def bm_list_sort(self, recv, args, kwargs, node):
        key = kwargs.get("key")
        rev = kwargs.get("reverse")
        if rev is not None and not (isinstance(rev, SV) and z3.is_true(z3.simplify(self.truthy(rev, node)))):
            self.unsupported(node, "list.sort(reverse=<non-constant>)")
        fn = self.sort_function(key, rev is not None)
        if fn is None or args:
            self.unsupported(node, "list.sort with this key")
        old = self.list_of(recv)
        new = fn(old)
        self.assume(z3.Length(new) == z3.Length(old))      # a permutation: same length (membership: background axiom of sorted!*)
        self.set_list(recv, new)
        return SV(Val.none, "none")

    def sp_sorted_by(self, args, kwargs, node):
        """sorted_by(seq, 'lambda item: ...'): the same uninterpreted sort function the code's list.sort(key=<that lambda>) denotes"""
        src = self.const_str(args[1], node)
        lam = ast.parse(src, mode="eval").body
        fn = self.sort_function(FuncV(lam, None), False)
        seq = self.as_seq(args[0], node)
        return PSeq(fn(seq))

    def bm_list_extend(self, recv, args, kwargs, node):
        self.set_list(recv, z3.Concat(self.list_of(recv), self.as_seq(args[0], node)))
        return SV(Val.none, "none")

    def bm_list_pop(self, recv, args, kwargs, node):
        seq = self.list_of(recv)
        n = z3.Length(seq)
        if not self.branch(n > 0, "pop nonempty L%d" % getattr(node, "lineno", 0)):
            self.raise_builtin("IndexError", node)
        et = self.elem_tag(recv)
        if args:
            i = z3.simplify(self.as_int(args[0], node))
            if not (z3.is_int_value(i) and i.as_long() == 0):
                self.unsupported(node, "pop(i)")
            self.set_list(recv, z3.SubSeq(seq, 1, n - 1))
            return self.from_term(seq[0], et)
        self.set_list(recv, z3.SubSeq(seq, 0, n - 1))
        return self.from_term(seq[n - 1], et)

    def bm_list_insert(self, recv, args, kwargs, node):
        seq = self.list_of(recv)
        i = z3.simplify(self.as_int(args[0], node))
        if z3.is_int_value(i) and i.as_long() == 0:
            self.set_list(recv, z3.Concat(z3.Unit(self.to_term(args[1], node)), seq))
            return SV(Val.none, "none")
        self.unsupported(node, "insert(i)")

    def bm_list_copy(self, recv, args, kwargs, node):
        return self.new_list(self.list_of(recv), self.elem_tag(recv))

    def bm_list_clear(self, recv, args, kwargs, node):
        self.set_list(recv, so.EMPTY_SEQ)
        return SV(Val.none, "none")

    # set
    def bm_set_add(self, recv, args, kwargs, node):
        self.set_setmap(recv, z3.Store(self.setmap_of(recv), self.to_term(args[0], node), True))
        return SV(Val.none, "none")

    def bm_set_update(self, recv, args, kwargs, node):
        self.mutable_set(recv, node)
        m = self.setmap_of(recv)
        for a in args:
            m = set_union(m, self.setmap_from_iterable(a, node))
        self.set_setmap(recv, m)
        return SV(Val.none, "none")

    def mutable_set(self, recv, node):
        """set-mutating method on a value that may be a frozenset: AttributeError"""
        kind = parse_tag(recv.ty)[0]
        if kind == "frozenset":
            self.raise_builtin("AttributeError", node)
        if kind in ("opt", "anyset") or kind is None:
            r = self.refof(recv)
            if not self.branch(so.typeof(r) != self.cids.cid("frozenset"), "is mutable set"):
                self.raise_builtin("AttributeError", node)

    def bm_set_difference_update(self, recv, args, kwargs, node):
        self.mutable_set(recv, node)
        m = self.setmap_of(recv)
        for a in args:
            m = set_diff(m, self.setmap_from_iterable(a, node))
        self.set_setmap(recv, m)
        return SV(Val.none, "none")

    def bm_set_remove(self, recv, args, kwargs, node):
        m = self.setmap_of(recv)
        x = self.to_term(args[0], node)
        if not self.branch(m[x], "remove present"):
            self.raise_builtin("KeyError", node)
        self.set_setmap(recv, z3.Store(m, x, False))
        return SV(Val.none, "none")

    def bm_set_discard(self, recv, args, kwargs, node):
        self.set_setmap(recv, z3.Store(self.setmap_of(recv), self.to_term(args[0], node), False))
        return SV(Val.none, "none")

    def bm_set_copy(self, recv, args, kwargs, node):
        return self.new_set(self.setmap_of(recv), parse_tag(recv.ty)[0])

    # dict
    def bm_dict_get(self, recv, args, kwargs, node):
        m = self.dict_of(recv)
        t = m[self.to_term(args[0], node)]
        d = args[1] if len(args) > 1 else SV(Val.none, "none")
        vt = self.dict_value_tag(recv, args[0])
        if self.spec_mode:
            return self.ite(t != Val.absent, self.from_term(t, vt), d, node)
        if self.branch(t != Val.absent, "dict.get present L%d" % getattr(node, "lineno", 0)):
            return self.from_term(t, vt)
        return d

    def dict_value_tag(self, recv, keyval=None):
        arg = None
        if isinstance(recv, SV):
            kind, arg = parse_tag(recv.ty)
            if kind == "opt":
                arg = parse_tag(arg)[1]
        if arg is None:
            return None
        if arg.startswith("{"):
            # per-key tags: dict[{route_code: ?str, test_id: any}]
            try:
                k = self.const_str(keyval, None)
            except Unsupported:
                return None
            for part in arg[1:-1].split(";"):
                if ":" in part:
                    kk, vv = part.split(":", 1)
                    if kk.strip() == k:
                        return vv.strip()
            return None
        if "=>" in arg:
            return arg.split("=>", 1)[1].strip()
        if "," in arg and not arg.startswith("("):
            return arg.split(",", 1)[1].strip()
        return arg

    def bm_dict_pop(self, recv, args, kwargs, node):
        m = self.dict_of(recv)
        key = self.to_term(args[0], node)
        t = m[key]
        vt = self.dict_value_tag(recv, args[0])
        if self.branch(t != Val.absent, "dict.pop present L%d" % getattr(node, "lineno", 0)):
            self.set_dict(recv, z3.Store(m, key, Val.absent))
            return self.from_term(t, vt)
        if len(args) > 1:
            return args[1]
        self.raise_builtin("KeyError", node)

    def bm_dict_setdefault(self, recv, args, kwargs, node):
        m = self.dict_of(recv)
        key = self.to_term(args[0], node)
        t = m[key]
        if self.branch(t != Val.absent, "setdefault present"):
            return self.from_term(t, self.dict_value_tag(recv, args[0]))
        self.set_dict(recv, z3.Store(m, key, self.to_term(args[1], node)))
        return args[1]

    def bm_dict_items(self, recv, args, kwargs, node):
        st = self.static_dicts.get(z3.simplify(recv.term).get_id()) if isinstance(recv, SV) else None
        if st is not None:
            return TupV([TupV([SV(so.strv(k), "str"), v]) for k, v in st[0].items()])
        return ItemsV(recv, "items")

    def bm_dict_keys(self, recv, args, kwargs, node):
        return ItemsV(recv, "keys")

    def bm_dict_values(self, recv, args, kwargs, node):
        return ItemsV(recv, "values")

    def bm_dict_copy(self, recv, args, kwargs, node):
        return self.new_dict(self.dict_of(recv), parse_tag(recv.ty)[1])

    def bm_dict_update(self, recv, args, kwargs, node):
        self.unsupported(node, "dict.update")

    def bm_dict_popitem(self, recv, args, kwargs, node):
        m = self.dict_of(recv)
        if not self.branch(m != so.EMPTY_KW, "popitem nonempty"):
            self.raise_builtin("KeyError", node)
        k = so.fresh("popkey", Val)
        self.assume(m[k] != Val.absent)
        self.set_dict(recv, z3.Store(m, k, Val.absent))
        arg = parse_tag(recv.ty)[1]
        return TupV([SV(k, None), self.from_term(m[k], self.dict_value_tag(recv))])

    def bm_exc_with_traceback(self, recv, args, kwargs, node):
        return recv

    def bm_staticdict_get(self, recv, args, kwargs, node):
        return self.static_lookup(recv, args[0], node, default=args[1] if len(args) > 1 else SV(Val.none, "none"))

    def bm_staticdict_items(self, recv, args, kwargs, node):
        return TupV([TupV([self.const(k, node), v]) for k, v in recv.items.items()])

    # str
    def bm_str_split(self, recv, args, kwargs, node):
        return SplitV(self.as_str(recv), self.as_str(args[0], node))

    def bm_str_join(self, recv, args, kwargs, node):
        v = args[0]
        if isinstance(v, LazyMapV):
            v = v.force(self, node)
        seq = self.as_seq(v, node) if not isinstance(v, TupV) else so.seq_of([self.to_term(x, node) for x in v.items])
        sep = z3.simplify(self.as_str(recv))
        if z3.is_string_value(sep) and sep.as_string() == "":
            return SV(Val.strv(sconcat(seq)), "str")       # "".join(xs): plain concatenation
        return SV(Val.strv(so.fmt(z3.StringVal("join"), z3.Concat(z3.Unit(recv.term), seq))), "str")

    def bm_str_format(self, recv, args, kwargs, node):
        seq = so.seq_of([recv.term] + [self.str_arg(a, node) for a in args] + [self.str_arg(v, node) for k, v in sorted(kwargs.items())])
        return SV(Val.strv(so.fmt(z3.StringVal("format"), seq)), "str")

    def bm_str_startswith(self, recv, args, kwargs, node):
        return BoolSV(z3.PrefixOf(self.as_str(args[0], node), self.as_str(recv)))

    def bm_str_endswith(self, recv, args, kwargs, node):
        return BoolSV(z3.SuffixOf(self.as_str(args[0], node), self.as_str(recv)))

    def bm_str_strip(self, recv, args, kwargs, node):
        return SV(Val.strv(so.fmt(z3.StringVal("strip"), z3.Unit(recv.term))), "str")

    def bm_str_encode(self, recv, args, kwargs, node):
        r0 = z3.simplify(self.as_str(recv))
        if z3.is_string_value(r0) and r0.as_string() == "":
            return SV(Val.bytesv(z3.StringVal("")), "bytes")       # "".encode(anything) == b""
        return SV(Val.bytesv(str_encode(self.as_str(recv), so.seq_of([self.to_term(a, node) for a in args]))), "bytes")

    def bm_str_find(self, recv, args, kwargs, node):
        return SV(Val.intv(z3.IndexOf(self.as_str(recv), self.as_str(args[0], node), 0)), "int")

    def bm_bytes_join(self, recv, args, kwargs, node):
        v = args[0]
        seq = self.as_seq(v, node) if not isinstance(v, TupV) else so.seq_of([self.to_term(x, node) for x in v.items])
        sep = z3.simplify(self.as_str(recv))
        empty = z3.is_string_value(sep) and sep.as_string() == ""
        if not empty:
            # b"".join is the only form used; an encode of the empty string is the empty bytes (background axiom)
            self.assume(self.as_str(recv) == z3.StringVal(""))
        return SV(Val.bytesv(bconcat(seq)), "bytes")

    def bm_bytes_decode(self, recv, args, kwargs, node):
        return SV(Val.strv(bytes_decode(self.as_str(recv), so.seq_of([self.to_term(a, node) for a in args]))), "str")

    def bm_tuple_index(self, recv, args, kwargs, node):
        self.unsupported(node, "tuple.index")

    # get_item extension for SplitV / ItemsV iteration
    def get_item(self, obj, sl, node):
        if isinstance(obj, StaticDictV):
            return self.static_lookup(obj, self.ev(sl), node)
        if isinstance(obj, SplitV):
            idx = self.ev(sl)
            iv = z3.simplify(self.as_int(idx, node))
            if z3.is_int_value(iv) and iv.as_long() == 0:
                pos = z3.IndexOf(obj.s, obj.sep, 0)
                return SV(Val.strv(z3.If(pos < 0, obj.s, z3.SubString(obj.s, 0, pos))), "str")
            self.unsupported(node, "split()[i] for i != 0")
        return super().get_item(obj, sl, node)

    def iter_seq(self, it, node):
        if isinstance(it, ItemsV):
            m = self.as_map(it.dictval, node)
            keys = so.dict_order(m) if not it.sorted else sorted_keys(m)
            self.assume_dict_order(keys, m)
            arg = parse_tag(it.dictval.ty)[1] if isinstance(it.dictval, SV) else None
            kt = vt = None
            if arg and "=>" in arg:
                kt, vt = [x.strip() for x in arg.split("=>", 1)]
            elif arg and "," in arg and not arg.startswith("{"):
                kt, vt = [x.strip() for x in arg.split(",", 1)]
            elif arg and not arg.startswith("{"):
                vt = arg
            if it.what == "keys":
                return keys, kt
            n = z3.Length(keys)
            out = so.fresh("items", SeqV)
            j = z3.Int("ij")
            self.assume(z3.Length(out) == n)
            if it.what == "items":
                self.assume(z3.ForAll([j], z3.Implies(z3.And(0 <= j, j < n), out[j] == Val.tup(z3.Concat(z3.Unit(keys[j]), z3.Unit(m[keys[j]])))), patterns=[out[j]]))
                return out, "(%s,%s)" % (kt or "any", vt or "any")
            self.assume(z3.ForAll([j], z3.Implies(z3.And(0 <= j, j < n), out[j] == m[keys[j]]), patterns=[out[j]]))
            return out, vt
        if isinstance(it, LazyMapV):
            v = it.force(self, node)
            return self.as_seq(v, node), None
        if isinstance(it, RangeV):
            # range(lo, hi) with symbolic bounds: the sequence lo, lo+1, ..., hi-1 (empty when hi <= lo)
            if getattr(it, "step", None) is not None:
                self.unsupported(node, "for over range with a step")
            out = so.fresh("range", SeqV)
            j = z3.Int("rj")
            n = z3.If(it.hi > it.lo, it.hi - it.lo, z3.IntVal(0))
            self.assume(z3.Length(out) == n)
            self.assume(z3.ForAll([j], z3.Implies(z3.And(0 <= j, j < n), out[j] == Val.intv(it.lo + j)), patterns=[out[j]]))
            return out, "int"
        return super().iter_seq(it, node)

    def as_seq(self, v, node=None):
        if isinstance(v, LazyMapV):
            return self.as_seq(v.force(self, node), node)
        if isinstance(v, ItemsV):
            seq, _ = self.iter_seq(v, node)
            return seq
        return super().as_seq(v, node)

    def ev_DictComp(self, node):
        """{k: e for k, v in d.items() if c} / {k: e for k in d if c} / {k: e for k in <set> if c}: pointwise definition of a new
        dict over the keys of d (resp. the members of the set).  The key expression must be the key variable itself, so distinct
        source keys stay distinct; e and c are evaluated once for a symbolic key.  If e allocates objects (e.g. builds one Mismatch
        per key) the values are over-approximated: new objects of the statically known class, fields unknown."""
        if len(node.generators) != 1:
            self.unsupported(node, "nested dict comprehension")
        g = node.generators[0]
        it = self.ev(g.iter)
        if isinstance(it, TupV) and all(isinstance(p_, TupV) and len(p_.items) == 2 for p_ in it.items) and not g.ifs \
                and isinstance(g.target, ast.Tuple) and len(g.target.elts) == 2 and all(isinstance(t, ast.Name) for t in g.target.elts):
            # the items of a constant table (class-level dict of factories): built entry by entry, as real code
            m = so.EMPTY_KW
            for p_ in it.items:
                self.spec_envs.append({g.target.elts[0].id: p_.items[0], g.target.elts[1].id: p_.items[1]})
                try:
                    kv = self.to_term(self.ev(node.key), node)
                    vv = self.to_term(self.ev(node.value), node)
                finally:
                    self.spec_envs.pop()
                m = z3.Store(m, kv, vv)
            return PMap(m) if self.spec_mode else self.new_dict(m)
        x = z3.Const("dk!%d_%d" % (node.lineno, so._fresh[0]), Val)
        so._fresh[0] += 1
        env = None
        if isinstance(it, ItemsV) and it.what == "items" and isinstance(g.target, ast.Tuple) and len(g.target.elts) == 2 \
                and all(isinstance(t, ast.Name) for t in g.target.elts) and isinstance(node.key, ast.Name) and node.key.id == g.target.elts[0].id:
            m = self.as_map(it.dictval, node)
            arg = parse_tag(it.dictval.ty)[1] if isinstance(it.dictval, SV) else None
            kt = vt = None
            if arg and "=>" in arg:
                kt, vt = [t.strip() for t in arg.split("=>", 1)]
            present = m[x] != Val.absent
            env = {g.target.elts[0].id: SV(x, kt), g.target.elts[1].id: SV(m[x], vt)}
        elif isinstance(g.target, ast.Name) and isinstance(node.key, ast.Name) and node.key.id == g.target.id:
            k = self.kind_of(it)
            if k in ("dict", "PMap"):
                present = self.as_map(it, node)[x] != Val.absent
            elif k in ("set", "frozenset", "anyset", "PSet"):
                present = self.as_setmap(it, node)[x]
            else:
                self.unsupported(node, "dict comprehension over %r" % (it,))
            env = {g.target.id: SV(x, None)}
        if env is None:
            self.unsupported(node, "dict comprehension (only over d.items(), the keys of a dict, or a set, with the key variable as key)")
        self.spec_envs.append(env)
        saved = self.spec_mode
        self.spec_mode += 1
        npc, heap0 = len(self.st.pc), dict(self.st.heap)
        try:
            conds = [self.truthy(self.ev(c), node) for c in g.ifs]
            self.spec_mode = saved        # the value expression may construct objects: evaluate as code (branching is still refused)
            self._no_branch = getattr(self, "_no_branch", 0) + 1
            side_saved, self._comp_side = getattr(self, "_comp_side", []), []
            try:
                vv = self.ev(node.value)
            finally:
                self._no_branch -= 1
                side, self._comp_side = self._comp_side, side_saved
            val = self.to_term(vv, node)
            for sc in side:
                # e.g. d[k] in the value expression: k must be a key of d for EVERY element (else KeyError)
                self.oblige("pre", z3.ForAll([x], z3.Implies(z3.And([present] + conds), sc)), node, "comprehension-key-present")
        finally:
            self.spec_mode = saved
            self.spec_envs.pop()
        out = so.fresh("dcomp", KwMap)
        changed = [kk for kk in set(self.st.heap) | set(heap0) if self.st.heap.get(kk) is not heap0.get(kk)]
        if changed or any(_mentions_term(a, x) for a in self.st.pc[npc:]):
            # the value expression allocated / called something with a fresh result: keep only what is key-independent -- the
            # domain, and for a newly constructed object its class; discard the single evaluation's heap effects
            self.st.heap = dict(heap0)
            a0 = self.comp("$alloc")
            a2 = so.fresh("alloc", I)
            self.assume(a2 >= a0)
            self.st.heap["$alloc"] = a2
            self.assume(z3.ForAll([x], (out[x] != Val.absent) == z3.And([present] + conds), patterns=[out[x]]))
            if isinstance(vv, SV) and self.is_fresh(vv):
                ci = self.class_of_tag(vv.ty)
                if ci is not None:
                    self.assume(z3.ForAll([x], z3.Implies(out[x] != Val.absent, z3.And(
                        Val.is_ref(out[x]), Val.r(out[x]) >= a0, Val.r(out[x]) < a2, so.typeof(Val.r(out[x])) == self.class_id(ci))), patterns=[out[x]]))
                    res = self.new_dict(out, "any=>%s" % ci.name) if not self.spec_mode else PMap(out, ci.name)
                    return res
        else:
            self.assume(z3.ForAll([x], out[x] == z3.If(z3.And([present] + conds), val, Val.absent), patterns=[out[x]]))
        if self.spec_mode:
            return PMap(out)
        return self.new_dict(out)

    # ------------------------------------------------------------- spec level
    def eval_iter0(self, expr):
        cur = self.st.heap
        if not self.iter_stack:
            raise SpecError("iter0() outside a loop body contract")
        self.st.heap = self.iter_stack[-1]
        try:
            return self.ev(expr)
        finally:
            self.st.heap = cur

    def eval_old(self, expr):
        cur = self.st.heap
        self.st.heap = self.old_stack[-1]
        try:
            return self.ev(expr)
        finally:
            self.st.heap = cur

    def quantifier(self, which, gen, node):
        if len(gen.generators) != 1:
            self.unsupported(node, "nested quantifier generator")
        g = gen.generators[0]
        it = self.ev(g.iter)
        qid = "q%d_%d" % (node.lineno, node.col_offset) + "_%d" % so._fresh[0]
        so._fresh[0] += 1
        if isinstance(it, TupV):
            bs = []
            for x in it.items:
                self.push_bind(g.target, x, node)
                try:
                    conds = [self.truthy(self.ev(c), node) for c in g.ifs]
                    body = self.truthy(self.ev(gen.elt), node)
                finally:
                    self.pop_bind()
                bs.append(z3.Implies(z3.And(conds), body) if which == "all" else z3.And(conds + [body]))
            return BoolSV(z3.And(bs) if which == "all" else z3.Or(bs)) if bs else BoolSV(which == "all")
        if isinstance(it, RangeV):
            lo_s = z3.simplify(it.lo)
            first_next = _plus_one(lo_s)     # lo == t - 1  ->  t
            if first_next is not None and not getattr(self, "_no_split", False):
                # range(t-1, hi): split off the FIRST element (loops that walk a sequence backwards)
                self.push_bind(g.target, SV(Val.intv(lo_s), "int"), node)
                try:
                    conds_f = [self.truthy(self.ev(c), node) for c in g.ifs]
                    body_f = self.truthy(self.ev(gen.elt), node)
                finally:
                    self.pop_bind()
                self._no_split = True
                try:
                    rest = self.quantifier_range(which, gen, node, first_next, it.hi, qid)
                finally:
                    self._no_split = False
                nonempty = lo_s < it.hi
                if which == "all":
                    return BoolSV(z3.Implies(nonempty, z3.And(rest, z3.Implies(z3.And(conds_f), body_f))))
                return BoolSV(z3.And(nonempty, z3.Or(rest, z3.And(conds_f + [body_f]))))
            hi = z3.simplify(it.hi)
            last = _minus_one(hi)
            if last is not None and not getattr(self, "_no_split", False):
                # range(lo, t+1): split off the last element so that the goal matches `range(lo, t)` facts syntactically
                self.push_bind(g.target, SV(Val.intv(last), "int"), node)
                try:
                    conds_l = [self.truthy(self.ev(c), node) for c in g.ifs]
                    body_l = self.truthy(self.ev(gen.elt), node)
                finally:
                    self.pop_bind()
                self._no_split = True
                try:
                    rest = self.quantifier_range(which, gen, node, it.lo, last, qid)
                finally:
                    self._no_split = False
                nonempty = last >= it.lo
                if which == "all":
                    return BoolSV(z3.Implies(nonempty, z3.And(rest, z3.Implies(z3.And(conds_l), body_l))))
                return BoolSV(z3.And(nonempty, z3.Or(rest, z3.And(conds_l + [body_l]))))
            j = z3.Int(qid)
            rng = z3.And(it.lo <= j, j < it.hi)
            elem = SV(Val.intv(j), "int")
            qv = [j]
        elif isinstance(it, (PSet,)) or (isinstance(it, SV) and parse_tag(it.ty)[0] in ("set", "frozenset", "anyset")):
            x = z3.Const(qid, Val)
            rng = self.as_setmap(it, node)[x]
            elem = SV(x, self.elem_tag(it))
            qv = [x]
        else:
            seq, et = self.iter_seq(it, node)
            if not isinstance(seq, ZipV) and z3.is_app(seq) and seq.decl().name() == "elems" and z3.is_app(seq.arg(0)) \
                    and seq.arg(0).decl().name() == "tup":
                seq = seq.arg(0).arg(0)          # elems(tup(s)) is s
            if not isinstance(seq, ZipV) and z3.is_app(seq) and seq.decl().kind() == z3.Z3_OP_SEQ_CONCAT and not getattr(self, "_no_split", False):
                ch = seq.children()
                lastc = ch[-1]
                if z3.is_app(lastc) and lastc.decl().kind() == z3.Z3_OP_SEQ_UNIT:
                    # quantification over  s ++ [x]:  split off x so that the goal matches facts about s syntactically
                    init = ch[0] if len(ch) == 2 else z3.Concat(*ch[:-1])
                    self.push_bind(g.target, self.from_term(lastc.arg(0), et), node)
                    try:
                        conds_l = [self.truthy(self.ev(c), node) for c in g.ifs]
                        body_l = self.truthy(self.ev(gen.elt), node)
                    finally:
                        self.pop_bind()
                    j = z3.Int(qid)
                    self.push_bind(g.target, self.from_term(init[j], et), node)
                    try:
                        conds = [self.truthy(self.ev(c), node) for c in g.ifs]
                        body = self.truthy(self.ev(gen.elt), node)
                    finally:
                        self.pop_bind()
                    rng = z3.And(0 <= j, j < z3.Length(init))
                    if which == "all":
                        return BoolSV(z3.And(z3.ForAll([j], z3.Implies(z3.And([rng] + conds), body)), z3.Implies(z3.And(conds_l), body_l)))
                    return BoolSV(z3.Or(z3.Exists([j], z3.And([rng] + conds + [body])), z3.And(conds_l + [body_l])))
            j = z3.Int(qid)
            if isinstance(seq, ZipV):
                rng = z3.And(0 <= j, j < seq.length(self))
                elem = seq.item(self, j)
            else:
                rng = z3.And(0 <= j, j < z3.Length(seq))
                elem = self.from_term(seq[j], et)
            qv = [j]
        self.push_bind(g.target, elem, node)
        try:
            conds = [self.truthy(self.ev(c), node) for c in g.ifs]
            body = self.truthy(self.ev(gen.elt), node)
        finally:
            self.pop_bind()
        if which == "all":
            q = z3.ForAll(qv, z3.Implies(z3.And([rng] + conds), body))
            # redundant ground instance at the current loop index: e-matching on seq.nth is unreliable, and the element the
            # loop body works on is exactly the one at _i
            cur = self.frame.locals.get("_i") if self.st.frames else None
            lseq = self.frame.locals.get("_seq") if self.st.frames else None
            over_loop_seq = isinstance(lseq, PSeq) and not isinstance(it, RangeV) and 'seq' in dir() and not isinstance(seq, ZipV) \
                and z3.is_expr(seq) and z3.simplify(seq).eq(z3.simplify(lseq.seq))
            if over_loop_seq and isinstance(cur, SV) and len(qv) == 1 and qv[0].sort() == z3.IntSort() and not getattr(self, "_no_split", False) \
                    and getattr(self, "_assuming", False) and not os.environ.get("VERIF_NO_LOOPINST"):
                it_ = Val.i(cur.term)
                inst = z3.substitute(z3.Implies(z3.And([rng] + conds), body), (qv[0], it_))
                q = z3.And(q, inst)
            return BoolSV(q)
        return BoolSV(z3.Exists(qv, z3.And([rng] + conds + [body])))

    def quantifier_range(self, which, gen, node, lo, hi, qid):
        g = gen.generators[0]
        j = z3.Int(qid)
        rng = z3.And(lo <= j, j < hi)
        self.push_bind(g.target, SV(Val.intv(j), "int"), node)
        try:
            conds = [self.truthy(self.ev(c), node) for c in g.ifs]
            body = self.truthy(self.ev(gen.elt), node)
        finally:
            self.pop_bind()
        if which == "all":
            return z3.ForAll([j], z3.Implies(z3.And([rng] + conds), body))
        return z3.Exists([j], z3.And([rng] + conds + [body]))

    def quant_lambda(self, which, node):
        """forall(lambda x, y: body)  — x, y range over Val (or Int when named i, j, k, n)"""
        lam = node.args[0]
        if not isinstance(lam, ast.Lambda):
            self.unsupported(node, "forall without lambda")
        env = {}
        qv = []
        for a in lam.args.args:
            nm = a.arg
            uid = "%s_%d" % (nm, so._fresh[0])
            so._fresh[0] += 1
            if nm[0] in "ijkn":
                c = z3.Int(uid)
                env[nm] = SV(Val.intv(c), "int")
            elif nm[0] == "r":
                c = z3.Int(uid)
                env[nm] = SV(Val.ref(c), None)
            else:
                c = z3.Const(uid, Val)
                env[nm] = SV(c, None)
            qv.append(c)
        self.spec_envs.append(env)
        bound = self.__dict__.setdefault("spec_bound", [])
        bound.append({c.decl().name() for c in qv})
        try:
            body = self.truthy(self.ev(lam.body), node)
        finally:
            self.spec_envs.pop()
            bound.pop()
        return BoolSV(z3.ForAll(qv, body) if which == "forall" else z3.Exists(qv, body))

    def spec_call(self, name, args, kwargs, node):
        if name in self.reg.defs:
            params, expr = self.reg.defs[name]
            if len(params) != len(args):
                raise SpecError("arity of %s" % name)
            self.spec_envs.append(dict(zip(params, args)))
            try:
                return self.ev(parse_expr(expr))
            finally:
                self.spec_envs.pop()
        if name in self.reg.functions:
            argsorts, ressort = self.reg.functions[name]
            fn = self.spec_fns.get(name)
            if fn is None:
                fn = z3.Function(name, *([SORTS[s] for s in argsorts] + [SORTS[ressort]]))
                self.spec_fns[name] = fn
            zargs = [self.to_sort(a, s, node) for a, s in zip(args, argsorts)]
            return self.from_sort(fn(*zargs), ressort)
        m = getattr(self, "sp_" + name, None)
        if m is None:
            self.unsupported(node, "spec function %s" % name)
        return m(args, kwargs, node)

    def to_sort(self, v, s, node=None):
        if s == "val":
            return self.to_term(v, node)
        if s == "int":
            return self.as_int(v, node)
        if s == "bool":
            return self.truthy(v, node)
        if s == "str":
            return self.as_str(v, node)
        if s == "seq":
            return self.as_seq(v, node)
        if s == "set":
            return self.as_setmap(v, node)
        if s == "map":
            return self.as_map(v, node)
        if s == "hist":
            return v.h
        if s == "event":
            return v.e
        if s == "ref":
            return self.refof(v, node)
        if s in ("harr", "darr", "farr"):
            return v.t
        raise SpecError("sort %s" % s)

    def from_sort(self, t, s):
        if s == "val":
            return SV(t, None)
        if s == "int":
            return SV(Val.intv(t), "int")
        if s == "bool":
            return BoolSV(t)
        if s == "str":
            return SV(Val.strv(t), "str")
        if s == "seq":
            return PSeq(t)
        if s == "set":
            return PSet(t)
        if s == "map":
            return PMap(t)
        if s == "hist":
            return PHist(t)
        if s == "event":
            return PEvent(t)
        if s == "ref":
            return SV(Val.ref(t), None)
        if s in ("harr", "darr", "farr"):
            return PRaw(t)
        raise SpecError("sort %s" % s)

    def sp_implies(self, args, kwargs, node):
        return BoolSV(z3.Implies(self.truthy(args[0], node), self.truthy(args[1], node)))

    def sp_iff(self, args, kwargs, node):
        return BoolSV(self.truthy(args[0], node) == self.truthy(args[1], node))

    def sp_ite(self, args, kwargs, node):
        return self.ite(self.truthy(args[0], node), args[1], args[2], node)

    def sp_hist(self, args, kwargs, node):
        return PHist(self.comp("$hist")[self.refof(args[0], node)])

    def sp_hnil(self, args, kwargs, node):
        return PHist(Hist.hnil)

    def sp_snoc(self, args, kwargs, node):
        h = args[0].h
        for e in args[1:]:
            h = Hist.snoc(h, e.e)
        return PHist(h)

    def sp_hlast(self, args, kwargs, node):
        return PEvent(Hist.hlast(args[0].h))

    def sp_hinit(self, args, kwargs, node):
        return PHist(Hist.hinit(args[0].h))

    def sp_is_snoc(self, args, kwargs, node):
        return BoolSV(Hist.is_snoc(args[0].h))

    def sp_call(self, args, kwargs, node):
        name = args[0]
        a = args[1] if len(args) > 1 else PSeq(so.EMPTY_SEQ)
        kw = args[2] if len(args) > 2 else PMap(so.EMPTY_KW)
        return PEvent(Event.ev(self.as_str(name, node), self.as_seq(a, node), self.as_map(kw, node)))

    def sp_ev_name(self, args, kwargs, node):
        return SV(Val.strv(Event.name(args[0].e)), "str")

    def sp_ev_args(self, args, kwargs, node):
        return PSeq(Event.args(args[0].e))

    def sp_ev_kw(self, args, kwargs, node):
        return PMap(Event.kw(args[0].e))

    def sp_G(self, args, kwargs, node):
        return PRaw(self.comp("$G"))

    def sp_HIST(self, args, kwargs, node):
        return PRaw(self.comp("$hist"))

    def sp_seq(self, args, kwargs, node):
        return PSeq(self.as_seq(args[0], node), self.elem_tag(args[0]))

    def sp_listof(self, args, kwargs, node):
        return PSeq(self.comp("$list")[self.refof(args[0], node)], self.elem_tag(args[0]))

    def sp_setof(self, args, kwargs, node):
        return PSet(self.comp("$set")[self.refof(args[0], node)])

    def sp_dictof(self, args, kwargs, node):
        vt = self.dict_value_tag(args[0]) if isinstance(args[0], SV) else None
        if vt is not None and vt.startswith("{"):
            vt = None
        return PMap(self.comp("$dict")[self.refof(args[0], node)], vt)

    def sp_mapof(self, args, kwargs, node):
        return PMap(self.as_map(args[0], node))

    def sp_elems(self, args, kwargs, node):
        if isinstance(args[0], TupV):
            return PSeq(so.seq_of([self.to_term(x, node) for x in args[0].items]))
        return PSeq(Val.elems(args[0].term))

    def sp_concat(self, args, kwargs, node):
        return PSeq(z3.Concat(*[self.as_seq(a, node) for a in args]))

    def sp_last(self, args, kwargs, node):
        s = self.as_seq(args[0], node)
        return self.from_term(s[z3.Length(s) - 1], self.elem_tag(args[0]))

    def sp_butlast(self, args, kwargs, node):
        s = self.as_seq(args[0], node)
        return PSeq(z3.SubSeq(s, 0, z3.Length(s) - 1), self.elem_tag(args[0]))

    def sp_prefix_of(self, args, kwargs, node):
        return BoolSV(z3.PrefixOf(self.as_seq(args[0], node), self.as_seq(args[1], node)))

    def sp_isnone(self, args, kwargs, node):
        return BoolSV(self.to_term(args[0], node) == Val.none)

    def sp_is_cls(self, args, kwargs, node):
        return BoolSV(Val.is_cls(self.to_term(args[0], node)))

    def sp_is_ref(self, args, kwargs, node):
        return BoolSV(Val.is_ref(self.to_term(args[0], node)))

    def sp_absent(self, args, kwargs, node):
        return SV(Val.absent, None)

    def sp_truthy(self, args, kwargs, node):
        return BoolSV(self.truthy(args[0], node))

    def sp_allocated(self, args, kwargs, node):
        """object existed in the pre-state of the contract"""
        old_alloc = self.old_stack[-1].get("$alloc")
        if old_alloc is None:
            old_alloc = self.comp("$alloc", State())
        return BoolSV(self.refof(args[0], node) < old_alloc)

    def sp_as_ref(self, args, kwargs, node):
        """as_ref(n): the pseudo-object whose reference number is the integer n (used to key ghost tables by small integers)"""
        return SV(Val.ref(self.as_int(args[0], node)), None)

    def sp_pos_in(self, args, kwargs, node):
        """pos_in(order, x): the position of member x in that iteration order of a set (see assume_set_order)"""
        return SV(Val.intv(so.set_pos(self.as_seq(args[0], node), self.to_term(args[1], node))), "int")

    def sp_obj_truthy(self, args, kwargs, node):
        """truthiness of an object that is not a builtin container (what bool(obj) gives through __bool__/__len__/default)"""
        from .symex import so_truthy_obj
        return BoolSV(so_truthy_obj(self.refof(args[0], node)))

    def sp_FIELD(self, args, kwargs, node):
        """FIELD('name'): the whole heap component of that field (object -> value), e.g. to pass to a recursive spec function"""
        return PRaw(self.comp("f:" + self.const_str(args[0], node)))

    def sp_fsel(self, args, kwargs, node):
        """fsel(A, obj): obj's value in the field array A"""
        return SV(args[0].t[self.refof(args[1], node)], None)

    def sp_has_local(self, args, kwargs, node):
        """the verified function's local variable is bound at this point (static)"""
        nm = self.const_str(args[0], node)
        return BoolSV(bool(self.st.frames) and nm in self.st.frames[0].locals)

    def sp_allocated_now(self, args, kwargs, node):
        """object exists in the current state"""
        return BoolSV(self.refof(args[0], node) < self.comp("$alloc"))

    def sp_LIST(self, args, kwargs, node):
        return PRaw(self.comp("$list"))

    def sp_at(self, args, kwargs, node):
        """at(s, i): element i of a sequence for an index known to be in range (no negative-index normalisation)"""
        seq = self.as_seq(args[0], node)
        return self.from_term(seq[self.as_int(args[1], node)], self.elem_tag(args[0]) if isinstance(args[0], SV) else None)

    def sp_extclass(self, args, kwargs, node):
        """a library class by dotted name, independent of what the current module imports"""
        return ClassV(ext=self.const_str(args[0], node))

    def sp_typeof_is(self, args, kwargs, node):
        cv = args[1]
        if isinstance(cv, ExtV):
            cv = ClassV(ext=cv.dotted)
        return BoolSV(so.typeof(self.refof(args[0], node)) == self.class_id(cv.info if cv.info is not None else cv.ext))

    def sp_subclass_of(self, args, kwargs, node):
        a, b = args
        ta = Val.c(self.to_term(a, node)) if not isinstance(a, ClassV) else self.class_id(a.info or a.ext)
        tb = Val.c(self.to_term(b, node)) if not isinstance(b, ClassV) else self.class_id(b.info or b.ext)
        return BoolSV(so.subclass(ta, tb))

    def sp_cls_of(self, args, kwargs, node):
        return SV(Val.cls(so.typeof(self.refof(args[0], node))), "class")

    def sp_has(self, args, kwargs, node):
        return BoolSV(has_attr(self.refof(args[0], node), self.as_str(args[1], node)))

    def sp_accepts(self, args, kwargs, node):
        return BoolSV(accepts_kw(self.refof(args[0], node), self.as_str(args[1], node), self.as_str(args[2], node)))

    def sp_member(self, args, kwargs, node):
        return BoolSV(self.contains(args[1], args[0], node))

    def sp_kwget(self, args, kwargs, node):
        return SV(self.as_map(args[0], node)[self.to_term(args[1], node)], None)

    def sp_store(self, args, kwargs, node):
        return PMap(z3.Store(self.as_map(args[0], node), self.to_term(args[1], node), self.to_term(args[2], node)))

    def sp_pct(self, args, kwargs, node):
        """the text of `fmt % (args...)`: the same uninterpreted total function the executor uses for the % operator"""
        seq = so.seq_of([self.to_term(a, node) for a in args])
        return SV(Val.strv(so.fmt(z3.StringVal("%"), seq)), "str")

    def sp_joined(self, args, kwargs, node):
        """the text of sep.join(items): same uninterpreted total function as the executor's str.join"""
        sep = self.to_term(args[0], node)
        seq = self.as_seq(args[1], node)
        return SV(Val.strv(so.fmt(z3.StringVal("join"), z3.Concat(z3.Unit(sep), seq))), "str")

    def sp_str_encode_(self, args, kwargs, node):
        """s.encode(*args): the executor's uninterpreted encoding function"""
        return SV(Val.strv(str_encode(self.as_str(args[0], node), self.as_seq(args[1], node))), "str")

    def sp_bytes_str(self, args, kwargs, node):
        """the raw string of a bytes value (spec-level sort bridge)"""
        return SV(Val.strv(Val.bs(self.to_term(args[0], node))), "str")

    def sp_bytes_of_str(self, args, kwargs, node):
        return SV(Val.bytesv(self.as_str(args[0], node)), "bytes")

    def sp_asbytes(self, args, kwargs, node):
        return SV(self.to_term(args[0], node), "bytes")

    def sp_asstr(self, args, kwargs, node):
        return SV(self.to_term(args[0], node), "str")

    def sp_is_shape_(self, args, kwargs, node):
        return self.bi_is_shape(args, kwargs, node)

    def sp_astype(self, args, kwargs, node):
        return SV(self.to_term(args[0], node), self.const_str(args[1], node))

    def sp_deliver(self, args, kwargs, node):
        """deliver(H, targets, event, n): H after sending `event` to targets[0..n) in order"""
        return PRaw(deliver(args[0].t, self.as_seq(args[1], node), args[2].e, self.as_int(args[3], node)))

    def sp_hsel(self, args, kwargs, node):
        return PHist(args[0].t[self.refof(args[1], node)])

    def sp_ATTRS(self, args, kwargs, node):
        return PRaw(self.comp("$attrs"))

    def sp_attrs_of(self, args, kwargs, node):
        return PMap(self.comp("$attrs")[self.refof(args[0], node)])

    def sp_attr_set(self, args, kwargs, node):
        """ATTRS with obj.name := value (value absent() deletes)"""
        A = args[0].t
        r = self.refof(args[1], node)
        return PRaw(z3.Store(A, r, z3.Store(A[r], self.to_term(args[2], node), self.to_term(args[3], node))))

    def sp_attr_get(self, args, kwargs, node):
        return SV(args[0].t[self.refof(args[1], node)][self.to_term(args[2], node)], None)

    def sp_hstore(self, args, kwargs, node):
        """HIST array with one object's history replaced"""
        return PRaw(z3.Store(args[0].t, self.refof(args[1], node), args[2].h))

    def sp_first_segment(self, args, kwargs, node):
        s_ = self.as_str(args[0], node)
        sep = self.as_str(args[1], node) if len(args) > 1 else z3.StringVal("/")
        pos = z3.IndexOf(s_, sep, 0)
        return SV(Val.strv(z3.If(pos < 0, s_, z3.SubString(s_, 0, pos))), "str")

    def sp_fieldof(self, args, kwargs, node):
        if isinstance(args[0], (FuncV, BoundV)):
            return SV(Val.absent, None)        # a plain closure has no ghost fields
        return SV(self.get_field(self.refof(args[0], node), self.const_str(args[1], node)), None)

    def sp_str_of(self, args, kwargs, node):
        return SV(Val.strv(so.opaque_str(self.to_term(args[0], node))), "str")

    def sp_tupleof(self, args, kwargs, node):
        return SV(Val.tup(self.as_seq(args[0], node)), "tuple")

    def sp_distinct(self, args, kwargs, node):
        ts = [self.to_term(a, node) for a in args]
        return BoolSV(z3.Distinct(*ts) if len(ts) > 1 else z3.BoolVal(True))

    def sp_frame_ok(self, args, kwargs, node):
        """every object that existed at function entry still has its entry value in this heap component"""
        name = self.const_str(args[0], node)
        r = z3.Int("fr_%d" % so._fresh[0])
        so._fresh[0] += 1
        pre = _HeapView(self.old_stack[0])
        return BoolSV(z3.ForAll([r], z3.Implies(z3.And(r >= 0, r < self.pre_alloc), self.comp(name)[r] == self.comp(name, pre)[r])))

    def sp_frame_rest(self, args, kwargs, node):
        """frame_ok(c) for every heap component c touched so far that the contract's `modifies` does not list wholesale
        (plus the names given as arguments are skipped too): the loop-invariant form of the frame condition"""
        skip = {self.const_str(a, node) for a in args} | {"$alloc", "$G"}
        c = self.current_contract
        if c is not None:
            skip |= {m.strip() for m in c.modifies if m.strip().startswith("$") or m.strip().startswith("f:")}
            if not c.frame_hist:
                skip.add("$hist")
        pre = _HeapView(self.old_stack[0])
        r = z3.Int("fr_%d" % so._fresh[0])
        so._fresh[0] += 1
        conj = []
        for name, term in sorted(self.st.heap.items()):
            if name in skip:
                continue
            before = self.comp(name, pre)
            if term.eq(before):
                continue
            conj.append(term[r] == before[r])
        if not conj:
            return BoolSV(True)
        return BoolSV(z3.ForAll([r], z3.Implies(z3.And(r >= 0, r < self.pre_alloc), z3.And(conj))))

    def sp_unchanged(self, args, kwargs, node):
        """heap component (by name) unchanged since old"""
        name = self.const_str(args[0], node)
        return BoolSV(self.comp(name) == self.comp(name, _HeapView(self.old_stack[-1])))


class _HeapView:
    def __init__(self, heap):
        self.heap = heap


class UnboundLib(Value):
    def __init__(self, contract, name):
        self.contract = contract
        self.name = name


class LazyMapV(Value):
    """map(f, xs): evaluated when consumed (list(), join(), iteration)"""
    def __init__(self, f, xs):
        self.f, self.xs = f, xs

    def force(self, eng, node):
        xs = self.xs
        if isinstance(xs, TupV):
            return TupV([eng.call_value(self.f, [x], {}, node) for x in xs.items])
        # pure function over a symbolic sequence: pointwise
        seq = eng.as_seq(xs, node)
        et = eng.elem_tag(xs)
        out = so.fresh("map", SeqV)
        j = z3.Int("mj!%d" % so._fresh[0])
        saved = eng.spec_mode
        if isinstance(self.f, BuiltinV) and self.f.name in ("str", "repr", "len"):
            body = eng.to_term(eng.builtin_call(self.f.name, [eng.from_term(seq[j], et)], {}, node), node)
        elif isinstance(self.f, MethodCallerV) and et in eng.reg.shapes:
            # map(methodcaller(name, *a, **k), sinks): one identical call event per element, in sequence order
            c = eng.reg.shape_method(et, self.f.name)
            if c is None or c.event is not True or c.exsures is not None or c.ensures or c.modifies or c.requires:
                raise Unsupported("%s: map(methodcaller(%s)) over %s needs a plain event sink" % (eng.target_name, self.f.name, et))
            eng.used_contracts.add(c.target)
            pseq, kw = eng.call_payload(self.f.args, self.f.kwargs, node, self.f.star, self.f.dstar)
            e = Event.ev(z3.StringVal(self.f.name), pseq, kw)
            eng.set_comp("$hist", deliver(eng.comp("$hist"), seq, e, z3.Length(seq)))
            eng.set_comp("$G", so.fresh("map_G", GHist))
            eng.assume(z3.Length(out) == z3.Length(seq))
            return PSeq(out)
        else:
            raise Unsupported("%s: map() of a non-builtin over a symbolic sequence needs a loop contract" % eng.target_name)
        eng.assume(z3.Length(out) == z3.Length(seq))
        eng.assume(z3.ForAll([j], z3.Implies(z3.And(0 <= j, j < z3.Length(seq)), out[j] == body), patterns=[out[j]]))
        return PSeq(out)


def is_trivial_body(fnode):
    for st in fnode.body:
        if isinstance(st, ast.Pass):
            continue
        if isinstance(st, ast.Expr) and isinstance(st.value, ast.Constant):
            continue
        return False
    return True


def _minus_one(t):
    """t == u + 1 (syntactically, after simplification) -> u"""
    if z3.is_int_value(t):
        return None
    if z3.is_app(t) and t.decl().kind() == z3.Z3_OP_ADD:
        ch = t.children()
        consts = [c for c in ch if z3.is_int_value(c)]
        if len(consts) == 1 and consts[0].as_long() == 1:
            rest = [c for c in ch if not z3.is_int_value(c)]
            return rest[0] if len(rest) == 1 else z3.Sum(rest)
    return None


def _plus_one(t):
    """t == u - 1 (syntactically, after simplification) -> u"""
    if z3.is_int_value(t):
        return None
    if z3.is_app(t) and t.decl().kind() == z3.Z3_OP_ADD:
        ch = t.children()
        consts = [c for c in ch if z3.is_int_value(c)]
        if len(consts) == 1 and consts[0].as_long() == -1:
            rest = [c for c in ch if not z3.is_int_value(c)]
            return rest[0] if len(rest) == 1 else z3.Sum(rest)
    return None


def static_seq_items(t):
    """items of a sequence term of statically known length, else None"""
    if z3.is_app(t):
        k = t.decl().kind()
        if k == z3.Z3_OP_SEQ_EMPTY:
            return []
        if k == z3.Z3_OP_SEQ_UNIT:
            return [t.arg(0)]
        if k == z3.Z3_OP_SEQ_CONCAT:
            out = []
            for ch in t.children():
                sub = static_seq_items(ch)
                if sub is None:
                    return None
                out.extend(sub)
            return out
    return None


def BoundOrField(eng, obj, attr):
    return SV(eng.get_field(eng.refof(obj), attr), None)


_set_card = z3.Function("set_card", SetMap, I)
_seq_to_set = z3.Function("seq_to_set", SeqV, SetMap)
_sorted_keys = z3.Function("sorted_keys", KwMap, SeqV)
_hist_len = z3.Function("hist_len", Hist, I)
_str_encode = z3.Function("str_encode", S, SeqV, S)
_bytes_decode = z3.Function("bytes_decode", S, SeqV, S)


deliver = z3.Function("deliver", so.HistArr, SeqV, Event, I, so.HistArr)


def deliver_axioms():
    H = z3.Const("dH", so.HistArr)
    s_ = z3.Const("ds", SeqV)
    e = z3.Const("de", Event)
    i = z3.Int("di")
    prev = deliver(H, s_, e, i)
    r = Val.r(s_[i])
    return [
        z3.ForAll([H, s_, e], deliver(H, s_, e, 0) == H),
        z3.ForAll([H, s_, e, i], z3.Implies(z3.And(i >= 0, i < z3.Length(s_)),
                  deliver(H, s_, e, i + 1) == z3.Store(prev, r, Hist.snoc(prev[r], e))),
                  patterns=[deliver(H, s_, e, i + 1)]),
    ]


opaque_method = z3.Function("opaque_method", S, SeqV, Val)


sconcat = z3.Function("sconcat", SeqV, S)      # concatenation of a sequence of str values
bconcat = z3.Function("bconcat", SeqV, S)      # concatenation of a sequence of bytes values (as raw strings)


bcp = z3.Function("bcp", SeqV, z3.IntSort(), S)   # concatenation of the first k bytes values of a sequence


def concat_axioms():
    s_ = z3.Const("cs", SeqV)
    x = z3.Const("cx", Val)
    k = z3.Int("ck")
    return [
        z3.ForAll([s_], bcp(s_, 0) == z3.StringVal("")),
        z3.ForAll([s_, k], z3.Implies(z3.And(0 <= k, k < z3.Length(s_)), bcp(s_, k + 1) == z3.Concat(bcp(s_, k), Val.bs(s_[k]))),
                  patterns=[bcp(s_, k + 1)]),
        sconcat(so.EMPTY_SEQ) == z3.StringVal(""),
        z3.ForAll([s_, x], sconcat(z3.Concat(s_, z3.Unit(x))) == z3.Concat(sconcat(s_), Val.s(x))),
        bconcat(so.EMPTY_SEQ) == z3.StringVal(""),
        z3.ForAll([s_, x], bconcat(z3.Concat(s_, z3.Unit(x))) == z3.Concat(bconcat(s_), Val.bs(x))),
    ]


def set_card(m):
    return _set_card(m)


def seq_to_set(s):
    return _seq_to_set(s)


def sorted_keys(m):
    return _sorted_keys(m)


def hist_len(h):
    return _hist_len(h)


def str_encode(s, args):
    return _str_encode(s, args)


def bytes_decode(s, args):
    return _bytes_decode(s, args)
