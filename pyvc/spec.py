"""Sidecar contract registry.  Spec files in /verif/specs call these functions;
all expressions are strings in Python syntax, parsed with ``ast`` and evaluated
by the symbolic evaluator (never executed)."""
import ast


class Contract:
    def __init__(self, target, **kw):
        self.target = target
        self.params = kw.pop("params", {})          # name -> type tag
        self.requires = list(kw.pop("requires", []))
        self.ensures = list(kw.pop("ensures", []))
        self.exsures = kw.pop("exsures", None)      # None: must not raise (noraise obligation)
        self.modifies = list(kw.pop("modifies", []))  # frame: list of location specs
        self.loops = kw.pop("loops", {})            # ordinal -> dict(invariant=[...], decreases=...)
        self.inline = kw.pop("inline", False)
        self.props = list(kw.pop("props", []))
        self.context = kw.pop("context", {})        # name -> expr (evaluated in pre-state), visible to callee shape contracts
        self.returns = kw.pop("returns", None)      # type tag of result
        self.pure = kw.pop("pure", False)           # modifies nothing pre-existing
        self.noalloc = kw.pop("noalloc", False)     # allocates nothing
        self.frame_hist = kw.pop("frame_hist", False)  # also prove the frame of the ghost call histories
        self.labels = kw.pop("labels", {})          # index -> label for ensures clauses
        self.assumed = kw.pop("assumed", False)     # library / shape contract: never verified, listed as trusted
        self.signature = kw.pop("signature", None)  # for shape methods: 'test, err=None, details=None'
        self.event = kw.pop("event", None)          # for shape sink methods: True => appends a call event
        self.witness = kw.pop("witness", {})        # name -> expr, evaluated in counter-models for replay
        self.note = kw.pop("note", "")
        self.ghost_params = kw.pop("ghost_params", {})   # extra universally quantified ghost inputs: name -> tag
        self.locals = kw.pop("locals", {})          # local name -> type tag (hints)
        self.cover = kw.pop("cover", True)
        self.total = kw.pop("total", False)         # shape __getattr__: every method name exists
        self.model = kw.pop("model", None)       # assumed OPERATIONAL model of a library method: Python source executed symbolically
        self.value = kw.pop("value", None)       # the result IS this spec expression (functional contract): no fresh result symbol
        self.optional = kw.pop("optional", False)  # shape method present only as a capability has(obj, name)
        self.local_tags = kw.pop("local_tags", {})  # local variable -> tag, applied when an untyped container is assigned to it
        self.field_tags = kw.pop("field_tags", {})  # field name -> tag, overriding the class table for this target only
        self.only_paths = kw.pop("only_paths", None)
        if kw:
            raise TypeError("unknown contract keys %r for %s" % (sorted(kw), target))


class Registry:
    def __init__(self):
        self.contracts = {}      # target -> Contract
        self.fields = {}         # class name -> {field: tag}
        self.shapes = {}         # shape name -> {method: Contract}
        self.shape_bases = {}
        self.functions = {}      # spec function name -> (arg sorts, result sort)
        self.axioms = []         # (name, vars {name: sort}, expr)
        self.link_axioms = set()
        self.lib_values = {}         # dotted library name -> python constant
        self.shared_state = {}       # "module.NAME" -> why reading this module-level mutable object as an opaque value is sound for the contracts
        self.type_aliases = {}       # annotation name -> shape (used for `xs: List["Name"] = []`)
        self.axiom_patterns = {}
        self.inline_closure_args = set()   # targets executed inline (contract not used) when a local closure is passed to them
        self.lemmas = []         # (name, props, vars, assumes, goal)
        self.defs = {}           # spec macro name -> (params, expr)
        self.inline = set()      # targets inlined at call sites
        self.inline_fresh = set()  # targets whose real body is executed when the receiver was built on the current path
        self.scans = []          # mechanical scans: (name, props, callable)
        self.truthy_classes = set()
        self.findings = []

    # ---- declarations ----------------------------------------------------
    def contract(self, target, **kw):
        c = Contract(target, **kw)
        self.contracts[target] = c
        return c

    def library(self, target, **kw):
        kw["assumed"] = True
        return self.contract("lib:" + target, **kw)

    def shape(self, name, bases=(), **methods):
        self.shapes.setdefault(name, {})
        self.shape_bases[name] = list(bases)
        for mname, kw in methods.items():
            kw = dict(kw)
            kw["assumed"] = True
            self.shapes[name][mname] = Contract("shape:%s.%s" % (name, mname), **kw)

    def fields_of(self, cls, **fields):
        self.fields.setdefault(cls, {}).update(fields)

    def function(self, name, args, result):
        self.functions[name] = (list(args), result)

    def axiom(self, name, vars, expr, link=False, patterns=None):
        """link=True: an axiom relating two definitions; it joins a problem only when ALL the functions it mentions occur there"""
        self.axioms.append((name, dict(vars), expr))
        if link:
            self.link_axioms.add(name)
        if patterns:
            self.axiom_patterns[name] = list(patterns)   # instantiation triggers (spec expressions over the axiom's variables)

    def lemma(self, name, props, vars, assumes, goal, induction=None, background=True):
        self.lemmas.append(dict(name=name, props=list(props), vars=dict(vars), assumes=list(assumes), goal=goal, induction=induction,
                                background=background))

    def define(self, name, params, expr):
        self.defs[name] = (list(params), expr)

    def inline_fn(self, *targets):
        self.inline.update(targets)

    def inline_when_fresh(self, *targets):
        self.inline_fresh.update(targets)

    def scan(self, name, props, fn):
        self.scans.append((name, list(props), fn))

    # ---- lookup -----------------------------------------------------------
    def shape_method(self, shape, mname):
        seen = set()
        todo = [shape]
        while todo:
            s = todo.pop(0)
            if s in seen:
                continue
            seen.add(s)
            ms = self.shapes.get(s, {})
            if mname in ms:
                return ms[mname]
            todo.extend(self.shape_bases.get(s, []))
        return None

    def field_tag(self, clsnames, field):
        for cn in clsnames:
            t = self.fields.get(cn, {}).get(field)
            if t is not None:
                return t
        return None


def parse_expr(s):
    return ast.parse(s.strip(), mode="eval").body


def parse_tag(tag):
    """'list[Matcher]' -> ('list', 'Matcher'); '?T' -> ('opt', T); 'T' -> (T, None)"""
    if tag is None:
        return (None, None)
    tag = tag.strip()
    if tag.startswith("?"):
        return ("opt", tag[1:])
    if tag.startswith("("):
        return ("ftuple", tag)     # fixed-arity tuple with per-position tags
    if "[" in tag and tag.endswith("]"):
        head, _, rest = tag.partition("[")
        return (head, rest[:-1])
    return (tag, None)
