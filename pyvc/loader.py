"""Load the real source of /repo/testtools with ``ast`` (every run) and build the
class table: bases, methods, class-level assignments, C3 MRO over repo classes.
Nothing is imported or executed; the AST of the file on disk is the verified text."""
import ast
import hashlib
import os

REPO = os.environ.get("VERIF_REPO", "/repo")


class ModuleInfo:
    def __init__(self, name, path):
        self.name = name
        self.path = path
        self.src = open(path, encoding="utf-8").read()
        self.sha256 = hashlib.sha256(self.src.encode()).hexdigest()
        self.tree = ast.parse(self.src, filename=path)
        self.functions = {}      # name -> FunctionDef
        self.classes = {}        # name -> ClassInfo
        self.assigns = {}        # name -> ast expr (module-level simple assignments)
        self.imports = {}        # local name -> (module, attr|None)
        self._scan()

    def _resolve_rel(self, level, module):
        parts = self.name.split(".")
        is_pkg = os.path.basename(self.path) == "__init__.py"
        base = parts if is_pkg else parts[:-1]
        if level > 1:
            base = base[: len(base) - (level - 1)]
        return ".".join(base + ([module] if module else []))

    def _scan(self):
        def scan_body(body):
            for node in body:
                if isinstance(node, ast.FunctionDef):
                    self.functions[node.name] = node
                elif isinstance(node, ast.ClassDef):
                    self.classes[node.name] = ClassInfo(self, node)
                elif isinstance(node, ast.Assign):
                    for t in node.targets:
                        if isinstance(t, ast.Name):
                            self.assigns[t.id] = node.value
                elif isinstance(node, ast.ImportFrom):
                    mod = self._resolve_rel(node.level, node.module) if node.level else node.module
                    for a in node.names:
                        self.imports[a.asname or a.name] = (mod, a.name)
                elif isinstance(node, ast.Import):
                    for a in node.names:
                        self.imports[(a.asname or a.name).split(".")[0]] = (a.name if a.asname else a.name.split(".")[0], None)
                elif isinstance(node, (ast.If, ast.Try)):
                    scan_body(node.body)
                    for h in getattr(node, "handlers", []):
                        scan_body(h.body)
                    scan_body(getattr(node, "orelse", []))
        scan_body(self.tree.body)


class ClassInfo:
    def __init__(self, module, node):
        self.module = module
        self.node = node
        self.name = node.name
        self.qual = module.name + ":" + node.name
        self.methods = {}        # name -> FunctionDef
        self.decorators = {}     # name -> list of decorator names
        self.assigns = {}        # class-level assignments name -> ast expr
        self.properties = {}     # name -> (getter FunctionDef|None, setter FunctionDef|None)
        self.subscript_assigns = {}  # class-level dict name -> [(const key, value expr)]
        self.base_exprs = node.bases
        self.bases = []          # resolved ClassInfo or str (external)
        self.mro = None
        for n in node.body:
            if isinstance(n, ast.FunctionDef):
                decs = [ast.unparse(d) for d in n.decorator_list]
                self.decorators[n.name] = decs
                if "property" in decs:
                    self.properties[n.name] = (n, None)
                elif any(d.endswith(".setter") for d in decs):
                    g = self.properties.get(n.name, (None, None))[0]
                    self.properties[n.name] = (g, n)
                else:
                    self.methods[n.name] = n
            elif isinstance(n, ast.Assign):
                for t in n.targets:
                    if isinstance(t, ast.Subscript) and isinstance(t.value, ast.Name) and isinstance(t.slice, ast.Constant):
                        # _policies["route_code_prefix"] = _map_route_code_prefix   (class-level dispatch table)
                        self.subscript_assigns.setdefault(t.value.id, []).append((t.slice.value, n.value))
                    if isinstance(t, ast.Name):
                        self.assigns[t.id] = n.value
                        v = n.value
                        if isinstance(v, ast.Call) and isinstance(v.func, ast.Name) and v.func.id == "property":
                            g = s = None
                            if len(v.args) > 0 and isinstance(v.args[0], ast.Name):
                                g = self.methods.get(v.args[0].id)
                            if len(v.args) > 1 and isinstance(v.args[1], ast.Name):
                                s = self.methods.get(v.args[1].id)
                            self.properties[t.id] = (g, s)
                        elif isinstance(v, ast.Name) and v.id in self.methods:
                            # alias: addFailure = addError
                            self.methods[t.id] = self.methods[v.id]

    def __repr__(self):
        return "<class %s>" % self.qual


class Repo:
    def attr_assign_sites(self):
        """attribute name -> ['module:line'] of every `<expr>.name = ...` / `<expr>.name += ...` in the repository (tests excluded)"""
        if getattr(self, "_attr_sites", None) is None:
            out = {}
            for m in self.modules.values():
                for n in ast.walk(m.tree):
                    if isinstance(n, (ast.Assign, ast.AugAssign, ast.AnnAssign)):
                        for t in (n.targets if isinstance(n, ast.Assign) else [n.target]):
                            if isinstance(t, ast.Attribute):
                                out.setdefault(t.attr, []).append("%s:%d" % (m.name, n.lineno))
            self._attr_sites = out
        return self._attr_sites

    def __init__(self, root=None):
        self.root = root or REPO
        self.modules = {}
        self.class_by_name = {}   # simple name -> [ClassInfo]
        self.class_by_qual = {}
        pkg = os.path.join(self.root, "testtools")
        for dirpath, dirnames, filenames in os.walk(pkg):
            dirnames[:] = [d for d in dirnames if d not in ("tests", "__pycache__")]
            for fn in sorted(filenames):
                if not fn.endswith(".py"):
                    continue
                path = os.path.join(dirpath, fn)
                rel = os.path.relpath(path, self.root)[:-3].replace(os.sep, ".")
                if rel.endswith(".__init__"):
                    rel = rel[: -len(".__init__")]
                try:
                    self.modules[rel] = ModuleInfo(rel, path)
                except SyntaxError as e:   # a broken tree is a checker fault, reported by the caller
                    raise
        for m in self.modules.values():
            for c in m.classes.values():
                self.class_by_name.setdefault(c.name, []).append(c)
                self.class_by_qual[c.qual] = c
        for m in self.modules.values():
            for c in m.classes.values():
                c.bases = [self._resolve_base(m, b) for b in c.base_exprs]
        for c in self.class_by_qual.values():
            self._mro(c)

    # ---- name resolution -------------------------------------------------
    def lookup(self, module, name, _depth=0):
        """Resolve a global name in a module to ('class', ClassInfo) | ('func', module, FunctionDef)
        | ('assign', module, expr) | ('module', name) | ('ext', dotted) | None."""
        if _depth > 8:
            return None
        if name in module.classes:
            return ("class", module.classes[name])
        if name in module.functions:
            return ("func", module, module.functions[name])
        if name in module.imports:
            mod, attr = module.imports[name]
            if attr is None:
                return ("module", mod)
            target = self.modules.get(mod)
            if target is not None:
                r = self.lookup(target, attr, _depth + 1)
                if r is not None:
                    return r
                sub = self.modules.get(mod + "." + attr)
                if sub is not None:
                    return ("module", mod + "." + attr)
                return None
            return ("ext", "%s.%s" % (mod, attr))
        if name in module.assigns:
            v = module.assigns[name]
            if isinstance(v, ast.Name) and v.id != name:
                r = self.lookup(module, v.id, _depth + 1)
                if r is not None:
                    return r
            return ("assign", module, v)
        return None

    def _resolve_base(self, module, expr):
        if isinstance(expr, ast.Name):
            r = self.lookup(module, expr.id)
            if r and r[0] == "class":
                return r[1]
            if r and r[0] == "ext":
                return r[1]
            return expr.id
        return ast.unparse(expr)

    def _mro(self, c):
        if c.mro is not None:
            return c.mro
        seqs = []
        for b in c.bases:
            if isinstance(b, ClassInfo):
                seqs.append(list(self._mro(b)))
            else:
                seqs.append([b])
        seqs.append(list(c.bases))
        res = [c]
        seqs = [s for s in seqs if s]
        while seqs:
            for s in seqs:
                cand = s[0]
                if not any(cand in t[1:] for t in seqs):
                    break
            else:
                raise TypeError("inconsistent MRO for %s" % c.qual)
            res.append(cand)
            seqs = [[x for x in s if x is not cand and x != cand] for s in seqs]
            seqs = [s for s in seqs if s]
        c.mro = res
        return res

    def find_class(self, name):
        """name: 'module:Class' or simple 'Class' (must be unique)."""
        if ":" in name:
            return self.class_by_qual.get(name)
        cs = self.class_by_name.get(name, [])
        if len(cs) == 1:
            return cs[0]
        return None

    def find_method(self, cls, name, after=None):
        """Resolve method through the MRO. ``after``: start after that class (super())."""
        mro = cls.mro
        start = 0
        if after is not None:
            start = mro.index(after) + 1
        for k in mro[start:]:
            if isinstance(k, ClassInfo):
                if name in k.methods:
                    return k, k.methods[name]
                if name in k.properties:
                    return k, ("property", k.properties[name])
            else:
                return k, None     # external base: library leaf
        return None, None

    def find_function(self, target):
        """target 'testtools.mod:func' or 'testtools.mod:Class.method' -> (module, ClassInfo|None, FunctionDef)."""
        modname, _, qual = target.partition(":")
        m = self.modules.get(modname)
        if m is None:
            return None
        if ".<" in qual:
            # nested function: 'outer.<inner>' or 'Class.method.<inner>'
            outer_q, _, inner = qual.partition(".<")
            inner = inner.rstrip(">")
            found = self.find_function(modname + ":" + outer_q)
            if found is None:
                return None
            for n in ast.walk(found[2]):
                if isinstance(n, ast.FunctionDef) and n.name == inner and n is not found[2]:
                    return (found[0], found[1], n)
            return None
        if "." in qual:
            cn, mn = qual.split(".", 1)
            c = m.classes.get(cn)
            if c is None:
                return None
            if mn in c.methods:
                return (m, c, c.methods[mn])
            if mn in c.properties:
                g, s = c.properties[mn]
                return (m, c, g)
            if mn.endswith("$set") and mn[:-4] in c.properties:
                return (m, c, c.properties[mn[:-4]][1])
            return None
        f = m.functions.get(qual)
        if f is None:
            return None
        return (m, None, f)
