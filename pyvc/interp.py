"""Statements and expressions."""
import ast
import os
import z3

from . import sorts as so
from .sorts import Val, I, B, S, SeqV, KwMap, SetMap, Event, Hist, GEvent, GHist
from .values import *
from .spec import parse_expr, parse_tag
from .loader import ClassInfo
from .symex import (Engine, Unsupported, SpecError, PathEnd, PyRaise, PyReturn, PyBreak, PyContinue,
                    Frame, State, EXC_BASES, BUILTIN_KINDS, has_quantifier)

BUILTIN_FUNCS = {
    "len", "isinstance", "issubclass", "getattr", "hasattr", "setattr", "set", "frozenset", "list", "tuple", "dict",
    "bool", "str", "repr", "sorted", "zip", "map", "any", "all", "min", "max", "sum", "range", "type", "id",
    "callable", "object", "super", "iter", "next", "int", "enumerate", "reversed", "bytes", "property", "print",
    "filter", "format", "vars", "dir", "hash", "delattr", "ghost_new", "is_shape",
}
BUILTIN_CLASSES = {"str", "bytes", "int", "bool", "dict", "list", "tuple", "set", "frozenset", "object", "type", "float"}


IMMUTABLE_MODULE_CTORS = ("frozenset", "tuple", "namedtuple", "datetime.timedelta", "getattr", "try_import", "str", "int", "object",
                          "collections.namedtuple", "re.compile")


class Interp(Engine):

    # ------------------------------------------------------------------ names
    @property
    def frame(self):
        return self.st.frames[-1]

    def lookup_name(self, name, node=None):
        for env in reversed(self.spec_envs):
            if name in env:
                return env[name]
        if self.st.frames:
            fr = self.frame
            if name in fr.locals:
                return fr.locals[name]
            f = fr.func
            if f is not None and f.env is not None and name in f.env:
                return f.env[name]
            mod = f.module if f is not None else None
        else:
            mod = None
        if mod is None:
            mod = self.cur_module
        if mod is not None and (mod.name, name) in self.global_overrides:
            return self.global_overrides[(mod.name, name)]
        if mod is not None:
            r = self.repo.lookup(mod, name)
            if r is not None:
                return self.global_value(r, name, node)
        if name in self.reg.functions or name in self.reg.defs or name in SPEC_BUILTINS or (self.spec_mode and hasattr(self, "sp_" + name)):
            return SpecFn(name)
        if name in BUILTIN_FUNCS or ("lib:" + name) in self.reg.contracts:
            return BuiltinV(name)
        if name in EXC_BASES or name in ("BaseException",):
            return ClassV(ext=name)
        if name in BUILTIN_CLASSES:
            return BuiltinV(name)
        if self.spec_mode:
            ci = self.repo.find_class(name)
            if ci is not None:
                return ClassV(ci)
        self.unsupported(node, "unknown name %r" % name)

    def global_value(self, r, name, node=None):
        kind = r[0]
        if kind == "class":
            return ClassV(r[1])
        if kind == "func":
            return FuncV(r[2], r[1], None, None)
        if kind == "module":
            return ModuleV(r[1])
        if kind == "ext":
            dotted = r[1]
            last = dotted.split(".")[-1]
            if dotted in ("operator.methodcaller",):
                return BuiltinV("methodcaller")
            if last in EXC_BASES:
                return ClassV(ext=last)
            return ExtV(dotted)
        if kind == "assign":
            mod, expr = r[1], r[2]
            if isinstance(expr, ast.Call) and isinstance(expr.func, ast.Name) and expr.func.id == "try_import" \
                    and len(expr.args) == 1 and isinstance(expr.args[0], ast.Constant):
                return ModuleV(expr.args[0].value)       # optional dependency, present in this environment
            key = (mod.name, name)
            if isinstance(expr, ast.Call) and not (isinstance(expr.func, ast.Name) and expr.func.id in mod.classes):
                fn = ast.unparse(expr.func)
                if fn not in IMMUTABLE_MODULE_CTORS and self.repo.lookup(mod, fn.split(".")[0]) is not None \
                        and self.repo.lookup(mod, fn.split(".")[0])[0] in ("ext", "module") and ("%s.%s" % key) not in self.reg.shared_state:
                    # X = unittest.TestSuite() at module level: one mutable object shared by every call -- not a constant
                    self.unsupported(node, "module-level object %s.%s = %s is shared mutable state (not modelled)" % (mod.name, name, ast.unparse(expr)[:60]))
            if key not in self.global_cache:
                self.global_cache[key] = self.eval_const(expr, mod, node)
            return self.global_cache[key]
        self.unsupported(node, "global %r" % (r,))

    def eval_const(self, expr, mod, node=None):
        """evaluate a module/class-level initialiser as a pure value"""
        saved = (self.spec_mode, self.cur_module)
        # a module constant built by instantiating a repo class (UTF8_TEXT = ContentType(...)) is created as a real object
        is_ctor = isinstance(expr, ast.Call) and isinstance(expr.func, ast.Name) and expr.func.id in mod.classes
        if is_ctor:
            self.spec_mode = 0
        else:
            self.spec_mode += 1
        self.cur_module = mod
        frames = self.st.frames
        self.st.frames = []
        try:
            return self.ev(expr)
        finally:
            self.spec_mode, self.cur_module = saved
            self.st.frames = frames

    # ------------------------------------------------------------- statements
    def exec_block(self, stmts):
        for s in stmts:
            self.exec_stmt(s)

    def exec_stmt(self, node):
        m = getattr(self, "st_" + type(node).__name__, None)
        if m is None:
            self.unsupported(node, "statement " + type(node).__name__)
        return m(node)

    def st_Pass(self, node):
        pass

    def st_Expr(self, node):
        if isinstance(node.value, ast.Constant):
            return
        self.ev(node.value)

    def st_Global(self, node):
        for n in node.names:
            self.frame.locals.pop(n, None)
            self.frame.globals_declared = getattr(self.frame, "globals_declared", set()) | {n}

    def st_Nonlocal(self, node):
        self.unsupported(node, "nonlocal")

    def st_Import(self, node):
        for a in node.names:
            self.frame.locals[(a.asname or a.name).split(".")[0]] = ModuleV(a.name)

    def st_ImportFrom(self, node):
        mod = self.frame.func.module
        base = mod._resolve_rel(node.level, node.module) if node.level else node.module
        target = self.repo.modules.get(base)
        for a in node.names:
            nm = a.asname or a.name
            if nm in getattr(self.frame, "globals_declared", ()):
                # `global X; from m import X`: rebinds the module global for the rest of the path
                if target is not None:
                    r = self.repo.lookup(target, a.name)
                    if r is not None:
                        self.global_overrides[(mod.name, nm)] = self.global_value(r, a.name, node)
                continue
            if target is not None:
                r = self.repo.lookup(target, a.name)
                if r is None:
                    self.unsupported(node, "import of unknown name")
                self.frame.locals[nm] = self.global_value(r, a.name, node)
            else:
                last = a.name
                self.frame.locals[nm] = ClassV(ext=last) if last in EXC_BASES else ExtV(base + "." + a.name)

    def st_FunctionDef(self, node):
        fr = self.frame
        env = dict(fr.func.env or {}) if fr.func is not None else {}
        env_view = ChainEnv(fr.locals, env)
        self.frame.locals[node.name] = FuncV(node, fr.func.module, fr.func.cls, env_view, node.name)

    def st_Return(self, node):
        raise PyReturn(self.ev(node.value) if node.value is not None else SV(Val.none, "none"))

    def st_Break(self, node):
        raise PyBreak()

    def st_Continue(self, node):
        raise PyContinue()

    def st_Assert(self, node):
        c = self.truthy(self.ev(node.test), node)
        if not self.branch(c, "assert L%d" % node.lineno):
            self.raise_builtin("AssertionError", node)

    def st_Raise(self, node):
        if node.exc is None:
            e = self.frame.cur_exc
            if e is None:
                self.unsupported(node, "bare raise outside handler")
            raise PyRaise(e)
        v = self.ev(node.exc)
        if isinstance(v, ClassV):
            v = self.instantiate(v, [], {}, node)
        if not isinstance(v, SV):
            self.unsupported(node, "raise of %r" % (v,))
        raise PyRaise(v, note="raise at L%d" % node.lineno)

    def st_Delete(self, node):
        for t in node.targets:
            if isinstance(t, ast.Name):
                self.frame.locals.pop(t.id, None)
            elif isinstance(t, ast.Subscript):
                obj = self.ev(t.value)
                if isinstance(t.slice, ast.Slice):
                    seq = self.as_seq(obj, node)
                    lo, hi = self.slice_bounds(t.slice, seq, node)
                    n = z3.Length(seq)
                    new = z3.Concat(z3.SubSeq(seq, 0, lo), z3.SubSeq(seq, hi, n - hi))
                    self.set_list(obj, new)
                elif isinstance(obj, SV) and parse_tag(obj.ty)[0] == "dict":
                    # del d[k]: KeyError when absent
                    m = self.dict_of(obj)
                    key = self.to_term(self.ev(t.slice), node)
                    if not self.branch(m[key] != Val.absent, "del present L%d" % node.lineno):
                        self.raise_builtin("KeyError", node)
                    self.set_dict(obj, z3.Store(m, key, Val.absent))
                else:
                    self.unsupported(node, "del subscript")
            elif isinstance(t, ast.Attribute):
                obj = self.ev(t.value)
                self.set_field(self.refof(obj, node), self.mangle(t.attr), Val.absent)
            else:
                self.unsupported(node, "del target")

    def st_If(self, node):
        c = self.truthy(self.ev(node.test), node.test)
        narrow = self._isinstance_pattern(node.test)
        if self.branch(c, "if L%d" % node.lineno):
            if narrow and narrow[2]:
                self._narrow(narrow[0], narrow[1])
            self.exec_block(node.body)
        else:
            if narrow and not narrow[2]:
                self._narrow(narrow[0], narrow[1])
            self.exec_block(node.orelse)
            if narrow and not narrow[2] and not node.orelse:
                pass

    def _isinstance_pattern(self, test):
        """(local name, builtin type name, polarity) for `isinstance(x, T)` / `not isinstance(x, T)` on a local variable"""
        pol = True
        if isinstance(test, ast.UnaryOp) and isinstance(test.op, ast.Not):
            pol = False
            test = test.operand
        if isinstance(test, ast.Call) and isinstance(test.func, ast.Name) and test.func.id == "isinstance" and len(test.args) == 2 \
                and isinstance(test.args[0], ast.Name) and isinstance(test.args[1], ast.Name) and test.args[1].id in ("str", "bytes", "int", "dict", "list"):
            return (test.args[0].id, test.args[1].id, pol)
        return None

    def _narrow(self, name, tyname):
        v = self.frame.locals.get(name)
        if isinstance(v, SV) and parse_tag(v.ty)[0] in (None, "any", "opt"):
            self.frame.locals[name] = SV(v.term, tyname)

    def st_Assign(self, node):
        v = self.ev(node.value)
        lt = getattr(self.current_contract, "local_tags", None) if len(self.st.frames) == 1 else None
        if lt and isinstance(v, SV) and len(node.targets) == 1 and isinstance(node.targets[0], ast.Name) and node.targets[0].id in lt \
                and v.ty in ("list", "dict", "set", None, "any"):
            if v.ty in (None, "any"):
                self.assume_typed(v.term, lt[node.targets[0].id])      # a value of unknown type: the tag is an assumption about it
            v = SV(v.term, lt[node.targets[0].id])      # trusted typing of a local container, from the contract
        for t in node.targets:
            self.assign(t, v, node)

    def st_AnnAssign(self, node):
        if node.value is not None:
            v = self.ev(node.value)
            a = node.annotation
            # `xs: List["Failure"] = []`: the annotation names the element type (trusted typing, via the registry's aliases)
            if isinstance(v, SV) and v.ty == "list" and isinstance(a, ast.Subscript) and isinstance(a.value, ast.Name) \
                    and a.value.id in ("List", "list") and isinstance(a.slice, ast.Constant) and a.slice.value in self.reg.type_aliases:
                v = SV(v.term, "list[%s]" % self.reg.type_aliases[a.slice.value])
            self.assign(node.target, v, node)

    def st_AugAssign(self, node):
        cur = self.ev(_load(node.target))
        rhs = self.ev(node.value)
        if isinstance(node.op, ast.Add) and isinstance(cur, SV) and parse_tag(cur.ty)[0] == "list":
            self.set_list(cur, z3.Concat(self.list_of(cur), self.as_seq(rhs, node)))
            return
        if isinstance(node.op, (ast.Sub, ast.BitOr, ast.BitAnd, ast.BitXor)) and isinstance(cur, SV):
            k = parse_tag(cur.ty)[0]
            if k == "opt":
                k = parse_tag(parse_tag(cur.ty)[1])[0]
            in_place = None
            if k == "set":
                in_place = True
            elif k == "anyset":
                in_place = self.branch(so.typeof(self.refof(cur)) == self.cids.cid("set"), "augassign on mutable set L%d" % node.lineno)
            if in_place:
                # s -= t, s |= t, s &= t on a mutable set update the object itself
                ma, mb = self.setmap_of(cur), self.as_setmap(rhs, node)
                op = {ast.Sub: set_diff, ast.BitOr: set_union, ast.BitAnd: set_inter}.get(type(node.op))
                if op is None:
                    self.unsupported(node, "^= on set")
                self.set_setmap(cur, op(ma, mb))
                return
        v = self.binop(node.op, cur, rhs, node)
        self.assign(node.target, v, node)

    def assign(self, target, v, node):
        if isinstance(target, ast.Name):
            if target.id in getattr(self.frame, "globals_declared", ()):
                self.unsupported(node, "assignment to global")
            self.frame.locals[target.id] = v
        elif isinstance(target, (ast.Tuple, ast.List)):
            items = self.unpack(v, len(target.elts), node)
            for t, x in zip(target.elts, items):
                self.assign(t, x, node)
        elif isinstance(target, ast.Attribute):
            obj = self.ev(target.value)
            self.set_attr(obj, target.attr, v, node)
        elif isinstance(target, ast.Subscript):
            obj = self.ev(target.value)
            self.set_item(obj, target.slice, v, node)
        else:
            self.unsupported(node, "assignment target")

    def unpack(self, v, n, node):
        if isinstance(v, TupV):
            if len(v.items) != n:
                self.raise_builtin("ValueError", node)
            return v.items
        if isinstance(v, (SV, PSeq)):
            seq = self.as_seq(v, node)
            et = self.elem_tag(v)
            tags = [et] * n
            if et and et.startswith("(") and isinstance(v, SV) and parse_tag(v.ty)[0] == "ftuple":
                tags = _split_tags(et)
                if len(tags) == n:
                    self.assume(z3.Length(seq) == n)     # fixed-arity tuple (trusted typing)
            ok = z3.Length(seq) == n
            if not self.branch(ok, "unpack L%d" % getattr(node, "lineno", 0)):
                self.raise_builtin("ValueError", node)
            return [self.from_term(seq[i], tags[i] if i < len(tags) else None) for i in range(n)]
        self.unsupported(node, "unpack of %r" % (v,))

    def mangle(self, attr):
        if attr.startswith("__") and not attr.endswith("__"):
            cls = self.frame.func.cls if self.st.frames and self.frame.func is not None else None
            if cls is None and self.spec_cls is not None:
                cls = self.spec_cls
            if cls is not None:
                return "_%s%s" % (cls.name.lstrip("_"), attr)
        return attr

    # ---------------------------------------------------------------- try/with
    def st_Try(self, node):
        if node.finalbody:
            try:
                self._try_core(node)
            except (PyRaise, PyReturn, PyBreak, PyContinue) as out:
                self.exec_block(node.finalbody)
                raise out
            self.exec_block(node.finalbody)
        else:
            self._try_core(node)

    def _try_core(self, node):
        try:
            self.exec_block(node.body)
        except PyRaise as r:
            if not node.handlers:
                raise
            for h in node.handlers:
                if h.type is None:
                    m = z3.BoolVal(True)
                else:
                    m = self.isinstance_term(r.exc, self.ev(h.type), h)
                if self.branch(m, "except L%d" % h.lineno):
                    saved = self.frame.cur_exc
                    self.frame.cur_exc = r.exc
                    if h.name:
                        bound = r.exc
                        if h.type is not None:
                            hv = self.ev(h.type)
                            if isinstance(hv, ClassV) and hv.info is not None and isinstance(bound, SV):
                                bound = SV(bound.term, hv.info.name)     # `except C as e`: e is (at least) a C
                        self.frame.locals[h.name] = bound
                    try:
                        self.exec_block(h.body)
                    finally:
                        self.frame.cur_exc = saved
                    return
            raise
        else:
            self.exec_block(node.orelse)

    def st_With(self, node):
        # with a as x: body  ==  x = a.__enter__(); try: body; except: if not a.__exit__(exc): raise; else: a.__exit__(None)
        if len(node.items) != 1:
            self.unsupported(node, "with (multiple items)")
        item = node.items[0]
        mgr = self.ev(item.context_expr)
        enter = self.get_attr(mgr, "__enter__", node)
        x = self.call_value(enter, [], {}, node)
        if item.optional_vars is not None:
            self.assign(item.optional_vars, x, node)
        exit_ = self.get_attr(mgr, "__exit__", node)
        none = SV(Val.none, "none")
        try:
            self.exec_block(node.body)
        except PyRaise as r:
            t = SV(Val.cls(so.typeof(self.refof(r.exc))), "class")
            sup = self.call_value(exit_, [t, r.exc, SV(so.fresh("tb", Val), "any")], {}, node)
            if self.branch(self.truthy(sup, node), "with-suppress L%d" % node.lineno):
                return
            raise
        except (PyReturn, PyBreak, PyContinue):
            self.call_value(exit_, [none, none, none], {}, node)
            raise
        self.call_value(exit_, [none, none, none], {}, node)

    # ------------------------------------------------------------------- loops
    def st_While(self, node):
        self.loop(node, None, None)

    def st_For(self, node):
        it = self.ev(node.iter)
        if isinstance(it, SV) and parse_tag(it.ty)[0] == "dict" and not self.discovery and self.is_fresh(it):
            # a dict built on this path from literal keys (a small table): iterate its keys in insertion order
            keys_, t_ = [], z3.simplify(self.dict_of(it))
            while z3.is_app(t_) and t_.decl().kind() == z3.Z3_OP_STORE and not _has_uninterp(t_.arg(1)):
                keys_.append(t_.arg(1))
                t_ = t_.arg(0)
            if keys_ and len(keys_) <= 4 and z3.is_const_array(t_) and len({k.get_id() for k in keys_}) == len(keys_):
                it = TupV([self.from_term(k, _lit_tag(k)) for k in reversed(keys_)])
        if isinstance(it, RangeV):
            lo_, hi_ = z3.simplify(it.lo), z3.simplify(it.hi)
            if z3.is_int_value(lo_) and z3.is_int_value(hi_) and hi_.as_long() - lo_.as_long() <= 4:
                it = TupV([SV(Val.intv(z3.IntVal(k)), "int") for k in range(lo_.as_long(), hi_.as_long())])   # constant small range: unrolled
        if isinstance(it, TupV) or (isinstance(it, ZipV) and it.static_len() is not None):
            items = it.items if isinstance(it, TupV) else it.static_items(self)
            broke = False
            for x in items:
                self.assign(node.target, x, node)
                try:
                    self.exec_block(node.body)
                except PyContinue:
                    continue
                except PyBreak:
                    broke = True
                    break
            if not broke:
                self.exec_block(node.orelse)
            return
        if isinstance(it, SV) and parse_tag(it.ty)[0] == "list" and not self.discovery:
            # a list whose contents are statically known on this path (built just before): unroll
            from .calls import static_seq_items
            items = static_seq_items(z3.simplify(self.list_of(it)))
            if items is not None and len(items) <= 4:
                et = self.elem_tag(it)
                broke = False
                for t in items:
                    self.assign(node.target, self.from_term(t, et), node)
                    try:
                        self.exec_block(node.body)
                    except PyContinue:
                        continue
                    except PyBreak:
                        broke = True
                        break
                if not broke:
                    self.exec_block(node.orelse)
                return
        self.loop(node, it, None)

    def iter_seq(self, it, node):
        """(z3 Seq being iterated, element tag)"""
        if isinstance(it, (ZipV, RevV)):
            return it, None
        if isinstance(it, (PSeq,)):
            return it.seq, it.elem
        if isinstance(it, PSet):
            inst = z3.IntVal(node.lineno * 1000 + getattr(node, "col_offset", 0))
            seq = so.set_order(it.m, inst)
            return seq, it.elem
        if isinstance(it, SV):
            kind, arg = parse_tag(it.ty)
            if kind in ("list", "tuple", "ftuple", "seq", "iter"):
                return self.as_seq(it, node), arg
            if kind in ("set", "frozenset", "anyset"):
                m = self.setmap_of(it)
                # an arbitrary order: fresh sequence enumerating exactly the members, without repetition
                seq = so.fresh("order", SeqV)
                self.assume_set_order(seq, m)
                return seq, arg
            if kind == "dict":
                m = self.dict_of(it)
                seq = so.dict_order(m)
                self.assume_dict_order(seq, m)
                return seq, (arg.split(",")[0].strip("( ") if arg else None)
            if kind in self.reg.shapes and not self.spec_mode:
                c = self.reg.shape_method(kind, "__iter__")
                if c is not None:
                    # an abstract iterable: its __iter__ contract returns the (finite) sequence of elements as a list
                    return self.iter_seq(self.apply_contract(c, it, [], {}, node, mname="__iter__"), node)
        self.unsupported(node, "iteration over %r" % (it,))

    def assume_set_order(self, seq, m):
        i, j = z3.Ints("oi oj")
        x = z3.Const("ox", Val)
        n = z3.Length(seq)
        self.assume(z3.ForAll([i], z3.Implies(z3.And(0 <= i, i < n), m[seq[i]])))
        self.assume(z3.ForAll([i, j], z3.Implies(z3.And(0 <= i, i < j, j < n), seq[i] != seq[j])))
        self.assume(z3.ForAll([x], z3.Implies(m[x], z3.Contains(seq, z3.Unit(x)))))
        # the same with an explicit witness: a member sits at position set_pos(seq, x); positions and elements are inverse
        p_ = so.set_pos(seq, x)
        self.assume(z3.ForAll([x], z3.Implies(m[x], z3.And(0 <= p_, p_ < n, seq[p_] == x)), patterns=[p_]))
        self.assume(z3.ForAll([i], z3.Implies(z3.And(0 <= i, i < n), so.set_pos(seq, seq[i]) == i)))
        # a set display {e1, .., ek}: every listed element has a position (ground facts: no instantiation needed)
        elems, t = [], z3.simplify(m)
        while z3.is_app(t) and t.decl().kind() == z3.Z3_OP_STORE and z3.is_true(t.arg(2)):
            elems.append(t.arg(1))
            t = t.arg(0)
        if elems and z3.is_app(t) and t.decl().kind() == z3.Z3_OP_CONST_ARRAY and z3.is_false(t.arg(0)):
            self.assume(n <= len(elems))
            for e in elems:
                pos = so.fresh("pos", so.I)
                self.assume(z3.And(0 <= pos, pos < n, seq[pos] == e))

    def assume_dict_order(self, seq, m):
        i, j = z3.Ints("oi oj")
        x = z3.Const("ox", Val)
        n = z3.Length(seq)
        self.assume(z3.ForAll([i], z3.Implies(z3.And(0 <= i, i < n), m[seq[i]] != Val.absent)))
        self.assume(z3.ForAll([i, j], z3.Implies(z3.And(0 <= i, i < j, j < n), seq[i] != seq[j])))
        self.assume(z3.ForAll([x], z3.Implies(m[x] != Val.absent, z3.Contains(seq, z3.Unit(x)))))
        # the same fact with an explicit witness: a present key sits at position dict_pos(m, key) of the order
        p = so.dict_pos(m, x)
        self.assume(z3.ForAll([x], z3.Implies(m[x] != Val.absent, z3.And(0 <= p, p < n, seq[p] == x)), patterns=[m[x]]))
        # and in the vocabulary of iteration orders in general (pos_in(order, x) in specs)
        q_ = so.set_pos(seq, x)
        self.assume(z3.ForAll([x], z3.Implies(m[x] != Val.absent, z3.And(0 <= q_, q_ < n, seq[q_] == x)), patterns=[q_]))
        self.assume(z3.ForAll([i], z3.Implies(z3.And(0 <= i, i < n), so.set_pos(seq, seq[i]) == i)))

    def loop_spec(self, node):
        f = self.frame.func
        key = self.func_key(f)
        c = self.reg.contracts.get(key)
        ordinal = self.loop_ordinal(f, node)
        if c is None:
            return None, ordinal, key
        return c.loops.get(ordinal), ordinal, key

    def func_key(self, f):
        if f.cls is not None:
            return "%s:%s.%s" % (f.module.name, f.cls.name, f.name)
        return "%s:%s" % (f.module.name, f.name)

    def loop_ordinal(self, f, node):
        loops = [n for n in ast.walk(f.node) if isinstance(n, (ast.For, ast.While))]
        loops.sort(key=lambda n: (n.lineno, n.col_offset))
        return loops.index(node)

    def assigned_names(self, node):
        names = set()
        for n in ast.walk(node):
            if isinstance(n, (ast.Yield, ast.YieldFrom)):
                names.add("_out")
            if isinstance(n, ast.Name) and isinstance(n.ctx, (ast.Store, ast.Del)):
                names.add(n.id)
            elif isinstance(n, ast.ExceptHandler) and n.name:
                names.add(n.name)
        return names

    def havoc_value(self, v, name):
        if isinstance(v, PSeq):
            return PSeq(so.fresh(name, SeqV), v.elem)
        if isinstance(v, SV):
            kind, _ = parse_tag(v.ty)
            if v._b is not None or kind == "bool":
                return SV(Val.boolv(so.fresh(name, B)), "bool")
            if kind == "int":
                return SV(Val.intv(so.fresh(name, I)), "int")
            if kind == "str":
                return SV(Val.strv(so.fresh(name, S)), "str")
            if kind == "none":
                return SV(so.fresh(name, Val), None)
            if kind in ("list", "set", "frozenset", "anyset", "dict") or (kind and kind[0].isupper()):
                return SV(Val.ref(so.fresh(name, I)), v.ty)
            return SV(so.fresh(name, Val), v.ty)
        return SV(so.fresh(name, Val), None)

    def discover_written(self, node, run_body):
        key = id(node)
        if key in self.loop_cache:
            return self.loop_cache[key]
        saved = (self.st, self.solver, self.trace, self.prefix, self.worklist, self.path_notes, getattr(self, "written", None))
        base_fresh = so._fresh[0]
        self.discovery += 1
        written = {}
        try:
            start = self.st.copy()
            start.frames = [Frame(fr.func, dict(fr.locals)) for fr in self.st.frames]
            for fr, fr0 in zip(start.frames, self.st.frames):
                fr.cur_exc = fr0.cur_exc
                if hasattr(fr0, "globals_declared"):
                    fr.globals_declared = fr0.globals_declared
            comps = set(start.heap) | {"$list", "$set", "$dict", "$hist", "$G", "$attrs"}
            for cname in list(comps):
                if cname == "$alloc":
                    continue
                start.heap[cname] = so.fresh("disc_" + cname, self.comp(cname, start).sort())
            names = self.assigned_names(node)
            for nm in names:
                cur = start.frames[-1].locals.get(nm)
                if cur is not None:
                    start.frames[-1].locals[nm] = self.havoc_value(cur, "disc_" + nm)
            work = [[]]
            npaths = 0
            while work:
                npaths += 1
                if npaths > 400:
                    raise Unsupported("%s: loop body has too many paths (discovery)" % self.target_name)
                self.prefix = work.pop()
                self.trace = []
                self.worklist = work
                self.path_notes = []
                self.written = written
                self.st = start.copy()
                self.st.frames = [Frame(fr.func, dict(fr.locals)) for fr in start.frames]
                for fr, fr0 in zip(self.st.frames, start.frames):
                    fr.cur_exc = fr0.cur_exc
                    if hasattr(fr0, "globals_declared"):
                        fr.globals_declared = fr0.globals_declared
                self.solver = z3.Solver()
                for c in self.st.pc:
                    if not has_quantifier(c):
                        self.solver.add(c)
                try:
                    run_body()
                except (PathEnd, PyRaise, PyReturn, PyBreak, PyContinue):
                    pass
        finally:
            self.discovery -= 1
            self.st, self.solver, self.trace, self.prefix, self.worklist, self.path_notes, self.written = saved
        res = {}
        for cname, idxs in written.items():
            stable = []
            ok = True
            for ix in idxs:
                if ix is None or not _stable_term(ix, base_fresh):
                    ok = False
                    break
                stable.append(ix)
            res[cname] = stable if ok else None
        self.loop_cache[key] = res
        return res

    def loop(self, node, it, _):
        is_for = isinstance(node, ast.For)
        spec, ordinal, key = self.loop_spec(node)
        if spec is None and not self.discovery:
            raise Unsupported("%s: loop #%d of %s (line %d) has no invariant in the spec" % (self.target_name, ordinal, key, node.lineno))
        spec = spec or {}
        seq = elem = None
        zipv = None
        if is_for:
            seq, elem = self.iter_seq(it, node.iter)
            if isinstance(seq, (ZipV, RevV)):
                zipv = seq
                seq = None
        fr = self.frame

        def seqlen():
            return zipv.length(self) if zipv is not None else z3.Length(seq)

        def bind_ghost(i_term):
            fr.locals["_i"] = SV(Val.intv(i_term), "int")
            fr.locals["_i%d" % ordinal] = fr.locals["_i"]
            if seq is not None:
                fr.locals["_seq"] = PSeq(seq, elem)
                fr.locals["_seq%d" % ordinal] = fr.locals["_seq"]
            elif isinstance(zipv, EnumV):
                fr.locals["_seq"] = PSeq(zipv.base, zipv.elem)
                fr.locals["_seq%d" % ordinal] = fr.locals["_seq"]

        def run_body_once():
            # used by discovery: one arbitrary iteration
            if is_for:
                i = so.fresh("di", I)
                self.assume(z3.And(0 <= i, i < seqlen()))
                bind_ghost(i)
                self.assign(node.target, zipv.item(self, i) if zipv is not None else self.from_term(seq[i], elem), node)
            else:
                c = self.truthy(self.ev(node.test), node.test)
                if not self.branch(c, "while"):
                    raise PathEnd()
            self.iter_stack.append(dict(self.st.heap))
            self.iter_by_ord[ordinal] = dict(self.st.heap)
            try:
                self.exec_block(node.body)
            finally:
                self.iter_stack.pop()

        ws = self.discover_written(node, run_body_once)
        invs = [parse_expr(s) for s in spec.get("invariant", [])]
        # 1. invariant on entry
        self.entry_by_ord[ordinal] = dict(self.st.heap)      # state at loop entry, for at_entry(k, e)
        if is_for:
            bind_ghost(z3.IntVal(0))
        for k, inv in enumerate(invs):
            self.oblige("inv-entry", self.goal_bool(inv), node, "loop%d.%d" % (ordinal, k))
        # 2. havoc
        for nm in self.assigned_names(node):
            cur = fr.locals.get(nm)
            if cur is not None:
                fr.locals[nm] = self.havoc_value(cur, "h_" + nm)
        for cname, idxs in ws.items():
            if cname == "$alloc":
                continue
            arr = self.comp(cname)
            if cname == "$G":
                self.st.heap[cname] = so.fresh("h_G", GHist)
                continue
            if idxs is None:
                self.st.heap[cname] = so.fresh("h_" + cname, arr.sort())
            else:
                for ix in idxs:
                    arr = z3.Store(arr, ix, so.fresh("h_" + cname, arr.sort().range()))
                self.st.heap[cname] = arr
        if "$alloc" in ws:
            a2 = so.fresh("h_alloc", I)
            self.assume(a2 >= self.comp("$alloc"))
            self.st.heap["$alloc"] = a2
        if is_for:
            i = so.fresh("i", I)
            self.assume(z3.And(0 <= i, i <= seqlen()))
            bind_ghost(i)
        for inv in invs:
            self._assuming = True
            try:
                self.assume(self.spec_bool(inv))
            finally:
                self._assuming = False
        # 3. iterate or exit
        if is_for:
            go = self.branch(i < seqlen(), "loop%d L%d" % (ordinal, node.lineno))
        else:
            go = self.branch(self.truthy(self.ev(node.test), node.test), "loop%d L%d" % (ordinal, node.lineno))
        if go:
            if is_for:
                self.assign(node.target, zipv.item(self, i) if zipv is not None else self.from_term(seq[i], elem), node)
            self.iter_stack.append(dict(self.st.heap))     # state at the start of this iteration, for iter0(...)
            saved_ord = self.iter_by_ord.get(ordinal)
            self.iter_by_ord[ordinal] = dict(self.st.heap)
            try:
                try:
                    self.exec_block(node.body)
                except PyContinue:
                    pass
                except PyBreak:
                    return    # continue after the loop, skipping orelse
                for k, be in enumerate(spec.get("body_ensures", [])):
                    self.oblige("body-post", self.goal_bool(parse_expr(be)), node, "loop%d.%d" % (ordinal, k))
            finally:
                self.iter_stack.pop()
            if is_for:
                bind_ghost(i + 1)
            for k, inv in enumerate(invs):
                self.oblige("inv-preserved", self.goal_bool(inv), node, "loop%d.%d" % (ordinal, k))
            raise PathEnd()
        else:
            if is_for:
                self.assume(i == seqlen())
            self.exec_block(node.orelse)

    # --------------------------------------------------------------- spec eval
    def goal_bool(self, expr, env=None):
        """a specification clause as a GOAL: if evaluating it contradicts the path (a typed heap read in it is false for the value
        actually stored) the clause does not hold as written -- the goal is False, never a silently ended path"""
        n = len(self.st.pc)
        self.solver.push()
        saved_facts = getattr(self, "goal_facts", None)
        self.goal_facts = []
        try:
            g = self.spec_bool(expr, env)
            if self.goal_facts:
                g = z3.And([g] + self.goal_facts)
        except PathEnd:
            self.solver.pop()
            del self.st.pc[n:]
            return z3.BoolVal(False)
        finally:
            self.goal_facts = saved_facts
        new = self.st.pc[n:]
        if new and not self.check_sat():
            # the (conditional) typing facts assumed while reading the heap in this clause are inconsistent with the path: the
            # clause talks about an object of the declared shape and the code stored something else -- not a vacuous pass
            self.solver.pop()
            del self.st.pc[n:]
            return z3.BoolVal(False)
        self.solver.pop()
        for c_ in new:
            if not has_quantifier(c_):
                self.solver.add(c_)
        return g

    def spec_bool(self, expr, env=None):
        """evaluate a spec expression (ast) to a z3 Bool in the current state"""
        self.spec_mode += 1
        if env is not None:
            self.spec_envs.append(env)
        try:
            v = self.ev(expr)
            return self.truthy(v, expr)
        finally:
            if env is not None:
                self.spec_envs.pop()
            self.spec_mode -= 1

    def spec_value(self, expr, env=None):
        self.spec_mode += 1
        if env is not None:
            self.spec_envs.append(env)
        try:
            return self.ev(expr)
        finally:
            if env is not None:
                self.spec_envs.pop()
            self.spec_mode -= 1

    # ------------------------------------------------------------- expressions
    def ev(self, node):
        m = getattr(self, "ev_" + type(node).__name__, None)
        if m is None:
            self.unsupported(node, "expression " + type(node).__name__)
        return m(node)

    def ev_Constant(self, node):
        return self.const(node.value, node)

    def const(self, c, node=None):
        if c is None:
            return SV(Val.none, "none")
        if isinstance(c, bool):
            return BoolSV(c)
        if isinstance(c, int):
            return SV(so.intv(c), "int")
        if isinstance(c, str):
            return SV(so.strv(c), "str")
        if isinstance(c, bytes):
            return SV(Val.bytesv(z3.StringVal(c.decode("latin-1"))), "bytes")
        if isinstance(c, float):
            return SV(Val.opq(z3.IntVal(hash(c) % 1000003)), "float")
        if c is Ellipsis:
            return SV(Val.opq(z3.IntVal(-1)), "any")
        self.unsupported(node, "constant %r" % (c,))

    def ev_Name(self, node):
        return self.lookup_name(node.id, node)

    def ev_Tuple(self, node):
        items = []
        for e in node.elts:
            if isinstance(e, ast.Starred):
                v = self.ev(e.value)
                if isinstance(v, TupV):
                    items.extend(v.items)
                else:
                    self.unsupported(node, "starred in tuple display")
            else:
                items.append(self.ev(e))
        return TupV(items)

    def ev_List(self, node):
        if any(isinstance(e, ast.Starred) for e in node.elts):
            self.unsupported(node, "starred in list display")
        items = [self.ev(e) for e in node.elts]
        seq = so.seq_of([self.to_term(x, node) for x in items])
        if self.spec_mode:
            return PSeq(seq)
        tags = {x.ty for x in items if isinstance(x, SV)}
        return self.new_list(seq, tags.pop() if len(tags) == 1 and len(items) == len([x for x in items if isinstance(x, SV)]) and None not in tags else None)

    def ev_Set(self, node):
        m = so.EMPTY_SET
        items = [self.ev(e) for e in node.elts]
        for x in items:
            m = z3.Store(m, self.to_term(x, node), True)
        tags = {x.ty for x in items if isinstance(x, SV)}
        et = tags.pop() if len(tags) == 1 and all(isinstance(x, SV) for x in items) and None not in tags else None
        if self.spec_mode:
            return PSet(m, et)
        return self.new_set(m, "set[%s]" % et if et else "set")

    def ev_Dict(self, node):
        if self.spec_mode and node.keys and all(isinstance(k, ast.Constant) for k in node.keys):
            vals = [self.ev(v) for v in node.values]
            if any(not isinstance(v, (SV, TupV)) for v in vals):
                return StaticDictV({k.value: v for k, v in zip(node.keys, vals)})      # a table of classes / functions
            m = so.EMPTY_KW
            for k, v in zip(node.keys, vals):
                m = z3.Store(m, self.to_term(self.const(k.value), node), self.to_term(v, node))
            return PMap(m)
        m = so.EMPTY_KW
        for k, v in zip(node.keys, node.values):
            if k is None:
                base = self.ev(v)
                if len(node.keys) == 1 or m is so.EMPTY_KW:
                    m = self.as_map(base, node)
                    continue
                self.unsupported(node, "** in dict display")
            m = z3.Store(m, self.to_term(self.ev(k), node), self.to_term(self.ev(v), node))
        if self.spec_mode:
            return PMap(m)
        return self.new_dict(m)

    def ev_JoinedStr(self, node):
        args = []
        for v in node.values:
            if isinstance(v, ast.FormattedValue):
                args.append(self.str_arg(self.ev(v.value), node))
        return SV(Val.strv(so.fmt(z3.StringVal("f:%d:%s" % (node.lineno, ast.unparse(node)[:40])), so.seq_of(args))), "str")

    def str_arg(self, v, node):
        """term standing for a value inside a formatting operation; str() of instances goes through their __str__ contract"""
        if isinstance(v, SV):
            kind, _ = parse_tag(v.ty)
            if kind and kind[0].isupper() and self.str_hook is not None:
                return self.str_hook(v, node)
            return v.term
        if isinstance(v, (TupV, ClassV, PSeq)):
            return self.to_term(v, node)
        if isinstance(v, (FuncV, BoundV, BuiltinV)):
            return self.to_term(v, node)
        self.unsupported(node, "formatting of %r" % (v,))

    def ev_Lambda(self, node):
        fr = self.frame if self.st.frames else None
        if fr is None:
            return FuncV(node, self.cur_module, None, None, "<lambda>")
        env = ChainEnv(fr.locals, dict(fr.func.env or {}) if fr.func is not None else {})
        return FuncV(node, fr.func.module, fr.func.cls, env, "<lambda>")

    def ev_IfExp(self, node):
        c = self.truthy(self.ev(node.test), node)
        if self.spec_mode:
            cs = z3.simplify(c)
            if z3.is_true(cs):
                return self.ev(node.body)
            if z3.is_false(cs):
                return self.ev(node.orelse)
            a, b = self.under_guard(c, node.body), self.under_guard(z3.Not(c), node.orelse)
            return self.ite(c, a, b, node)
        if self.branch(c, "ifexp L%d" % node.lineno):
            return self.ev(node.body)
        return self.ev(node.orelse)

    def ite(self, c, a, b, node=None):
        if isinstance(a, SV) and isinstance(b, SV):
            if a._b is not None and b._b is not None:
                return BoolSV(z3.If(c, a._b, b._b))
            return SV(z3.If(c, a.term, b.term), a.ty if a.ty == b.ty else None)
        if isinstance(a, PSeq) and isinstance(b, PSeq):
            return PSeq(z3.If(c, a.seq, b.seq), a.elem)
        if isinstance(a, PSet) and isinstance(b, PSet):
            return PSet(z3.If(c, a.m, b.m), a.elem)
        if isinstance(a, PMap) and isinstance(b, PMap):
            return PMap(z3.If(c, a.m, b.m))
        if isinstance(a, PHist) and isinstance(b, PHist):
            return PHist(z3.If(c, a.h, b.h))
        if isinstance(a, PEvent) and isinstance(b, PEvent):
            return PEvent(z3.If(c, a.e, b.e))
        if isinstance(a, PRaw) and isinstance(b, PRaw):
            return PRaw(z3.If(c, a.t, b.t))
        return SV(z3.If(c, self.to_term(a, node), self.to_term(b, node)), None)

    def under_guard(self, g, expr):
        """evaluate a specification sub-expression whose value only matters when g holds"""
        guards = self.__dict__.setdefault("spec_guards", [])
        guards.append(g)
        try:
            return self.ev(expr)
        finally:
            guards.pop()

    def ev_BoolOp(self, node):
        if self.spec_mode:
            vals = []
            acc = []
            for e in node.values:
                if not acc:
                    v = self.ev(e)
                else:
                    v = self.under_guard(z3.And(acc) if len(acc) > 1 else acc[0], e)
                vals.append(v)
                if isinstance(v, SV):
                    t = self.truthy(v, node)
                    acc.append(t if isinstance(node.op, ast.And) else z3.Not(t))
            if all(isinstance(v, SV) and (v._b is not None or parse_tag(v.ty)[0] == "bool") for v in vals):
                bs = [self.truthy(v, node) for v in vals]
                return BoolSV(z3.And(bs) if isinstance(node.op, ast.And) else z3.Or(bs))
            # value semantics
            res = vals[-1]
            for v in reversed(vals[:-1]):
                t = self.truthy(v, node)
                res = self.ite(t, res, v, node) if isinstance(node.op, ast.And) else self.ite(t, v, res, node)
            return res
        v = None
        for k, e in enumerate(node.values):
            v = self.ev(e)
            if k == len(node.values) - 1:
                return v
            t = self.truthy(v, e)
            taken = self.branch(t, "boolop L%d" % node.lineno)
            if isinstance(node.op, ast.And) and not taken:
                return v
            if isinstance(node.op, ast.Or) and taken:
                return v
        return v

    def ev_UnaryOp(self, node):
        v = self.ev(node.operand)
        if isinstance(node.op, ast.Not):
            return BoolSV(z3.Not(self.truthy(v, node)))
        if isinstance(node.op, ast.USub):
            return SV(Val.intv(-self.as_int(v, node)), "int")
        self.unsupported(node, "unary op")

    def ev_BinOp(self, node):
        return self.binop(node.op, self.ev(node.left), self.ev(node.right), node)

    def kind_of(self, v):
        if isinstance(v, SV):
            k, arg = parse_tag(v.ty)
            if k == "opt":
                k = parse_tag(arg)[0]     # used where the code has already excluded None
            return "tuple" if k == "ftuple" else k
        if isinstance(v, TupV):
            return "TupV"
        return type(v).__name__

    def binop(self, op, a, b, node):
        ka, kb = self.kind_of(a), self.kind_of(b)
        setish = ("set", "frozenset", "anyset", "PSet")
        if isinstance(op, ast.Add):
            if ka == "int" and kb == "int":
                return SV(Val.intv(self.as_int(a) + self.as_int(b)), "int")
            if ka == "str" and kb == "str":
                return SV(Val.strv(z3.Concat(self.as_str(a), self.as_str(b))), "str")
            if ka == "bytes" and kb == "bytes":
                return SV(Val.bytesv(z3.Concat(self.as_str(a), self.as_str(b))), "bytes")
            if ka == "TupV" and kb == "TupV":
                return TupV(a.items + b.items)
            if ka in ("list", "PSeq", "tuple", "TupV", "seq") and kb in ("list", "PSeq", "tuple", "TupV", "seq"):
                seq = z3.Concat(self.as_seq(a, node), self.as_seq(b, node))
                if self.spec_mode or "PSeq" in (ka, kb):
                    return PSeq(seq, self.elem_tag(a))
                if ka == "list":
                    return self.new_list(seq, self.elem_tag(a))
                return SV(Val.tup(seq), a.ty if isinstance(a, SV) else "tuple")
            if ka in (None, "any", "val") or kb in (None, "any", "val"):
                # unknown operand types: assume ints if either is int, strings if either is str
                if "str" in (ka, kb):
                    return SV(Val.strv(z3.Concat(self.as_str(a), self.as_str(b))), "str")
                if "int" in (ka, kb):
                    return SV(Val.intv(self.as_int(a) + self.as_int(b)), "int")
        if isinstance(op, ast.Sub):
            if ka == "int" and kb == "int":
                return SV(Val.intv(self.as_int(a) - self.as_int(b)), "int")
            if ka in setish and kb in setish:
                ma, mb = self.as_setmap(a, node), self.as_setmap(b, node)
                return self.mk_set(set_diff(ma, mb), a)
            if "int" in (ka, kb):
                return SV(Val.intv(self.as_int(a) - self.as_int(b)), "int")
            return SV(so_binop("sub", self.to_term(a, node), self.to_term(b, node)), None)
        if isinstance(op, ast.Mult):
            if ka == "int" and kb == "int":
                return SV(Val.intv(self.as_int(a) * self.as_int(b)), "int")
            return SV(so_binop("mul", self.to_term(a, node), self.to_term(b, node)), "str" if "str" in (ka, kb) else None)
        if isinstance(op, ast.BitOr) and ka in setish and kb in setish:
            return self.mk_set(set_union(self.as_setmap(a, node), self.as_setmap(b, node)), a)
        if isinstance(op, ast.BitAnd) and ka in setish and kb in setish:
            return self.mk_set(set_inter(self.as_setmap(a, node), self.as_setmap(b, node)), a)
        if isinstance(op, ast.Mod):
            if ka == "str":
                args = b.items if isinstance(b, TupV) else [b]
                return SV(Val.strv(so.fmt(z3.StringVal("%"), z3.Concat(z3.Unit(a.term), so.seq_of([self.str_arg(x, node) for x in args])) if args else z3.Unit(a.term))), "str")
            if ka == "int" and kb == "int":
                return SV(Val.intv(self.as_int(a) % self.as_int(b)), "int")
        if isinstance(op, (ast.Div, ast.Pow, ast.FloorDiv)):
            return SV(so_binop(type(op).__name__, self.to_term(a, node), self.to_term(b, node)), None)
        self.unsupported(node, "binary op %s on %s, %s" % (type(op).__name__, ka, kb))

    def mk_set(self, m, like):
        if self.spec_mode or isinstance(like, PSet):
            return PSet(m)
        kind = self.kind_of(like)
        return self.new_set(m, kind if kind in ("set", "frozenset") else "set")

    def ev_Compare(self, node):
        left = self.ev(node.left)
        conds = []
        for op, rn in zip(node.ops, node.comparators):
            right = self.ev(rn)
            conds.append(self.compare(op, left, right, node))
            left = right
        return BoolSV(conds[0] if len(conds) == 1 else z3.And(conds))

    def is_same(self, a, b, node):
        if isinstance(a, SV) and isinstance(b, SV):
            return a.term == b.term
        if isinstance(a, ModuleV) or isinstance(b, ModuleV):
            return z3.BoolVal(isinstance(a, ModuleV) and isinstance(b, ModuleV) and a.name == b.name)
        if isinstance(a, ExtV):
            a = ClassV(ext=a.dotted)
        if isinstance(b, ExtV):
            b = ClassV(ext=b.dotted)
        if isinstance(a, ClassV) and isinstance(b, ClassV):
            return z3.BoolVal(self.class_key(a.info or a.ext) == self.class_key(b.info or b.ext))
        if isinstance(a, (ClassV, SV)) and isinstance(b, (ClassV, SV)):
            return self.to_term(a, node) == self.to_term(b, node)
        if isinstance(a, PSeq) and isinstance(b, PSeq):
            return a.seq == b.seq
        if isinstance(a, (FuncV, BoundV)) or isinstance(b, (FuncV, BoundV)):
            return self.to_term(a, node) == self.to_term(b, node)
        return self.to_term(a, node) == self.to_term(b, node)

    def equals(self, a, b, node):
        """Python == (by content for builtin containers, structural otherwise)"""
        ka, kb = self.kind_of(a), self.kind_of(b)
        seqish = ("list", "PSeq", "seq")
        if isinstance(a, PHist) and isinstance(b, PHist):
            return a.h == b.h
        if isinstance(a, PEvent) and isinstance(b, PEvent):
            return a.e == b.e
        if isinstance(a, PRaw) and isinstance(b, PRaw):
            return a.t == b.t
        if ka in seqish and kb in seqish:
            return self.as_seq(a, node) == self.as_seq(b, node)
        if ka in ("tuple", "TupV", "PSeq") and kb in ("tuple", "TupV", "PSeq"):
            return self.as_seq(a, node) == self.as_seq(b, node)
        setish = ("set", "frozenset", "anyset", "PSet")
        if ka in setish and kb in setish:
            return self.as_setmap(a, node) == self.as_setmap(b, node)
        if ka in ("dict", "PMap") and kb in ("dict", "PMap"):
            return self.as_map(a, node) == self.as_map(b, node)
        if isinstance(a, SV) and isinstance(b, SV) and a._b is not None and b._b is not None:
            return a._b == b._b
        if not self.spec_mode and isinstance(a, SV):
            ci = self.class_of_tag(a.ty)
            if ci is not None:
                k, m = self.repo.find_method(ci, "__eq__")
                if m is not None and not isinstance(m, tuple):
                    # a repo class that defines __eq__: `a == b` calls it
                    return self.truthy(self.call_function(FuncV(m, k.module, k), [a, b], {}, node), node)
        return self.is_same(a, b, node)

    def compare(self, op, a, b, node):
        if isinstance(op, ast.Is):
            return self.is_same(a, b, node)
        if isinstance(op, ast.IsNot):
            return z3.Not(self.is_same(a, b, node))
        if isinstance(op, ast.Eq):
            return self.equals(a, b, node)
        if isinstance(op, ast.NotEq):
            return z3.Not(self.equals(a, b, node))
        if isinstance(op, ast.In):
            return self.contains(b, a, node)
        if isinstance(op, ast.NotIn):
            return z3.Not(self.contains(b, a, node))
        ka, kb = self.kind_of(a), self.kind_of(b)
        setish = ("set", "frozenset", "anyset", "PSet")
        if ka in setish and kb in setish:
            ma, mb = self.as_setmap(a, node), self.as_setmap(b, node)
            if isinstance(op, ast.LtE):
                return set_subset(ma, mb)
            if isinstance(op, ast.GtE):
                return set_subset(mb, ma)
        x, y = self.as_int(a, node), self.as_int(b, node)
        if isinstance(op, ast.Lt):
            return x < y
        if isinstance(op, ast.LtE):
            return x <= y
        if isinstance(op, ast.Gt):
            return x > y
        if isinstance(op, ast.GtE):
            return x >= y
        self.unsupported(node, "comparison")

    def contains(self, container, item, node):
        k = self.kind_of(container)
        if k == "TupV":
            if not container.items:
                return z3.BoolVal(False)
            return z3.Or([self.equals(item, x, node) for x in container.items])
        if k in ("set", "frozenset", "anyset", "PSet"):
            return self.as_setmap(container, node)[self.to_term(item, node)]
        if k in ("dict", "PMap"):
            return self.as_map(container, node)[self.to_term(item, node)] != Val.absent
        if k in ("list", "tuple", "PSeq", "seq"):
            return z3.Contains(self.as_seq(container, node), z3.Unit(self.to_term(item, node)))
        if k == "str":
            return z3.Contains(self.as_str(container), self.as_str(item, node))
        if isinstance(container, SV) and k in self.reg.shapes and self.reg.shape_method(k, "__contains__") is not None and not self.spec_mode:
            r = self.call_value(self.get_attr(container, "__contains__", node), [item], {}, node)
            return self.truthy(r, node)
        self.unsupported(node, "membership in %r" % (container,))

    # ------------------------------------------------------------ subscripts
    def slice_bounds(self, sl, seq, node):
        n = z3.Length(seq)

        def norm(e, default):
            if e is None:
                return default
            v = self.as_int(self.ev(e), node)
            v = z3.If(v < 0, z3.If(n + v < 0, 0, n + v), z3.If(v > n, n, v))
            return v
        if sl.step is not None:
            self.unsupported(node, "slice step")
        lo = norm(sl.lower, z3.IntVal(0))
        hi = norm(sl.upper, n)
        hi = z3.If(hi < lo, lo, hi)
        return z3.simplify(lo), z3.simplify(hi)

    def ev_Subscript(self, node):
        obj = self.ev(node.value)
        return self.get_item(obj, node.slice, node)

    def get_item(self, obj, sl, node):
        k = self.kind_of(obj)
        if isinstance(sl, ast.Slice):
            if k == "TupV":
                lo = sl.lower.value if isinstance(sl.lower, ast.Constant) else (None if sl.lower is None else self.unsupported(node, "tuple slice"))
                hi = sl.upper.value if isinstance(sl.upper, ast.Constant) else (None if sl.upper is None else self.unsupported(node, "tuple slice"))
                return TupV(obj.items[lo:hi])
            if k in ("str", "bytes"):
                s = self.as_str(obj)
                lo, hi = self.slice_bounds(sl, s, node)
                r = z3.SubString(s, lo, hi - lo)
                return SV(Val.strv(r) if k == "str" else Val.bytesv(r), k)
            seq = self.as_seq(obj, node)
            lo, hi = self.slice_bounds(sl, seq, node)
            sub = z3.SubSeq(seq, lo, hi - lo)
            if self.spec_mode or k == "PSeq":
                return PSeq(sub, self.elem_tag(obj))
            if k == "list":
                return self.new_list(sub, self.elem_tag(obj))
            return SV(Val.tup(sub), obj.ty)
        idx = self.ev(sl)
        if k == "TupV":
            if isinstance(idx, SV):
                iv = z3.simplify(self.as_int(idx))
                if z3.is_int_value(iv):
                    i = iv.as_long()
                    if -len(obj.items) <= i < len(obj.items):
                        return obj.items[i]
                    self.raise_builtin("IndexError", node)
            self.unsupported(node, "symbolic index into static tuple")
        if k in ("list", "tuple", "PSeq", "seq"):
            seq = self.as_seq(obj, node)
            n = z3.Length(seq)
            i = self.as_int(idx, node)
            i = z3.simplify(z3.If(i < 0, n + i, i))
            ok = z3.And(0 <= i, i < n)
            et = self.elem_tag(obj)
            if et and et.startswith("(") and isinstance(obj, SV) and parse_tag(obj.ty)[0] == "ftuple":
                tags = _split_tags(et)
                et = tags[i.as_long()] if z3.is_int_value(i) and 0 <= i.as_long() < len(tags) else None
                if z3.is_int_value(i) and 0 <= i.as_long() < len(tags):
                    return self.from_term(seq[i], et)
            if self.spec_mode:
                return self.from_term(seq[i], et)
            if not self.branch(ok, "index L%d" % node.lineno):
                self.raise_builtin("IndexError", node)
            return self.from_term(seq[i], et)
        if k in ("dict", "PMap"):
            m = self.as_map(obj, node)
            key = self.to_term(idx, node)
            val = m[key]
            vt = None
            if isinstance(obj, SV):
                vt = self.dict_value_tag(obj, idx)
            elif isinstance(obj, PMap):
                vt = obj.elem
            if self.spec_mode:
                return self.from_term(val, vt)
            if getattr(self, "_no_branch", 0):
                # inside a comprehension element evaluated for a symbolic key: no path split; the presence of the key becomes a
                # side condition that the comprehension must discharge for every element
                self._comp_side.append(val != Val.absent)
                return self.from_term(val, vt)
            if not self.branch(val != Val.absent, "key L%d" % node.lineno):
                self.raise_builtin("KeyError", node, [idx])
            return self.from_term(val, vt)
        if k in ("str",):
            s = self.as_str(obj)
            i = self.as_int(idx, node)
            return SV(Val.strv(z3.SubString(s, i, 1)), "str")
        if k == "opt":
            return self.get_item(SV(obj.term, parse_tag(obj.ty)[1]), sl, node)
        self.unsupported(node, "subscript of %r" % (obj,))

    def set_item(self, obj, sl, v, node):
        k = self.kind_of(obj)
        if k == "dict":
            key = self.to_term(self.ev(sl), node)
            self.set_dict(obj, z3.Store(self.dict_of(obj), key, self.to_term(v, node)))
            return
        if k == "list":
            seq = self.list_of(obj)
            if isinstance(sl, ast.Slice):
                lo, hi = self.slice_bounds(sl, seq, node)
                n = z3.Length(seq)
                new = z3.Concat(z3.SubSeq(seq, 0, lo), self.as_seq(v, node), z3.SubSeq(seq, hi, n - hi))
                self.set_list(obj, new)
                return
            i = self.as_int(self.ev(sl), node)
            n = z3.Length(seq)
            i = z3.simplify(z3.If(i < 0, n + i, i))
            if not self.branch(z3.And(0 <= i, i < n), "setindex L%d" % node.lineno):
                self.raise_builtin("IndexError", node)
            new = z3.Concat(z3.SubSeq(seq, 0, i), z3.Unit(self.to_term(v, node)), z3.SubSeq(seq, i + 1, n - i - 1))
            self.set_list(obj, new)
            return
        self.unsupported(node, "item assignment on %r" % (obj,))

    # ---------------------------------------------------------- comprehensions
    def ev_ListComp(self, node):
        return self.comprehension(node, "list")

    def ev_GeneratorExp(self, node):
        return self.comprehension(node, "gen")

    def ev_SetComp(self, node):
        return self.comprehension(node, "set")

    def ev_DictComp(self, node):
        self.unsupported(node, "dict comprehension")

    def comprehension(self, node, kind):
        """[f(x) for x in xs]: pointwise definition of a fresh sequence (pure element expression only)."""
        if len(node.generators) != 1:
            self.unsupported(node, "nested comprehension")
        g = node.generators[0]
        it = self.ev(g.iter)
        if isinstance(it, PSeq) or (isinstance(it, SV) and parse_tag(it.ty)[0] == "list"):
            # a sequence whose elements are literally known on this path (class-level constant lists): evaluate element-wise
            from .calls import static_seq_items
            try:
                items_ = static_seq_items(z3.simplify(it.seq if isinstance(it, PSeq) else self.list_of(it)))
            except Exception:
                items_ = None
            if items_ is not None and 0 < len(items_) <= 8 and all(z3.is_app(t) and not _has_uninterp(t) for t in items_):
                et_ = it.elem if isinstance(it, PSeq) else self.elem_tag(it)
                it = TupV([self.from_term(t, et_ or _lit_tag(t)) for t in items_])
        if isinstance(it, TupV):
            out = []
            for x in it.items:
                self.push_bind(g.target, x, node)
                try:
                    if all(self._static_true(self.truthy(self.ev(c), node)) for c in g.ifs):
                        out.append(self.ev(node.elt))
                finally:
                    self.pop_bind()
            if kind == "list" and not self.spec_mode:
                return self.new_list(so.seq_of([self.to_term(x, node) for x in out]))
            return TupV(out)
        if g.ifs:
            return self.filter_comprehension(node, kind, it)
        eff = self.sink_comprehension(node, kind, it)
        if eff is not None:
            return eff
        return self.map_comprehension(node, kind, it)

    def _static_true(self, c):
        c = z3.simplify(c)
        if z3.is_true(c):
            return True
        if z3.is_false(c):
            return False
        raise Unsupported("%s: symbolic filter in static comprehension" % self.target_name)

    def push_bind(self, target, v, node):
        env = {}
        if isinstance(target, ast.Name):
            env[target.id] = v
        elif isinstance(target, ast.Tuple):
            items = self.unpack_pure(v, len(target.elts), node)
            for t, x in zip(target.elts, items):
                if not isinstance(t, ast.Name):
                    self.unsupported(node, "nested comprehension target")
                env[t.id] = x
        else:
            self.unsupported(node, "comprehension target")
        self.spec_envs.append(env)

    def unpack_pure(self, v, n, node):
        if isinstance(v, TupV):
            return v.items
        seq = self.as_seq(v, node)
        et = self.elem_tag(v)
        tags = _split_tags(et) if et and et.startswith("(") and isinstance(v, SV) and parse_tag(v.ty)[0] == "ftuple" else [et] * n
        return [self.from_term(seq[i], tags[i] if i < len(tags) else None) for i in range(n)]

    def pop_bind(self):
        self.spec_envs.pop()

    def map_comprehension(self, node, kind, it):
        g = node.generators[0]
        if isinstance(it, RangeV):
            lo, hi = it.lo, it.hi
            n = z3.If(hi > lo, hi - lo, 0)
            elem_at = lambda j: SV(Val.intv(lo + j), "int")
        else:
            seq, et = self.iter_seq(it, node)
            if isinstance(seq, ZipV):
                n = seq.length(self)
                elem_at = lambda j, z=seq: z.item(self, j)
            else:
                n = z3.Length(seq)
                elem_at = lambda j: self.from_term(seq[j], et)
        out = so.fresh("comp", SeqV)
        j = z3.Int("cj!%d" % node.lineno)
        self.push_bind(g.target, elem_at(j), node)
        saved = self.spec_mode
        self.spec_mode += 1      # element expression must be pure
        npc, heap0 = len(self.st.pc), dict(self.st.heap)
        vv_ = None
        try:
            vv_ = self.ev(node.elt)
            body = self.to_term(vv_, node)
        finally:
            self.spec_mode = saved
            self.pop_bind()
        changed = [k for k in set(self.st.heap) | set(heap0) if self.st.heap.get(k) is not heap0.get(k)]
        if any(k != "$alloc" for k in changed):
            ci_ = self.class_of_tag(vv_.ty) if isinstance(vv_, SV) and self.is_fresh(vv_) else None
            if ci_ is not None and all(k == "$alloc" or k.startswith("f:") for k in changed):
                # each element CONSTRUCTS an object (e.g. one PrefixedMismatch per item): over-approximated by new objects of that
                # class with unknown fields; the single evaluation's heap effects are discarded
                self.st.heap = dict(heap0)
                a0 = self.comp("$alloc")
                a2 = so.fresh("alloc", so.I)
                self.assume(a2 >= a0)
                self.st.heap["$alloc"] = a2
                self.assume(z3.Length(out) == n)
                self.assume(z3.ForAll([j], z3.Implies(z3.And(0 <= j, j < n), z3.And(
                    Val.is_ref(out[j]), Val.r(out[j]) >= a0, Val.r(out[j]) < a2, so.typeof(Val.r(out[j])) == self.class_id(ci_))), patterns=[out[j]]))
                if kind == "list" and not self.spec_mode:
                    return self.new_list(out, ci_.name)
                return PSeq(out, ci_.name)
            self.unsupported(node, "comprehension element with side effects on %s" % sorted(changed))
        if changed or any(_mentions(a, j) for a in self.st.pc[npc:]):
            # a call with a fresh result inside the element expression: its facts hold for ONE (free) index only, so they must not
            # be quantified over.  Sound over-approximation: a sequence of the right length with unconstrained elements (the
            # facts already on the path constrain only symbols that are not used again).
            self.assume(z3.Length(out) == n)
            if changed:
                a2 = so.fresh("alloc", so.I)
                self.assume(a2 >= self.comp("$alloc"))
                self.st.heap["$alloc"] = a2
            if kind == "list" and not self.spec_mode:
                return self.new_list(out)
            if kind == "set":
                self.unsupported(node, "set comprehension")
            return PSeq(out)
        self.assume(z3.Length(out) == n)
        self.assume(z3.ForAll([j], z3.Implies(z3.And(0 <= j, j < n), out[j] == body), patterns=[out[j]]))
        if not isinstance(it, RangeV) and not isinstance(seq, ZipV) and MAP_THEORY:
            # the same definition through the sequence theory's map (nth/length of a map unfold without quantifier instantiation)
            x = z3.Const("cx!map", Val)      # one bound name everywhere: equal definitions are the same term
            body_x = z3.substitute(body, (seq[j], x))
            if not _mentions(body_x, j):
                self.assume(out == z3.SeqMap(z3.Lambda([x], body_x), seq))
        if kind == "list" and not self.spec_mode:
            return self.new_list(out)
        if kind == "set":
            self.unsupported(node, "set comprehension")
        res = PSeq(out)
        res.defn = (n, j, body)      # pointwise definition, for consumers such as any()/all()
        return res

    def sink_comprehension(self, node, kind, it):
        """(x.m(*a, **k) for x in sinks) / (getattr(x, name)(*a, **k) for x in sinks) over abstract event sinks:
        one identical call event per element, in order (fold `deliver`)."""
        from .calls import deliver
        g = node.generators[0]
        elt = node.elt
        if self.spec_mode or not isinstance(g.target, ast.Name) or not isinstance(elt, ast.Call):
            return None
        var = g.target.id
        f = elt.func
        name_term = None
        if isinstance(f, ast.Attribute) and isinstance(f.value, ast.Name) and f.value.id == var:
            name_term = z3.StringVal(f.attr)
            mname = f.attr
        elif isinstance(f, ast.Call) and isinstance(f.func, ast.Name) and f.func.id == "getattr" and len(f.args) == 2 \
                and isinstance(f.args[0], ast.Name) and f.args[0].id == var:
            nv = self.ev(f.args[1])
            name_term = self.as_str(nv, node)
            mname = None
        if name_term is None:
            return None
        for sub in ast.walk(ast.Module(body=[ast.Expr(a) for a in elt.args] + [ast.Expr(k.value) for k in elt.keywords], type_ignores=[])):
            if isinstance(sub, ast.Name) and sub.id == var:
                return None
        et = self.elem_tag(it)
        if et not in self.reg.shapes:
            return None
        c = self.reg.shape_method(et, mname) if mname else None
        if c is None:
            c = self.reg.shape_method(et, "__getattr__")
        if c is None or c.event is not True or c.exsures is not None or c.ensures or c.modifies or c.requires or c.signature:
            return None
        self.used_contracts.add(c.target)
        args, star = [], None
        for a in elt.args:
            if isinstance(a, ast.Starred):
                sv = self.ev(a.value)
                if isinstance(sv, TupV) and star is None:
                    args.extend(sv.items)
                else:
                    star = sv
            else:
                args.append(self.ev(a))
        kwargs, dstar = {}, None
        for k in elt.keywords:
            if k.arg is None:
                dstar = self.ev(k.value)
            else:
                kwargs[k.arg] = self.ev(k.value)
        pseq, kw = self.call_payload(args, kwargs, node, star, dstar)
        seq = self.as_seq(it, node)
        e = Event.ev(name_term, pseq, kw)
        self.set_comp("$hist", deliver(self.comp("$hist"), seq, e, z3.Length(seq)))
        self.set_comp("$G", so.fresh("map_G", GHist))
        out = so.fresh("sinkres", SeqV)
        self.assume(z3.Length(out) == z3.Length(seq))
        if kind == "list":
            return self.new_list(out)
        return PSeq(out)

    def filter_comprehension(self, node, kind, it):
        self.unsupported(node, "comprehension with filter")

    # ---- generators: executed as producers of a ghost output sequence `_out` (laziness is a separate frame question) ----
    def ev_Yield(self, node):
        v = self.ev(node.value) if node.value is not None else SV(Val.none, "none")
        from .calls import is_inline_callbacks
        if self.st.frames and is_inline_callbacks(self.frame.func.node):
            # `yield d` inside @defer.inlineCallbacks AWAITS the Deferred: execution resumes when d has fired -- with its value, or
            # with its failure's exception raised at the yield (assumed semantics of inlineCallbacks; WHEN that happens is not modelled)
            if isinstance(v, SV) and parse_tag(v.ty)[0] == "Dfr":
                r = self.refof(v)
                self.assume(Val.i(self.get_field(r, "dstate")) != 0)
                if self.branch(Val.i(self.get_field(r, "dstate")) == 2, "awaited Deferred failed L%d" % node.lineno):
                    flr = SV(self.get_field(r, "dresult"), "Flr")
                    raise PyRaise(SV(self.get_field(self.refof(flr), "value"), "exc"), note="failure of the awaited Deferred")
                return SV(self.get_field(r, "dresult"), None)
            return v            # a plain value is its own result
        out = self.frame.locals.get("_out")
        if not isinstance(out, PSeq):
            self.unsupported(node, "yield outside a generator frame")
        self.frame.locals["_out"] = PSeq(z3.Concat(out.seq, z3.Unit(self.to_term(v, node))), out.elem)
        return SV(Val.none, "none")

    def ev_YieldFrom(self, node):
        v = self.ev(node.value)
        out = self.frame.locals.get("_out")
        if not isinstance(out, PSeq):
            self.unsupported(node, "yield from outside a generator frame")
        self.frame.locals["_out"] = PSeq(z3.Concat(out.seq, self.as_seq(v, node)), out.elem)
        return SV(Val.none, "none")

    def ev_Starred(self, node):
        self.unsupported(node, "starred expression")

    def ev_Attribute(self, node):
        obj = self.ev(node.value)
        return self.get_attr(obj, node.attr, node)


# ---------------------------------------------------------------------- helpers
def _has_uninterp(t):
    todo = [t]
    while todo:
        x = todo.pop()
        if z3.is_app(x) and x.decl().kind() == z3.Z3_OP_UNINTERPRETED:
            return True
        todo.extend(x.children())
    return False


def _lit_tag(t):
    n = t.decl().name()
    return {"strv": "str", "intv": "int", "boolv": "bool", "bytesv": "bytes", "none": "none"}.get(n)


MAP_THEORY = os.environ.get("VERIF_NO_SEQMAP") is None


def _mentions(term, var):
    seen = set()
    todo = [term]
    while todo:
        t = todo.pop()
        if t.get_id() in seen:
            continue
        seen.add(t.get_id())
        if t.eq(var):
            return True
        if z3.is_quantifier(t):
            todo.append(t.body())
        else:
            todo.extend(t.children())
    return False


SPEC_BUILTINS = {
    "old", "implies", "iff", "hist", "snoc", "call", "ghist", "forall", "exists", "fresh_since", "typeof_is",
    "seq", "concat", "setof", "mapof", "HIST", "G", "LIST", "ALLOC", "isnone", "is_ref", "kw", "kwget", "elems",
    "truthy", "deliver", "unchanged", "allocated", "store", "select", "subclass_of", "cls_of", "tupleof",
    "prefix_of", "last", "butlast", "str_of", "distinct", "ite", "args_of", "ev_name", "ev_args", "ev_kw",
    "hlast", "hinit", "is_snoc", "hnil", "fieldof", "listof", "dictof", "absent", "member", "has", "astype",
}


class ChainEnv(dict):
    """closure environment: live view of the defining frame's locals, then its own closure"""
    def __init__(self, locs, parent):
        super().__init__()
        self.locs = locs
        self.parent = parent

    def __contains__(self, k):
        return k in self.locs or k in self.parent

    def __getitem__(self, k):
        if k in self.locs:
            return self.locs[k]
        return self.parent[k]

    def __bool__(self):
        return True


class ExtV(Value):
    """external (library) object referenced by dotted name"""
    def __init__(self, dotted):
        self.dotted = dotted

    def __repr__(self):
        return "ExtV(%s)" % self.dotted


class RangeV(Value):
    def __init__(self, lo, hi):
        self.lo, self.hi = lo, hi


class RevV(Value):
    """reversed(xs) over a symbolic sequence: element i is xs[len-1-i] (no copy, no auxiliary axioms)"""
    def __init__(self, seq, elem):
        self.seq, self.elem = seq, elem

    def static_len(self):
        return None

    def length(self, eng):
        return z3.Length(self.seq)

    def item(self, eng, i):
        return eng.from_term(self.seq[z3.Length(self.seq) - 1 - i], self.elem)


class ZipV(Value):
    def __init__(self, parts):
        self.parts = parts      # list of (seq term, elem tag)

    def static_len(self):
        return None

    def length(self, eng):
        n = z3.Length(self.parts[0][0])
        for s, _ in self.parts[1:]:
            m = z3.Length(s)
            n = z3.If(m < n, m, n)
        return n

    def item(self, eng, i):
        return TupV([eng.from_term(s[i], t) for s, t in self.parts])


class EnumV(ZipV):
    """enumerate(xs): pairs (index, element)"""
    def __init__(self, seq, elem, start=0):
        self.parts = [(seq, elem)]
        self.base = seq
        self.elem = elem
        self.start = start

    def item(self, eng, i):
        return TupV([SV(Val.intv(i + self.start), "int"), eng.from_term(self.base[i], self.elem)])


def _load(target):
    import copy
    t = copy.deepcopy(target)
    for n in ast.walk(t):
        if hasattr(n, "ctx"):
            n.ctx = ast.Load()
    return t


def _split_tags(et):
    inner = et.strip()[1:-1]
    return [x.strip() for x in inner.split(",")]


def _stable_term(t, base_fresh):
    """term mentions no constant created after counter ``base_fresh``"""
    seen = set()
    todo = [t]
    while todo:
        x = todo.pop()
        if x.get_id() in seen:
            continue
        seen.add(x.get_id())
        if z3.is_const(x) and x.decl().kind() == z3.Z3_OP_UNINTERPRETED:
            nm = x.decl().name()
            if "!" in nm:
                try:
                    if int(nm.rsplit("!", 1)[1]) > base_fresh:
                        return False
                except ValueError:
                    pass
        todo.extend(x.children())
    return True


def set_union(a, b):
    return z3.SetUnion(a, b)


def set_inter(a, b):
    return z3.SetIntersect(a, b)


def set_diff(a, b):
    return z3.SetDifference(a, b)


def set_subset(a, b):
    return z3.IsSubset(a, b)


_binop = z3.Function("binop", S, Val, Val, Val)


def so_binop(name, a, b):
    return _binop(z3.StringVal(name), a, b)
