"""Abstract result objects.

Target    : a raw result of unknown flavour (2.6 / 2.7 / extended / Twisted / testtools).  Every call is one
            event in its ghost history.  Optional methods and attributes are capabilities has(t, name);
            a call passing details= raises TypeError WITHOUT effect iff the method does not accept it
            (assumption: a target raises for no other reason).
ExtResult : a result that speaks the extended protocol (what RunTest sees): every call is one event, no raise.
"""

TARGET_CALL = dict(
    event="normal", returns="any",
    exsures=["subclass_of(cls_of(exc), TypeError)",
             "kwget(_kw, 'details') is not absent()",
             "not accepts(self, _name, 'details')"],
    ensures=["implies(kwget(_kw, 'details') is not absent(), accepts(self, _name, 'details'))"])

EXT_CALL = dict(event=True, returns="any")


def register(R):
    always = ["startTest", "stopTest", "addError", "addFailure", "addSuccess", "wasSuccessful"]
    methods = {m: dict(TARGET_CALL) for m in always}
    methods["__getattr__"] = dict(TARGET_CALL)
    R.shape("Target", **methods)
    # optional data attributes of a raw target (present iff has(t, name))
    R.fields_of("Target$data", failfast="any", shouldStop="any", current_tags="anyset", tb_locals="any", testsRun="any")

    ext = {m: dict(EXT_CALL) for m in
           ["startTest", "stopTest", "addError", "addFailure", "addSuccess", "addSkip", "addExpectedFailure",
            "addUnexpectedSuccess", "startTestRun", "stopTestRun", "tags", "time", "stop", "done", "progress"]}
    ext["addError"]["signature"] = "test, err=None, details=None"
    ext["addFailure"]["signature"] = "test, err=None, details=None"
    ext["addExpectedFailure"]["signature"] = "test, err=None, details=None"
    ext["addSkip"]["signature"] = "test, reason=None, details=None"
    ext["addSuccess"]["signature"] = "test, details=None"
    ext["addUnexpectedSuccess"]["signature"] = "test, details=None"
    # the extended protocol refuses a call that passes neither or both of (err | reason) and details (ExtendedToOriginalDecorator._check_args
    # raises ValueError): callers must establish it
    for m in ("addError", "addFailure", "addExpectedFailure"):
        ext[m]["requires"] = ["(err is None) != (details is None)"]
    ext["addSkip"]["requires"] = ["(reason is None) != (details is None)"]
    R.shape("ExtResult", **ext)
    R.fields_of("ExtResult", tb_locals="maybe any", shouldStop="any", failfast="any")
