"""C20: testtools/twistedsupport/_deferred.py, _matchers.py -- Deferred matchers classify fired/failed/unfired without firing."""

TD = "testtools.twistedsupport._deferred:"
TM = "testtools.twistedsupport._matchers:"

# Assumed OPERATIONAL model of twisted.internet.defer.Deferred (trusted text, executed symbolically as code).
# Ghost state: dstate 0 = not fired, 1 = fired with a value, 2 = fired with a Failure; dresult = the current result;
# dpending = number of callback pairs attached while unfired (they run only when somebody fires the Deferred).
# A callback pair added to a fired Deferred runs at once; what it returns becomes the new result, a returned Failure (or a raised
# exception) makes the Deferred failed, anything else makes it successful.
ADD_CALLBACKS = '''
def addCallbacks(self, callback, errback=None, callbackArgs=None, callbackKeywords=None, errbackArgs=None, errbackKeywords=None):
    if self.dstate == 1:
        try:
            r = callback(self.dresult)
        except BaseException as e:
            r = ghost_new('Flr', value=e, type=type(e))
        self.dresult = r
        if is_shape(r, 'Flr'):
            self.dstate = 2
    elif self.dstate == 2:
        if errback is not None:
            try:
                r = errback(astype(self.dresult, 'Flr'))
            except BaseException as e:
                r = ghost_new('Flr', value=e, type=type(e))
            self.dresult = r
            if not is_shape(r, 'Flr'):
                self.dstate = 1
    else:
        self.dpending = self.dpending + 1
    return self
'''
ADD_ERRBACK = '''
def addErrback(self, errback, *args, **kw):
    if self.dstate == 2:
        try:
            r = errback(astype(self.dresult, 'Flr'))
        except BaseException as e:
            r = ghost_new('Flr', value=e, type=type(e))
        self.dresult = r
        if not is_shape(r, 'Flr'):
            self.dstate = 1
    elif self.dstate == 0:
        self.dpending = self.dpending + 1
    return self
'''
RAISE_EXCEPTION = '''
def raiseException(self):
    raise self.value
'''


def register(R):
    R.define("is_failure", ["v"], "is_shape_(v, 'Flr')")      # the value is a twisted Failure (abstract object Flr)
    R.define("is_flr", ["v"], "is_shape_(v, 'Flr')")
    R.contract(TD + "failure_content", assumed=True, params={"failure": "any"}, pure=True, returns="Content", ensures=["not allocated(ret)"])
    R.shape("Dfr", addCallbacks=dict(model=ADD_CALLBACKS), addErrback=dict(model=ADD_ERRBACK))
    R.fields_of("Dfr", dstate="int", dresult="any", dpending="int", called="bool")
    R.type_aliases["Failure"] = "Flr"
    R.shape("Flr", raiseException=dict(model=RAISE_EXCEPTION),
            getTracebackObject=dict(signature="", pure=True, noalloc=True, returns="any"))
    R.fields_of("Flr", value="exc", type="any")
    # well-formed Deferred: a state in {0,1,2}; failed exactly when the result is a Failure
    # `called` is Twisted's public flag; a Deferred with a result has been called, but a called one may have NO current result:
    # it can be waiting on a Deferred that one of its callbacks returned (state 0 with called == True)
    R.define("dfr_ok", ["d"], "0 <= d.dstate and d.dstate <= 2 and (d.dstate == 2) == (d.dstate != 0 and is_failure(d.dresult)) and d.dpending >= 0 and "
                              "implies(d.dstate != 0, d.called)")
    # the three continuations of on_deferred_result: abstract callables, one ghost event per call
    R.function("cont_result", ["val", "val", "val"], "val")
    R.shape("Cont2", __call__=dict(signature="deferred, value", event=True, returns="any", value="cont_result(self, deferred, value)"))
    R.shape("Cont1", __call__=dict(signature="deferred", event=True, returns="any", value="cont_result(self, deferred, None)"))
    unchanged = "deferred.dstate == old(deferred.dstate) and deferred.dresult is old(deferred.dresult)"
    R.contract(TD + "on_deferred_result", props=["C20"],
               params={"deferred": "Dfr", "on_success": "Cont2", "on_failure": "Cont2", "on_no_result": "Cont1"},
               requires=["dfr_ok(deferred)", "distinct(on_success, on_failure, on_no_result)"],
               frame_hist=True, modifies=["hist(on_success)", "hist(on_failure)", "hist(on_no_result)", "deferred.dpending"], returns="any",
               ensures=[
                   # passive: the Deferred is not fired and keeps its result for later callbacks
                   unchanged,
                   "deferred.dpending == old(deferred.dpending) + (1 if old(deferred.dstate) == 0 else 0)",
                   # exactly the continuation of the Deferred's state is called, once, and its result returned
                   "implies(old(deferred.dstate) == 1, ret == cont_result(on_success, deferred, old(deferred.dresult)) and "
                   "hist(on_success) == snoc(old(hist(on_success)), call('__call__', [deferred, old(deferred.dresult)], {})) and "
                   "hist(on_failure) == old(hist(on_failure)) and hist(on_no_result) == old(hist(on_no_result)))",
                   "implies(old(deferred.dstate) == 2, ret == cont_result(on_failure, deferred, old(deferred.dresult)) and "
                   "hist(on_failure) == snoc(old(hist(on_failure)), call('__call__', [deferred, old(deferred.dresult)], {})) and "
                   "hist(on_success) == old(hist(on_success)) and hist(on_no_result) == old(hist(on_no_result)))",
                   "implies(old(deferred.dstate) == 0, ret == cont_result(on_no_result, deferred, None) and "
                   "hist(on_no_result) == snoc(old(hist(on_no_result)), call('__call__', [deferred], {})) and "
                   "hist(on_success) == old(hist(on_success)) and hist(on_failure) == old(hist(on_failure)))"])
    register_matchers(R)
    register_extract(R)
    register_sync_runner(R)


def register_matchers(R):
    R.inline_closure_args.add(TD + "on_deferred_result")
    R.fields_of("_Succeeded", _matcher="AMatcher")
    R.fields_of("_Failed", _matcher="AMatcher")
    intact = "deferred.dstate == old(deferred.dstate) and deferred.dresult is old(deferred.dresult)"
    pend = "deferred.dpending == old(deferred.dpending) + (1 if old(deferred.dstate) == 0 else 0)"
    COMMON = dict(props=["C20"], params={"deferred": "Dfr"}, requires=["dfr_ok(deferred)"], returns="any")
    # has_no_result(): matches exactly an unfired Deferred; never fires or changes it
    R.contract(TM + "_NoResult.match", modifies=["deferred.dpending"],
               ensures=["(ret is None) == (old(deferred.dstate) == 0)", intact, pend], **COMMON)
    # succeeded(m): matches iff fired with a value that m matches; a failure that was looked at is marked handled
    R.contract(TM + "_Succeeded.match", modifies=["deferred.dpending", "deferred.dstate", "deferred.dresult"],
               ensures=["(ret is None) == (old(deferred.dstate) == 1 and holds(self._matcher, old(deferred.dresult)))",
                        "implies(old(deferred.dstate) != 2, " + intact + ")", pend,
                        # the inspected failure is consumed: the Deferred no longer ends in a Failure (nothing is logged as unhandled)
                        "implies(old(deferred.dstate) == 2, deferred.dstate == 1 and deferred.dresult is None)"], **COMMON)
    # failed(m): matches iff fired with a Failure that m matches; the failure is marked handled
    R.contract(TM + "_Failed.match", modifies=["deferred.dpending", "deferred.dstate", "deferred.dresult"],
               ensures=["(ret is None) == (old(deferred.dstate) == 2 and holds(self._matcher, old(deferred.dresult)))",
                        "implies(old(deferred.dstate) != 2, " + intact + ")", pend,
                        "implies(old(deferred.dstate) == 2, deferred.dstate == 1 and deferred.dresult is None)"], **COMMON)


def register_extract(R):
    R.contract(TD + "DeferredNotFired.__init__", assumed=True, params={"deferred": "any"}, modifies=["self.args"], returns="none")
    # extract_result: the value, the failure's own exception, or DeferredNotFired
    R.contract(TD + "extract_result", props=["C20"], params={"deferred": "Dfr"},
               requires=["dfr_ok(deferred)", "implies(deferred.dstate == 2, is_flr(deferred.dresult))"],
               modifies=["deferred.dpending", "deferred.dstate", "deferred.dresult"], returns="any",
               exsures=["old(deferred.dstate) != 1",
                        "implies(old(deferred.dstate) == 2, exc is astype(old(deferred.dresult), 'Flr').value)",
                        "implies(old(deferred.dstate) == 0, typeof_is(exc, DeferredNotFired) and deferred.dstate == 0)"],
               ensures=["old(deferred.dstate) == 1", "ret is old(deferred.dresult)"])


MAYBE_DEFERRED = '''
def maybeDeferred(f, *args, **kwargs):
    try:
        result = f(*args, **kwargs)
    except BaseException as e:
        return ghost_new('Dfr', dstate=2, dresult=ghost_new('Flr', value=e, type=type(e)), dpending=0, called=True)
    if is_shape(result, 'Dfr'):
        return astype(result, 'Dfr')
    elif is_shape(result, 'Flr'):
        return ghost_new('Dfr', dstate=2, dresult=result, dpending=0, called=True)
    else:
        return ghost_new('Dfr', dstate=1, dresult=result, dpending=0, called=True)
'''


def register_sync_runner(R):
    SR = "testtools.twistedsupport._runtest:"
    R.library("twisted.internet.defer.maybeDeferred", model=MAYBE_DEFERRED)
    # a user stage that may return a value, a Deferred, or raise: outcome as uninterpreted functions of the callable
    R.function("st_raised", ["val"], "bool")
    R.function("st_exc", ["val"], "val")
    R.function("st_value", ["val"], "val")
    R.shape("DfrStage", __call__=dict(event=True, returns="any", ensures=["not st_raised(self)", "ret == st_value(self)"],
                                      exsures=["st_raised(self)", "exc is st_exc(self)"]))
    X = "listof(self._exceptions)"
    R.contract(SR + "SynchronousDeferredRunTest._run_user", props=["C20"], params={"function": "DfrStage", "args": "tuple"},
               requires=["self.case._cleanups is not self._exceptions", "self.handlers is not self._exceptions", "self.handlers is not self.case._cleanups",
                         "implies(is_shape_(st_value(function), 'Dfr'), dfr_ok(astype(st_value(function), 'Dfr')) and "
                         "implies(astype(st_value(function), 'Dfr').dstate == 2, is_flr(astype(st_value(function), 'Dfr').dresult)))"],
               modifies=["$hist", "list(self._exceptions)", "f:dstate", "f:dresult", "f:dpending"], returns="any",
               context={"V": "st_value(function)", "X0": "listof(self._exceptions)"},
               exsures=[  # only an unfired Deferred makes it raise
                   "not st_raised(function) and is_shape_(V, 'Dfr') and old(astype(V, 'Dfr').dstate) == 0", "typeof_is(exc, DeferredNotFired)"],
               ensures=[
                   # a plain return value is returned as is (a returned Failure counts as a failure)
                   "implies(not st_raised(function) and not is_shape_(V, 'Dfr') and not is_flr(V), ret is V and %s == X0)" % X,
                   # a Deferred that already fired with a value: that value, as if returned directly
                   "implies(not st_raised(function) and is_shape_(V, 'Dfr') and old(astype(V, 'Dfr').dstate) == 1, "
                   "ret is old(astype(V, 'Dfr').dresult) and %s == X0)" % X,
                   # raising, or a Deferred that already failed: handled exactly like a raised exception (recorded, sentinel returned)
                   "implies(st_raised(function) or is_flr(V) or (is_shape_(V, 'Dfr') and old(astype(V, 'Dfr').dstate) == 2), "
                   "ret is self.exception_caught and len(%s) > len(X0))" % X,
                   "implies(st_raised(function) and not typeof_is(st_exc(function), MultipleExceptions), %s == X0 + [st_exc(function)])" % X])
