"""C04 / C08: testtools.TestResult outcome methods and verdict; TestByTestResult."""

RR = "testtools.testresult.real:"
TR = RR + "TestResult."
TB = RR + "TestByTestResult."


def register(R):
    register_tbt(R)
    register_tfr(R)
    register_tfr2(R)
    register_tfr3(R)
    # rendering of tracebacks/details is text formatting: assumed total
    R.contract(TR + "_err_details_to_string", assumed=True, params={"test": "any", "err": "any", "details": "any"}, returns="str", pure=True)
    R.contract("testtools.content:TracebackContent.__init__", assumed=True,
               params={"err": "any", "test": "any", "capture_locals": "any"}, modifies=["self.content_type", "self._get_bytes"])
    UNCH = ["listof(self.%s) == old(listof(self.%s))" % (l, l) for l in ("errors", "failures", "unexpectedSuccesses")]
    STOP = "self.shouldStop == (True if old(self.failfast) else old(self.shouldStop))"

    def bad(name, lst, params, elem_is_pair=True):
        others = [u for u in UNCH if "self.%s)" % lst not in u]
        R.contract(TR + name, props=["C04"], params=params,
                   requires=["distinct(self.errors, self.failures, self.unexpectedSuccesses, self.expectedFailures)"],
                   modifies=["list(self.%s)" % lst, "self.shouldStop"],
                   ensures=["butlast(listof(self.%s)) == old(listof(self.%s))" % (lst, lst),
                            "len(listof(self.%s)) == old(len(listof(self.%s))) + 1" % (lst, lst),
                            ("elems(last(listof(self.%s)))[0] is test" % lst) if elem_is_pair else ("last(listof(self.%s)) is test" % lst),
                            STOP] + others)
    T3 = {"test": "any", "err": "any", "details": "any"}
    bad("addError", "errors", T3)
    bad("addFailure", "failures", T3)
    bad("addUnexpectedSuccess", "unexpectedSuccesses", {"test": "any", "details": "any"}, elem_is_pair=False)
    KEEP = UNCH + ["self.shouldStop == old(self.shouldStop)"]
    R.contract(TR + "addExpectedFailure", props=["C04"], params=T3,
               requires=["distinct(self.errors, self.failures, self.unexpectedSuccesses, self.expectedFailures)"],
               modifies=["list(self.expectedFailures)"], ensures=KEEP)
    R.contract(TR + "addSuccess", props=["C04"], params={"test": "any", "details": "any"}, pure=True, noalloc=True, ensures=KEEP)
    R.fields_of("TestResult", skip_reasons="dict[any=>list]")
    R.contract(TR + "addSkip", props=["C04"], params={"test": "any", "reason": "any", "details": "?dict[any=>AContent]"},
               requires=["distinct(self.errors, self.failures, self.unexpectedSuccesses, self.expectedFailures)",
                         "forall(lambda vk: kwget(dictof(self.skip_reasons), vk) is absent() or (kwget(dictof(self.skip_reasons), vk) is not self.errors and "
                         "kwget(dictof(self.skip_reasons), vk) is not self.failures and kwget(dictof(self.skip_reasons), vk) is not self.unexpectedSuccesses))"],
               modifies=["dict(self.skip_reasons)", "$list"], exsures=["reason is None", "details is None"], ensures=KEEP)
    R.contract(TR + "wasSuccessful", props=["C04"], pure=True, noalloc=True, returns="bool",
               ensures=["result == (len(listof(self.errors)) == 0 and len(listof(self.failures)) == 0 and len(listof(self.unexpectedSuccesses)) == 0)"])
    R.contract(TR + "_now", inline=True)
    R.contract(TR + "time", props=["C04"], params={"a_datetime": "any"}, modifies=["self._TestResult__now"], noalloc=True,
               ensures=["self._TestResult__now is a_datetime"] )
    R.contract(TR + "stopTestRun", props=["C04"], pure=True, noalloc=True)
    R.contract(TR + "done", props=["C04"], pure=True, noalloc=True)


def register_tbt(R):
    R.fields_of("TestByTestResult", _on_test="Callback", _start_time="any", _status="any", _details="any", _stop_time="any")
    NOW = "(self._TestResult__now if self._TestResult__now is not None else %s)"
    R.contract(TB + "startTest", props=["C08"], params={"test": "any"},
               requires=["self._tags is not None"],
               modifies=["self._tags", "self.testsRun", "self._mirrorOutput", "self._start_time", "self._status", "self._details", "self._stop_time"],
               ensures=["self._status is None", "self._details is None", "self._stop_time is None",
                        "implies(self._TestResult__now is not None, self._start_time is self._TestResult__now)",
                        "self._start_time is not None",
                        "not allocated(self._tags)", "self._tags.parent is old(self._tags)", "ctx_tags(self._tags) == old(ctx_tags(self._tags))"])
    # exactly one callback, at stopTest, with the start time taken at startTest, the stop time taken now, the tags current
    # before the context is popped, and the status/details recorded by the outcome
    R.contract(TB + "stopTest", props=["C08", "C17"], params={"test": "any"},
               requires=["self._tags is not None"],
               frame_hist=True, modifies=["hist(self._on_test)", "self._tags", "self._mirrorOutput", "self._stop_time"],
               ensures=["exists(lambda rt, vstop: not allocated(rt) and setof(rt) == old(ctx_tags(self._tags)) and vstop is not None and "
                        "implies(self._TestResult__now is not None, vstop is self._TestResult__now) and "
                        "hist(self._on_test) == snoc(old(hist(self._on_test)), call('__call__', [], {'test': test, 'status': self._status, "
                        "'start_time': self._start_time, 'stop_time': vstop, 'tags': rt, 'details': self._details})))",
                        "implies(old(self._tags.parent) is not None, self._tags is old(self._tags.parent))"])
    KEEPH = ["hist(self._on_test) == old(hist(self._on_test))"]
    for name, word, params, det in (
            ("addSuccess", "success", {"test": "any", "details": "any"}, "self._details is details"),
            ("addUnexpectedSuccess", "success", {"test": "any", "details": "any"}, "self._details is details"),
            ("addFailure", "failure", {"test": "any", "err": "any", "details": "any"}, "implies(truthy(details), self._details is details)"),
            ("addError", "error", {"test": "any", "err": "any", "details": "any"}, "implies(truthy(details), self._details is details)"),
            ("addExpectedFailure", "xfail", {"test": "any", "err": "any", "details": "any"}, "implies(truthy(details), self._details is details)")):
        lists = {"addFailure": ["list(self.failures)", "self.shouldStop"], "addError": ["list(self.errors)", "self.shouldStop"],
                 "addUnexpectedSuccess": ["list(self.unexpectedSuccesses)", "self.shouldStop"],
                 "addExpectedFailure": ["list(self.expectedFailures)"], "addSuccess": []}[name]
        R.contract(TB + name, props=["C08"], params=params, frame_hist=True,
                   requires=["distinct(self.errors, self.failures, self.unexpectedSuccesses, self.expectedFailures)"],
                   modifies=["self._status", "self._details"] + lists,
                   ensures=["self._status == '%s'" % word, det] + KEEPH)
    # addSkip: status 'skip'; details are the caller's dict (which gains/overwrites a 'reason' entry when a truthy reason is
    # given as well) or, without details, a fresh one-entry dict holding the reason as text; no callback before stopTest
    R.contract(TB + "addSkip", props=["C08"], params={"test": "any", "reason": "any", "details": "?dict[any=>AContent]"}, frame_hist=True,
               requires=["distinct(self.errors, self.failures, self.unexpectedSuccesses, self.expectedFailures)",
                         "forall(lambda vk: kwget(dictof(self.skip_reasons), vk) is absent() or (kwget(dictof(self.skip_reasons), vk) is not self.errors and "
                         "kwget(dictof(self.skip_reasons), vk) is not self.failures and kwget(dictof(self.skip_reasons), vk) is not self.unexpectedSuccesses))",
                         "details is not self.skip_reasons"],
               modifies=["self._status", "self._details", "dict(self.skip_reasons)", "$list", "dict(details)"],
               exsures=["(reason is None and details is None) or not isinstance(reason, str)"],
               ensures=["self._status == 'skip'",
                        "implies(details is not None, self._details is details)",
                        "implies(details is None, not allocated(self._details))",
                        "implies(details is not None and not truthy(reason), dictof(details) == old(dictof(details)))",
                        "implies(details is not None and truthy(reason), forall(lambda vk: vk == 'reason' or kwget(dictof(details), vk) is old(kwget(dictof(details), vk))))",
                        "implies(details is None, forall(lambda vk: vk == 'reason' or kwget(dictof(self._details), vk) is absent()))",
                        # the reason travels as a text content: one chunk, the utf8 encoding of the reason
                        "implies(details is None or truthy(reason), kwget(dictof(self._details), 'reason') is not absent() and "
                        "elems(fieldof(fieldof(kwget(dictof(self._details), 'reason'), '_get_bytes'), 'items')) == [encoded_utf8(reason)])",
                        ] + KEEPH)
    R.contract(TB + "_err_to_details", inline=True)


def register_tfr(R):
    """C12 / C17: ThreadsafeForwardingResult.  Ghost: every acquire/release of the shared semaphore and every call on the
    target is an event; `held` is read off the semaphore's ghost history."""
    F = RR + "ThreadsafeForwardingResult."
    R.shape("Semaphore", acquire=dict(event=True, returns="any"), release=dict(event=True, returns="any"))
    # the wrapped target may raise from any call (fault quantifier of C12); the call is still recorded
    ANY = dict(event=True, returns="any", exsures=["True"], total=True)
    R.shape("FaultyResult", __getattr__=ANY)
    R.fields_of("FaultyResult", shouldStop="any")
    R.contract(RR + "_merge_tags", props=["C12", "C17"], params={"existing": "(anyset,anyset)", "changed": "(anyset,anyset)"}, pure=True,
               returns="(set,set)",
               ensures=["not allocated(result[0])", "not allocated(result[1])", "result[0] is not result[1]",
                        "setof(result[0]) == (setof(existing[0]) | setof(changed[0])) - setof(changed[1])",
                        "setof(result[1]) == (setof(existing[1]) | setof(changed[1])) - setof(changed[0])"])
    # algebra of merging (disjoint new/gone): applying the merged pair equals applying the two pairs one after the other
    R.lemma("merge_tags_algebra", ["C12", "C17"],
            vars={"T": "set", "n1": "set", "g1": "set", "n2": "set", "g2": "set"},
            assumes=["(n1 & g1) == set()", "(n2 & g2) == set()"],
            goal="((T | ((n1 | n2) - g2)) - ((g1 | g2) - n2)) == ((((T | n1) - g1) | n2) - g2)")


def register_tfr2(R):
    F = RR + "ThreadsafeForwardingResult."
    HELD = "(is_snoc(hist(SEM)) and ev_name(hlast(hist(SEM))) == 'acquire')"
    # O1: every call on the target (except the read-only wasSuccessful) happens while this thread holds the semaphore
    # O3: no acquire while held
    LOCKED = dict(event=True, returns="any", exsures=["True"], total=True, requires=[HELD])
    # stop_failed(t): this target's stop() raises (a fixed property of the target): lets callers tell a failing stop() apart
    R.function("stop_failed", ["val"], "bool")
    R.shape("LockedResult", __getattr__=LOCKED, wasSuccessful=dict(event=True, returns="any", exsures=["True"]),
            stop=dict(signature="", event=True, returns="any", requires=[HELD], ensures=["not stop_failed(self)"], exsures=["stop_failed(self)"]))
    R.fields_of("LockedResult", shouldStop="any")
    R.shape("Semaphore1", acquire=dict(event=True, returns="any", requires=["not " + HELD]),
            release=dict(event=True, returns="any", requires=[HELD]))
    R.fields_of("ThreadsafeForwardingResult", result="LockedResult", semaphore="Semaphore1", _test_start="any",
                _global_tags="(set,set)", _test_tags="(set,set)")
    R.inline_fn(F + "_add_result_with_semaphore", F + "_any_tags")
    CTX = {"SEM": "self.semaphore"}
    SEM_OK = "hist(self.semaphore) == snoc(old(hist(self.semaphore)), call('acquire', [], {}), call('release', [], {}))"
    R.define("any_tags_", ["t"], "setof(t[0]) != set() or setof(t[1]) != set()")
    R.define("tfr_block", ["s", "test", "vnow", "outcome"],
             "snoc(ite(old(any_tags_(s._test_tags)),"
             "         snoc(ite(old(any_tags_(s._global_tags)),"
             "                  snoc(snoc(old(hist(s.result)), call('time', [old(s._test_start)], {}), call('startTest', [test], {}), call('time', [vnow], {})),"
             "                       call('tags', old(elems(s._global_tags)), {})),"
             "                  snoc(old(hist(s.result)), call('time', [old(s._test_start)], {}), call('startTest', [test], {}), call('time', [vnow], {}))),"
             "              call('tags', old(elems(s._test_tags)), {})),"
             "         ite(old(any_tags_(s._global_tags)),"
             "             snoc(snoc(old(hist(s.result)), call('time', [old(s._test_start)], {}), call('startTest', [test], {}), call('time', [vnow], {})),"
             "                  call('tags', old(elems(s._global_tags)), {})),"
             "             snoc(old(hist(s.result)), call('time', [old(s._test_start)], {}), call('startTest', [test], {}), call('time', [vnow], {})))),"
             "     outcome, call('stopTest', [test], {}))")

    def outcome(name, params, args, kw):
        R.contract(F + name, props=["C12", "C17"], params=params, context=CTX,
                   requires=["not " + HELD, "self.result is not self.semaphore"],
                   frame_hist=True, modifies=["hist(self.result)", "hist(self.semaphore)", "self._test_tags", "self._test_start"],
                   # O2: the semaphore is released on every exit, normal or exceptional
                   # ... and the buffered test-local tags never survive the block (a target that raises mid-block must not make
                   # them reappear in front of the NEXT test, nor the start time: "that test's tags", also after a fault (fix cf25f52)
                   exsures=[SEM_OK, "setof(self._test_tags[0]) == set()", "setof(self._test_tags[1]) == set()", "self._test_start is None"],
                   ensures=[SEM_OK,
                            # O4: the target receives one contiguous block for this test
                            "exists(lambda vnow: implies(self._TestResult__now is not None, vnow is self._TestResult__now) and "
                            "hist(self.result) == tfr_block(self, test, vnow, call('%s', %s, %s)))" % (name, args, kw),
                            # O5: the per-test buffer is empty again, the start time is cleared
                            "self._test_start is None", "setof(self._test_tags[0]) == set()", "setof(self._test_tags[1]) == set()",
                            "not allocated(self._test_tags[0])", "not allocated(self._test_tags[1])"])
    T = {"test": "any"}
    outcome("addError", dict(T, err="any", details="any"), "[test, err]", "{'details': details}")
    outcome("addFailure", dict(T, err="any", details="any"), "[test, err]", "{'details': details}")
    outcome("addExpectedFailure", dict(T, err="any", details="any"), "[test, err]", "{'details': details}")
    outcome("addSkip", dict(T, reason="any", details="any"), "[test, reason]", "{'details': details}")
    outcome("addSuccess", dict(T, details="any"), "[test]", "{'details': details}")
    outcome("addUnexpectedSuccess", dict(T, details="any"), "[test]", "{'details': details}")
    for m in ("stopTestRun", "stop", "done"):
        R.contract(F + m, props=["C12"] + (["C04"] if m == "stop" else []), context=CTX, requires=["not " + HELD, "self.result is not self.semaphore"], frame_hist=True,
                   modifies=["hist(self.result)", "hist(self.semaphore)"], exsures=[SEM_OK] + (["stop_failed(self.result)"] if m == "stop" else []),
                   ensures=[SEM_OK, "hist(self.result) == snoc(old(hist(self.result)), call('%s', [], {}))" % m])
    R.contract(F + "_get_shouldStop", props=["C12", "C04"], context=CTX, requires=["not " + HELD, "self.result is not self.semaphore"], frame_hist=True,
               modifies=["hist(self.semaphore)"], returns="any",
               ensures=[SEM_OK, "result == self.result.shouldStop", "hist(self.result) == old(hist(self.result))"])
    R.contract(F + "wasSuccessful", props=["C04"], context=CTX, requires=["self.result is not self.semaphore"], frame_hist=True, modifies=["hist(self.result)"], exsures=["True"], returns="any",
               ensures=["hist(self.result) == snoc(old(hist(self.result)), call('wasSuccessful', [], {}))",
                        "hist(self.semaphore) == old(hist(self.semaphore))"])
    R.contract(F + "startTest", props=["C12", "C17"], params=T, context=CTX, requires=["self._tags is not None"], frame_hist=True,
               modifies=["self._test_start", "self._tags", "self.testsRun", "self._mirrorOutput"],
               ensures=["self._test_start is not None", "implies(self._TestResult__now is not None, self._test_start is self._TestResult__now)",
                        "hist(self.result) == old(hist(self.result))", "hist(self.semaphore) == old(hist(self.semaphore))",
                        "not allocated(self._tags)", "self._tags.parent is old(self._tags)", "ctx_tags(self._tags) == old(ctx_tags(self._tags))"])
    # tags(): own context updated; the change is buffered for the test in progress, otherwise for the run
    R.contract(F + "tags", props=["C12", "C17"], params={"new_tags": "anyset", "gone_tags": "anyset"}, context=CTX,
               requires=["self._tags is not None", "new_tags is not self._tags._tags", "gone_tags is not self._tags._tags"],
               frame_hist=True, modifies=["set(self._tags._tags)", "self._test_tags", "self._global_tags"],
               ensures=["ctx_tags(self._tags) == (old(ctx_tags(self._tags)) | old(setof(new_tags))) - old(setof(gone_tags))",
                        "hist(self.result) == old(hist(self.result))",
                        "implies(self._test_start is not None, self._global_tags == old(self._global_tags) and "
                        " setof(self._test_tags[0]) == (old(setof(self._test_tags[0])) | old(setof(new_tags))) - old(setof(gone_tags)) and "
                        " setof(self._test_tags[1]) == (old(setof(self._test_tags[1])) | old(setof(gone_tags))) - old(setof(new_tags)))",
                        # inside a test whose outcome has already been forwarded: the change ends with the test, nothing is buffered
                        "implies(self._test_start is None and self._tags.parent is not None,"
                        " self._test_tags == old(self._test_tags) and self._global_tags == old(self._global_tags))",
                        # at run level: buffered for every later test
                        "implies(self._test_start is None and self._tags.parent is None, self._test_tags == old(self._test_tags) and "
                        " setof(self._global_tags[0]) == (old(setof(self._global_tags[0])) | old(setof(new_tags))) - old(setof(gone_tags)) and "
                        " setof(self._global_tags[1]) == (old(setof(self._global_tags[1])) | old(setof(gone_tags))) - old(setof(new_tags)))"])


def register_tfr3(R):
    F = RR + "ThreadsafeForwardingResult."
    HELD = "(is_snoc(hist(SEM)) and ev_name(hlast(hist(SEM))) == 'acquire')"
    SEM_OK = "hist(self.semaphore) == snoc(old(hist(self.semaphore)), call('acquire', [], {}), call('release', [], {}))"
    R.contract(F + "startTestRun", props=["C12", "C17"], context={"SEM": "self.semaphore"},
               requires=["not " + HELD, "self.result is not self.semaphore"], frame_hist=True,
               modifies=["hist(self.result)", "hist(self.semaphore)", "self._global_tags", "self._test_tags",
                         "self.failures", "self.errors", "self.testsRun", "self.skipped", "self.expectedFailures",
                         "self.unexpectedSuccesses", "self.shouldStop", "self.failfast", "self.tb_locals", "self.buffer",
                         "self._mirrorOutput", "self._stdout_buffer", "self._stderr_buffer", "self._original_stdout",
                         "self._original_stderr", "self._previousTestClass", "self._testRunEntered", "self._moduleSetUpFailed",
                         "self.skip_reasons", "self._TestResult__now", "self._tags"],
               exsures=[SEM_OK],
               ensures=[SEM_OK, "hist(self.result) == snoc(old(hist(self.result)), call('startTestRun', [], {}))",
                        # a new run starts without tags: own context AND the buffered changes
                        "ctx_tags(self._tags) == set()", "self._tags.parent is None",
                        "setof(self._global_tags[0]) == set()", "setof(self._global_tags[1]) == set()",
                        "setof(self._test_tags[0]) == set()", "setof(self._test_tags[1]) == set()",
                        "distinct(self._global_tags[0], self._global_tags[1], self._test_tags[0], self._test_tags[1])",
                        "not allocated(self._global_tags[0])", "not allocated(self._test_tags[0])"])
