"""C08 / C04 / C17: MultiTestResult, TestResultDecorator, Tagger, TestByTestResult."""

RR = "testtools.testresult.real:"
M = RR + "MultiTestResult."


def register(R):
    register_more(R)
    # a wrapped result seen through the extended protocol: every call is one (raw) event, no raise
    R.shape("RawResult", __getattr__=dict(event=True, returns="any", total=True))
    R.fields_of("RawResult$data", shouldStop="any", failfast="any", current_tags="anyset", testsRun="any")
    R.fields_of("MultiTestResult", _results="list[RawResult]", _tags="?TagContext", testsRun="int")
    N = "len(listof(self._results))"
    R.contract(M + "_dispatch", props=["C08"], params={"message": "str", "args": "tuple", "kwargs": "dict"},
               frame_hist=True, modifies=["$hist"], returns="tuple",
               ensures=["HIST() == deliver(old(HIST()), listof(self._results), call(message, args, old(dictof(kwargs))), %s)" % N])

    def fwd(name, params, args, kw="{}", extra_mod=(), extra_ens=(), req=(), props=("C08",)):
        R.contract(M + name, props=list(props), params=params, frame_hist=True, modifies=["$hist"] + list(extra_mod), returns="any",
                   requires=list(req),
                   ensures=["HIST() == deliver(old(HIST()), listof(self._results), call('%s', %s, %s), %s)" % (name, args, kw, N)] + list(extra_ens))
    T = {"test": "any"}
    fwd("addError", dict(T, error="any", details="any"), "[test, error]", "{'details': details}")
    fwd("addFailure", dict(T, err="any", details="any"), "[test, err]", "{'details': details}")
    fwd("addExpectedFailure", dict(T, err="any", details="any"), "[test, err]", "{'details': details}")
    fwd("addSkip", dict(T, reason="any", details="any"), "[test, reason]", "{'details': details}")
    fwd("addSuccess", dict(T, details="any"), "[test]", "{'details': details}")
    fwd("addUnexpectedSuccess", dict(T, details="any"), "[test]", "{'details': details}")
    fwd("stopTestRun", {}, "[]")
    fwd("time", {"a_datetime": "any"}, "[a_datetime]")
    fwd("done", {}, "[]")
    fwd("stop", {}, "[]", props=("C08", "C04"))
    fwd("startTest", T, "[test]", req=["self._tags is not None"], extra_mod=["self._tags", "self.testsRun", "self._mirrorOutput"],
        extra_ens=["not allocated(self._tags)", "self._tags.parent is old(self._tags)", "ctx_tags(self._tags) == old(ctx_tags(self._tags))"],
        props=("C08", "C17"))
    fwd("stopTest", T, "[test]", extra_mod=["self._tags", "self._mirrorOutput"],
        extra_ens=["implies(old(self._tags) is not None and old(self._tags.parent) is not None, self._tags is old(self._tags.parent))",
                   "implies(old(self._tags) is None or old(self._tags.parent) is None, self._tags is old(self._tags))"],
        props=("C08", "C17"))
    fwd("tags", {"new_tags": "anyset", "gone_tags": "anyset"}, "[new_tags, gone_tags]",
        req=["self._tags is not None", "new_tags is not self._tags._tags", "gone_tags is not self._tags._tags"],
        extra_mod=["set(self._tags._tags)"],
        extra_ens=["ctx_tags(self._tags) == (old(ctx_tags(self._tags)) | old(setof(new_tags))) - old(setof(gone_tags))"],
        props=("C08", "C17"))


def register_more(R):
    N = "len(listof(self._results))"
    R.fields_of("RawResult", shouldStop="any", failfast="any", current_tags="anyset", testsRun="any")
    # MultiTestResult.startTestRun as a whole is NOT under contract: the inherited reset (and unittest's __init__ inside it)
    # assigns `self.failfast`, which this class turns into dispatches to every wrapped result (a property), so the parent's
    # contract -- stated over a raw field -- may not be used for this subclass; the two halves of that property
    # (_get_failfast, _set_failfast) are under contract below; the composite is listed under 'not verified' in the evidence.
    # failfast on the multiplexer is a property: reading it is "some wrapped result has it", assigning it is one
    # __setattr__('failfast', value) on EVERY wrapped result, in order (this is what the inherited reset in startTestRun runs into)
    R.contract(M + "_set_failfast", props=["C04"], params={"value": "any"}, frame_hist=True, modifies=["$hist"], returns="none",
               ensures=["HIST() == deliver(old(HIST()), listof(self._results), call('__setattr__', ['failfast', value], {}), %s)" % N])
    R.contract(M + "_get_failfast", props=["C04"], pure=True, returns="bool",
               ensures=["result == any(truthy(r.failfast) for r in self._results)"])
    R.contract(M + "_get_shouldStop", props=["C04"], pure=True, returns="bool",
               ensures=["result == any(truthy(r.shouldStop) for r in self._results)"])
    R.contract(M + "wasSuccessful", props=["C04", "C08"], frame_hist=True, modifies=["$hist"], returns="bool",
               ensures=["HIST() == deliver(old(HIST()), listof(self._results), call('wasSuccessful', [], {}), %s)" % N])

    # ---- TestResultDecorator: one identical call on the decorated result ------------------------------------------
    D = RR + "TestResultDecorator."
    R.fields_of("TestResultDecorator", decorated="RawResult")
    H, H0 = "hist(self.decorated)", "old(hist(self.decorated))"

    def one(name, params, args, kw="{}", cls=D, props=("C08",)):
        R.contract(cls + name, props=list(props), params=params, frame_hist=True, modifies=["hist(self.decorated)"], returns="any",
                   ensures=["%s == snoc(%s, call('%s', %s, %s))" % (H, H0, name, args, kw)])
    T = {"test": "any"}
    one("startTest", T, "[test]")
    one("stopTest", T, "[test]")
    one("startTestRun", {}, "[]")
    one("stopTestRun", {}, "[]")
    one("addError", dict(T, err="any", details="any"), "[test, err]", "{'details': details}")
    one("addFailure", dict(T, err="any", details="any"), "[test, err]", "{'details': details}")
    one("addSuccess", dict(T, details="any"), "[test]", "{'details': details}")
    one("addSkip", dict(T, reason="any", details="any"), "[test, reason]", "{'details': details}")
    one("addExpectedFailure", dict(T, err="any", details="any"), "[test, err]", "{'details': details}")
    one("addUnexpectedSuccess", dict(T, details="any"), "[test]", "{'details': details}")
    one("progress", {"offset": "any", "whence": "any"}, "[offset, whence]")
    one("wasSuccessful", {}, "[]")
    one("stop", {}, "[]", props=("C08", "C04"))
    one("tags", {"new_tags": "any", "gone_tags": "any"}, "[new_tags, gone_tags]", props=("C08", "C17"))
    one("time", {"a_datetime": "any"}, "[a_datetime]")
    R.contract(D + "shouldStop", props=["C04"], pure=True, returns="any", ensures=["result == self.decorated.shouldStop"])
    R.contract(D + "current_tags", props=["C17"], pure=True, returns="any", ensures=["result is self.decorated.current_tags"])
    # Tagger: startTest, then the tag change inside the test
    R.fields_of("Tagger", decorated="RawResult", _new_tags="set", _gone_tags="set")
    R.contract(RR + "Tagger.startTest", props=["C08", "C17"], params=T, frame_hist=True, modifies=["hist(self.decorated)"], returns="any",
               ensures=["%s == snoc(%s, call('startTest', [test], {}), call('tags', [self._new_tags, self._gone_tags], {}))" % (H, H0)])
