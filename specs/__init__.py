"""Sidecar contracts for testtools, one module per area.  ``load_all(R)`` registers everything."""
import importlib
import pkgutil


def load_all(R):
    import specs
    for m in sorted(pkgutil.iter_modules(specs.__path__), key=lambda m: m.name):
        mod = importlib.import_module("specs." + m.name)
        if hasattr(mod, "register"):
            mod.register(R)
    return R
