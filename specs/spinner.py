"""C15 (partial): testtools/twistedsupport/_spinner.py -- the sequential obligations of Spinner.

What a contract can say about Spinner.run is what run() itself does around reactor.run(): refuse stale junk, save the signal
handlers, replace reactor.stop, and on EVERY exit put reactor.stop and the handlers back, take the result from the recorded
success/failure, and clean the reactor.  WHAT reactor.run() does meanwhile (which callback fires first: the function's Deferred,
the timeout, a stop request) is the scheduling of an external event loop and is not decided here."""

SP = "testtools.twistedsupport._spinner:"
S = SP + "Spinner."


def register(R):
    # ---- abstract reactor / delayed calls / signal table ---------------------------------------------------------------
    R.shape("DelayedCall", cancel=dict(signature="", event=True, returns="none"),
            active=dict(signature="", returns="bool", pure=True, noalloc=True))
    # every call on the reactor is one ghost event; run() is where callbacks happen: they may set the spinner's result fields
    R.shape("AReactor",
            callLater=dict(signature="delay, f, a=None, b=None", event=True, returns="DelayedCall", ensures=["not allocated(ret)"]),
            callWhenRunning=dict(signature="f", event=True, returns="any"),
            run=dict(signature="", event=True, returns="any",
                     # callbacks run in here: they may record a success or a failure (always a Failure object) on a spinner,
                     # install signal handlers, and change what is scheduled
                     modifies=["f:_success", "f:_failure", "f:_spinning", "f:sig_handler"],
                     exsures=["forall(lambda rs: implies(fieldof(rs, '_failure') is not old(fieldof(rs, '_failure')), is_shape_(fieldof(rs, '_failure'), 'Flr2')))"],
                     ensures=["forall(lambda rs: implies(fieldof(rs, '_failure') is not old(fieldof(rs, '_failure')), is_shape_(fieldof(rs, '_failure'), 'Flr2')))"]),
            crash=dict(signature="", event=True, returns="none"),
            iterate=dict(signature="delay=0", event=True, returns="none"),
            getDelayedCalls=dict(signature="", event=True, returns="list[DelayedCall]", ensures=["not allocated(ret)"]),
            removeAll=dict(signature="", event=True, returns="list", ensures=["not allocated(ret)"]),
            _stopThreadPool=dict(signature="", event=True, returns="none"))
    R.fields_of("AReactor", stop="any", threadpool="any")
    R.library("twisted.internet.interfaces.IReactorThreads.providedBy", signature="obj", returns="bool", pure=True, noalloc=True)
    R.fields_of("Spinner", _reactor="AReactor", _timeout_call="?DelayedCall", _success="any", _failure="any", _saved_signals="list[(any,any)]",
                _junk="list", _debug="any", _spinning="any", _OBLIGATORY_REACTOR_ITERATIONS="int")
    # iters(h, k): h followed by k iterate(0) events
    R.function("iters", ["hist", "int"], "hist")
    R.axiom("iters_0", {"h": "hist"}, "iters(h, 0) == h", patterns=["iters(h, 0)"])
    R.axiom("iters_step", {"h": "hist", "k": "int"}, "implies(k >= 0, iters(h, k + 1) == snoc(iters(h, k), call('iterate', [0], {})))",
            patterns=["iters(h, k + 1)"])
    R.shape("Flr2", raiseException=dict(signature="", returns="none", pure=True, ensures=["False"], exsures=["exc is self.value"]))
    R.fields_of("Flr2", value="exc")

    # ---- result bookkeeping ------------------------------------------------------------------------------------------
    UNSET = "Spinner._UNSET"
    R.contract(S + "_get_result", props=["C15"], pure=True, returns="any",
               requires=["implies(self._failure is not %s, is_shape_(self._failure, 'Flr2'))" % UNSET],
               # a recorded failure wins and is re-raised as its own exception; else the recorded success is returned; else NoResultError
               exsures=["self._failure is not %s or self._success is %s" % (UNSET, UNSET),
                        "implies(self._failure is not %s, exc is astype(self._failure, 'Flr2').value)" % UNSET,
                        "implies(self._failure is %s, typeof_is(exc, NoResultError))" % UNSET],
               ensures=["self._failure is %s" % UNSET, "self._success is not %s" % UNSET, "ret is self._success"],
               field_tags={"_failure": "Flr2"})
    for name, field in (("_got_success", "_success"), ("_got_failure", "_failure")):
        R.contract(S + name, props=["C15"], params={"result": "any"}, frame_hist=True, modifies=["self." + field, "hist(self._timeout_call)"], returns="none",
                   ensures=["self.%s is result" % field,
                            # the pending timeout is cancelled exactly once
                            "implies(self._timeout_call is not None, hist(self._timeout_call) == snoc(old(hist(self._timeout_call)), call('cancel', [], {})))"])
    R.contract(S + "_stop_reactor", props=["C15"], params={"ignored": "any"}, frame_hist=True, modifies=["self._spinning", "hist(self._reactor)"], returns="none",
               ensures=["not truthy(self._spinning)",
                        "implies(truthy(old(self._spinning)), hist(self._reactor) == snoc(old(hist(self._reactor)), call('crash', [], {})))",
                        "implies(not truthy(old(self._spinning)), hist(self._reactor) == old(hist(self._reactor)))"])
    R.contract(S + "clear_junk", props=["C15"], modifies=["self._junk"], returns="list",
               ensures=["ret is old(self._junk)", "not allocated(self._junk)", "len(listof(self._junk)) == 0"])
    # ---- _clean: every leftover delayed call cancelled once, every selectable removed, all of them remembered as junk ------
    R.contract(S + "_clean", props=["C15"], frame_hist=True, returns="list",
               requires=["self._OBLIGATORY_REACTOR_ITERATIONS >= 0"],
               modifies=["$hist", "list(self._junk)"],
               context={"N": "self._OBLIGATORY_REACTOR_ITERATIONS", "RH0": "old(hist(self._reactor))"},
               ensures=["not allocated(ret)",
                        "listof(self._junk) == old(listof(self._junk)) + listof(ret)",
                        # the reactor is shaken N times FIRST; only then is it asked what is still scheduled (whatever the shaking
                        # left behind is junk too), then told to drop every selectable
                        "hist(self._reactor) == snoc(snoc(iters(RH0, N), call('getDelayedCalls', [], {})), call('removeAll', [], {})) or "
                        "hist(self._reactor) == snoc(snoc(snoc(iters(RH0, N), call('getDelayedCalls', [], {})), call('removeAll', [], {})), call('_stopThreadPool', [], {}))",
                        # the reactor was asked for its delayed calls and told to drop every selectable (last reactor calls made)
                        "is_snoc(hist(self._reactor))",
                        "ev_name(hlast(hist(self._reactor))) == 'removeAll' or ev_name(hlast(hist(self._reactor))) == '_stopThreadPool'"],
               loops={0: dict(invariant=["hist(self._reactor) == iters(RH0, _i)"]),
                      1: dict(invariant=["not allocated(junk)", "listof(junk) == _seq[:_i]" if False else "len(listof(junk)) == _i",
                                         "all(at(listof(junk), k) is at(_seq, k) for k in range(_i))",
                                         "all(is_snoc(hsel(HIST(), at(_seq, k))) and ev_name(hlast(hsel(HIST(), at(_seq, k)))) == 'cancel' for k in range(_i))",
                                         "listof(self._junk) == old(listof(self._junk))", "self._junk is not junk",
                                         "hist(self._reactor) == at_entry(1, hist(self._reactor))"]),
                      2: dict(invariant=["not allocated(junk)", "len(listof(junk)) == at_entry(2, len(listof(junk))) + _i",
                                         "listof(self._junk) == old(listof(self._junk))", "self._junk is not junk",
                                         "hist(self._reactor) == at_entry(2, hist(self._reactor))"])})
    register_signals(R)


def register_signals(R):
    # the process's signal table, keyed by signal number: ghost field sig_handler of the pseudo-object as_ref(number)
    R.lib_values.update({"signal.SIGINT": 2, "signal.SIGTERM": 15, "signal.SIGCHLD": 17})
    R.library("signal.getsignal", signature="signalnum", returns="any", pure=True, noalloc=True, value="fieldof(as_ref(signalnum), 'sig_handler')")
    R.library("signal.signal", signature="signalnum, handler", returns="any", noalloc=True, modifies=["as_ref(signalnum).sig_handler"],
              ensures=["fieldof(as_ref(signalnum), 'sig_handler') is handler"])
    R.define("handler_of", ["n"], "fieldof(as_ref(n), 'sig_handler')")
    R.contract(S + "_save_signals", props=["C15"], modifies=["self._saved_signals"], returns="none",
               ensures=["not allocated(self._saved_signals)",
                        "listof(self._saved_signals) == [(2, handler_of(2)), (15, handler_of(15)), (17, handler_of(17))]"])
    R.contract(S + "_restore_signals", props=["C15"], modifies=["self._saved_signals", "f:sig_handler"], returns="none",
               requires=["forall(lambda i, j: implies(0 <= i and i < j and j < len(listof(self._saved_signals)), "
                         "as_ref(at(elems(at(listof(self._saved_signals), i)), 0)) is not as_ref(at(elems(at(listof(self._saved_signals), j)), 0))))",
                         "all(isinstance(at(elems(p), 0), int) for p in listof(self._saved_signals))"],
               ensures=["not allocated(self._saved_signals)", "len(listof(self._saved_signals)) == 0",
                        # every saved handler is installed again
                        "all(handler_of(at(elems(p), 0)) is at(elems(p), 1) for p in old(listof(self._saved_signals)))"],
               loops={0: dict(invariant=["all(handler_of(at(elems(at(_seq, k)), 0)) is at(elems(at(_seq, k)), 1) for k in range(_i))",
                                         "self._saved_signals is old(self._saved_signals)"])})
    register_run(R)


def register_run(R):
    UNSET = "Spinner._UNSET"
    R.library("fixtures.Fixture", signature="", returns="CtxFix", pure=True, ensures=["not allocated(result)"])
    R.shape("CtxFix", __enter__=dict(signature="", returns="any", pure=True, noalloc=True),
            __exit__=dict(signature="a, b, c", returns="any", pure=True, noalloc=True, ensures=["not truthy(ret)"]))
    SIGS_BACK = "handler_of(2) is old(handler_of(2)) and handler_of(15) is old(handler_of(15)) and handler_of(17) is old(handler_of(17))"
    STOP_BACK = "self._reactor.stop is old(self._reactor.stop)"
    STALE = "len(old(listof(self._junk))) > 0"
    R.contract(S + "run", props=["C15"], params={"timeout": "any", "function": "any", "args": "tuple", "kwargs": "dict"},
               requires=["not truthy(self._debug)",                                      # DebugTwisted (a fixtures.Fixture subclass) is not modelled
                         "self._OBLIGATORY_REACTOR_ITERATIONS >= 0",
                         "implies(self._failure is not %s, is_shape_(self._failure, 'Flr2'))" % UNSET],
               frame_hist=True, returns="any",
               modifies=["$hist", "self._timeout_call", "self._saved_signals", "f:sig_handler", "self._reactor.stop", "f:_success", "f:_failure",
                         "f:_spinning", "list(self._junk)"],
               exsures=[
                   # whatever happens: reactor.stop and the three signal handlers are what they were before the call
                   STOP_BACK, SIGS_BACK,
                   # junk left by a previous run: refused, nothing is scheduled or run
                   "implies(%s, typeof_is(exc, StaleJunkError) and hist(self._reactor) == old(hist(self._reactor)))" % STALE],
               ensures=[STOP_BACK, SIGS_BACK, "not (%s)" % STALE,
                        # the value is the one a callback recorded; no failure was recorded
                        "ret is self._success", "self._failure is %s" % UNSET, "self._success is not %s" % UNSET,
                        # the reactor was cleaned after the result was taken
                        "is_snoc(hist(self._reactor))"])
    register_reentrant(R)


def register_reentrant(R):
    # the not_reentrant wrapper (nested function; `function` and the shared table `_calls` are its free variables)
    R.function("fn_raised", ["val"], "bool")
    R.function("fn_exc", ["val"], "val")
    R.function("fn_value", ["val"], "val")
    R.shape("GuardedFn", __call__=dict(event=True, returns="any", ensures=["not fn_raised(self)", "ret == fn_value(self)"],
                                       exsures=["fn_raised(self)", "exc is fn_exc(self)"]))
    R.contract(SP + "ReentryError.__init__", assumed=True, params={"function": "any"}, modifies=["self.args"], returns="none")
    BUSY = "truthy(ite(function in old(dictof(_calls)), kwget(old(dictof(_calls)), function), False))"
    R.contract(SP + "not_reentrant.<decorated>", props=["C15"], params={"args": "tuple", "kwargs": "dict"},
               ghost_params={"function": "GuardedFn", "_calls": "dict"},
               frame_hist=True, modifies=["hist(function)", "dict(_calls)"], returns="any",
               exsures=[
                   # already inside a call: refused, the function is NOT called, the table is untouched
                   "implies(%s, typeof_is(exc, ReentryError) and hist(function) == old(hist(function)) and dictof(_calls) == old(dictof(_calls)))" % BUSY,
                   # otherwise the function ran once, raised, and the busy mark is cleared again
                   "implies(not %s, fn_raised(function) and exc is fn_exc(function) and "
                   "is_snoc(hist(function)) and hinit(hist(function)) == old(hist(function)) and "
                   "dictof(_calls) == store(old(dictof(_calls)), function, False))" % BUSY],
               ensures=["not %s" % BUSY, "not fn_raised(function)", "ret == fn_value(function)",
                        "is_snoc(hist(function))", "hinit(hist(function)) == old(hist(function))",
                        "dictof(_calls) == store(old(dictof(_calls)), function, False)"])
