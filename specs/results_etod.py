"""C08 / C04 / C17: ExtendedToOriginalDecorator over a raw Target of unknown flavour."""

RR = "testtools.testresult.real:"
E = RR + "ExtendedToOriginalDecorator."


def register(R):
    register_rest(R)
    register_plumbing(R)
    R.fields_of("ExtendedToOriginalDecorator", decorated="Target", _tags="?TagContext", _failfast="any", _shouldStop="any")
    R.fields_of("_StringException", args="tuple")
    R.define("D_", ["s"], "s.decorated")
    R.define("ff_", ["s"], "truthy(ite(has(s.decorated, 'failfast'), fieldof(s.decorated, 'failfast'), s._failfast))")
    # history of the target after the failfast step that follows an unsuccessful outcome
    R.define("after_ff", ["s", "h"], "ite(old(ff_(s)) and has(s.decorated, 'stop'), snoc(h, call('stop', [], {})), h)")
    R.define("ff_flags", ["s"],
             "implies(old(ff_(s)) and not has(s.decorated, 'stop'),"
             "        ite(has(s.decorated, 'shouldStop'), fieldof(s.decorated, 'shouldStop') == True, s._shouldStop == True))"
             " and implies(not (old(ff_(s)) and not has(s.decorated, 'stop')),"
             "        s._shouldStop == old(s._shouldStop) and fieldof(s.decorated, 'shouldStop') == old(fieldof(s.decorated, 'shouldStop')))")
    R.define("is_strexc_info", ["v"], "len(elems(v)) == 3 and elems(v)[0] == _StringException and "
             "typeof_is(elems(v)[1], _StringException) and elems(v)[2] is None")
    DET = "?dict[any=>AContent]"

    def outcome3(name):
        """addError / addFailure: details= if accepted, else a synthetic string exception; then the failfast step"""
        R.contract(E + name, props=["C08", "C04"], params={"test": "any", "err": "any", "details": DET},
                   frame_hist=True, modifies=["hist(self.decorated)", "self._shouldStop", "self.decorated.shouldStop"],
                   exsures=["(err is None) == (details is None)", "subclass_of(cls_of(exc), ValueError)",
                            "hist(self.decorated) == after_ff(self, old(hist(self.decorated)))"],
                   ensures=[
                       "(err is None) != (details is None)",
                       "implies(details is not None and accepts(self.decorated, '%s', 'details'),"
                       " hist(self.decorated) == after_ff(self, snoc(old(hist(self.decorated)), call('%s', [test], {'details': details}))))" % (name, name),
                       "implies(details is not None and not accepts(self.decorated, '%s', 'details'),"
                       " exists(lambda v: is_strexc_info(v) and "
                       " hist(self.decorated) == after_ff(self, snoc(old(hist(self.decorated)), call('%s', [test, v], {})))))" % (name, name),
                       "implies(details is None, hist(self.decorated) == after_ff(self, snoc(old(hist(self.decorated)), call('%s', [test, err], {}))))" % name,
                       "ff_flags(self)",
                   ])
    outcome3("addError")
    outcome3("addFailure")
    R.contract(E + "addSuccess", props=["C08", "C04"], params={"test": "any", "details": DET},
               frame_hist=True, modifies=["hist(self.decorated)"],
               ensures=["hist(self.decorated) == snoc(old(hist(self.decorated)), "
                        "(call('addSuccess', [test], {'details': details}) if (details is not None and accepts(self.decorated, 'addSuccess', 'details')) "
                        " else call('addSuccess', [test], {})))"])
    R.contract(E + "_check_args", inline=True)
    R.contract(E + "_details_to_exc_info", inline=True)


def register_rest(R):
    DET = "?dict[any=>AContent]"
    H = "hist(self.decorated)"
    H0 = "old(hist(self.decorated))"
    R.contract(RR + "_details_to_str", assumed=True, params={"details": "dict", "special": "any"}, returns="str", pure=True,
               ensures=["result == details_text(dictof(details), special)"])
    R.function("details_text", ["map", "val"], "str")
    # addSkip: details= | reason (details['reason'] text, else the rendered details) | addSuccess when the target has no addSkip
    R.contract(E + "addSkip", props=["C08"], params={"test": "any", "reason": "any", "details": DET},
               frame_hist=True, modifies=["hist(self.decorated)"],
               exsures=["(reason is None) == (details is None)", "subclass_of(cls_of(exc), ValueError)", H + " == " + H0],
               ensures=[
                   "(reason is None) != (details is None)",
                   "implies(not has(self.decorated, 'addSkip'), %s == snoc(%s, call('addSuccess', [test], {})))" % (H, H0),
                   "implies(has(self.decorated, 'addSkip') and details is not None and accepts(self.decorated, 'addSkip', 'details'),"
                   " %s == snoc(%s, call('addSkip', [test], {'details': details})))" % (H, H0),
                   "implies(has(self.decorated, 'addSkip') and details is not None and not accepts(self.decorated, 'addSkip', 'details'),"
                   " exists(lambda vs: isinstance(vs, str) and %s == snoc(%s, call('addSkip', [test, vs], {}))"
                   "   and implies(not member('reason', dictof(details)), asstr(vs) == details_text(dictof(details), None))))" % (H, H0),
                   "implies(has(self.decorated, 'addSkip') and details is None, %s == snoc(%s, call('addSkip', [test, reason], {})))" % (H, H0),
               ])
    R.contract(E + "addExpectedFailure", props=["C08"], params={"test": "any", "err": "any", "details": DET},
               frame_hist=True, modifies=["hist(self.decorated)"],
               exsures=["(err is None) == (details is None)", "subclass_of(cls_of(exc), ValueError)", H + " == " + H0],
               ensures=[
                   "(err is None) != (details is None)",
                   "implies(not has(self.decorated, 'addExpectedFailure'), %s == snoc(%s, call('addSuccess', [test], {})))" % (H, H0),
                   "implies(has(self.decorated, 'addExpectedFailure') and details is not None and accepts(self.decorated, 'addExpectedFailure', 'details'),"
                   " %s == snoc(%s, call('addExpectedFailure', [test], {'details': details})))" % (H, H0),
                   "implies(has(self.decorated, 'addExpectedFailure') and details is not None and not accepts(self.decorated, 'addExpectedFailure', 'details'),"
                   " exists(lambda v: is_strexc_info(v) and %s == snoc(%s, call('addExpectedFailure', [test, v], {}))))" % (H, H0),
                   "implies(has(self.decorated, 'addExpectedFailure') and details is None, %s == snoc(%s, call('addExpectedFailure', [test, err], {})))" % (H, H0),
               ])
    # addUnexpectedSuccess: never a passing outcome: without the method it becomes a failure
    R.shape("ATest", id=dict(signature="", returns="any", pure=True))
    R.fields_of("ATest", failureException="maybe class")
    R.contract(E + "addUnexpectedSuccess", props=["C08", "C04"], params={"test": "ATest", "details": DET},
               frame_hist=True, modifies=["hist(self.decorated)", "self._shouldStop", "self.decorated.shouldStop"],
               requires=["fieldof(test, 'failureException') is None or fieldof(test, 'failureException') is absent() or "
                         "(is_cls(fieldof(test, 'failureException')) and subclass_of(fieldof(test, 'failureException'), Exception))"],
               ensures=[
                   "implies(has(self.decorated, 'addUnexpectedSuccess') and details is not None and accepts(self.decorated, 'addUnexpectedSuccess', 'details'),"
                   " %s == after_ff(self, snoc(%s, call('addUnexpectedSuccess', [test], {'details': details}))))" % (H, H0),
                   "implies(has(self.decorated, 'addUnexpectedSuccess') and not (details is not None and accepts(self.decorated, 'addUnexpectedSuccess', 'details')),"
                   " %s == after_ff(self, snoc(%s, call('addUnexpectedSuccess', [test], {}))))" % (H, H0),
                   "implies(not has(self.decorated, 'addUnexpectedSuccess'),"
                   " exists(lambda v: len(elems(v)) == 3 and %s == after_ff(self, after_ff(self, snoc(%s, call('addFailure', [test, v], {}))))))" % (H, H0),
               ])


def register_plumbing(R):
    H = "hist(self.decorated)"
    H0 = "old(hist(self.decorated))"
    TAGREQ = ["has(self.decorated, 'tags') == has(self.decorated, 'current_tags')"]   # the two come together in every target flavour
    R.contract(E + "startTest", props=["C08", "C17"], params={"test": "any"},
               requires=["self._tags is not None"], frame_hist=True, modifies=["hist(self.decorated)", "self._tags"],
               ensures=[H + " == snoc(" + H0 + ", call('startTest', [test], {}))",
                        "not allocated(self._tags)", "self._tags.parent is old(self._tags)", "ctx_tags(self._tags) == old(ctx_tags(self._tags))"])
    R.contract(E + "stopTest", props=["C08", "C17"], params={"test": "any"},
               frame_hist=True, modifies=["hist(self.decorated)", "self._tags"],
               ensures=[H + " == snoc(" + H0 + ", call('stopTest', [test], {}))",
                        "implies(old(self._tags) is not None and old(self._tags.parent) is not None, self._tags is old(self._tags.parent))",
                        "implies(old(self._tags) is None or old(self._tags.parent) is None, self._tags is old(self._tags))"])
    for m in ("startTestRun", "stopTestRun", "done"):
        mods = ["hist(self.decorated)"] + (["self._tags"] if m == "startTestRun" else [])
        ens = ["%s == (snoc(%s, call('%s', [], {})) if has(self.decorated, '%s') else %s)" % (H, H0, m, m, H0)]
        if m == "startTestRun":
            ens += ["not allocated(self._tags)", "self._tags.parent is None", "ctx_tags(self._tags) == set()"]
        R.contract(E + m, props=["C08", "C17"] if m == "startTestRun" else ["C08"], frame_hist=True, modifies=mods, ensures=ens)
    R.contract(E + "time", props=["C08"], params={"a_datetime": "any"}, frame_hist=True, modifies=["hist(self.decorated)"],
               ensures=["%s == (snoc(%s, call('time', [a_datetime], {})) if has(self.decorated, 'time') else %s)" % (H, H0, H0)])
    R.contract(E + "progress", props=["C08"], params={"offset": "any", "whence": "any"}, frame_hist=True, modifies=["hist(self.decorated)"],
               ensures=["%s == (snoc(%s, call('progress', [offset, whence], {})) if has(self.decorated, 'progress') else %s)" % (H, H0, H0)])
    R.contract(E + "tags", props=["C08", "C17"], params={"new_tags": "anyset", "gone_tags": "anyset"},
               requires=["self._tags is not None", "new_tags is not self._tags._tags", "gone_tags is not self._tags._tags"],
               frame_hist=True, modifies=["hist(self.decorated)", "set(self._tags._tags)"],
               ensures=["implies(has(self.decorated, 'tags'), %s == snoc(%s, call('tags', [new_tags, gone_tags], {})) and ctx_tags(self._tags) == old(ctx_tags(self._tags)))" % (H, H0),
                        "implies(not has(self.decorated, 'tags'), %s == %s and "
                        "ctx_tags(self._tags) == (old(ctx_tags(self._tags)) | old(setof(new_tags))) - old(setof(gone_tags)))" % (H, H0)])
    R.contract(E + "current_tags", props=["C17"], requires=["self._tags is not None"], pure=True, returns="anyset",
               ensures=["implies(has(self.decorated, 'current_tags'), result is fieldof(self.decorated, 'current_tags'))",
                        "implies(not has(self.decorated, 'current_tags'), not allocated(result) and setof(result) == ctx_tags(self._tags))"])
    # stop(): reaches the target's stop() when it has one, otherwise the decorator's own flag (or the target's shouldStop attribute)
    R.contract(E + "stop", props=["C04", "C08"], frame_hist=True, modifies=["hist(self.decorated)", "self._shouldStop", "self.decorated.shouldStop"],
               ensures=["implies(has(self.decorated, 'stop'), %s == snoc(%s, call('stop', [], {})) and self._shouldStop == old(self._shouldStop)"
                        " and fieldof(self.decorated, 'shouldStop') == old(fieldof(self.decorated, 'shouldStop')))" % (H, H0),
                        "implies(not has(self.decorated, 'stop'), %s == %s and "
                        "ite(has(self.decorated, 'shouldStop'),"
                        "    fieldof(self.decorated, 'shouldStop') == True and self._shouldStop == old(self._shouldStop),"
                        "    self._shouldStop == True and fieldof(self.decorated, 'shouldStop') == old(fieldof(self.decorated, 'shouldStop'))))" % (H, H0)])
    R.contract(E + "_get_shouldStop", props=["C04"], pure=True, returns="any",
               ensures=["result == ite(has(self.decorated, 'shouldStop'), fieldof(self.decorated, 'shouldStop'), self._shouldStop)"])
    R.contract(E + "_set_shouldStop", props=["C04"], params={"value": "any"}, modifies=["self._shouldStop", "self.decorated.shouldStop"],
               ensures=["ite(has(self.decorated, 'shouldStop'), fieldof(self.decorated, 'shouldStop') == value and self._shouldStop == old(self._shouldStop),"
                        " self._shouldStop == value)"])
    R.contract(E + "_get_failfast", props=["C04"], pure=True, returns="any",
               ensures=["result == ite(has(self.decorated, 'failfast'), fieldof(self.decorated, 'failfast'), self._failfast)"])
    R.contract(E + "_set_failfast", props=["C04"], params={"value": "any"}, modifies=["self._failfast", "self.decorated.failfast"],
               ensures=["ite(has(self.decorated, 'failfast'), fieldof(self.decorated, 'failfast') == value and self._failfast == old(self._failfast),"
                        " self._failfast == value)"])
    R.contract(E + "wasSuccessful", props=["C04", "C08"], frame_hist=True, modifies=["hist(self.decorated)"], returns="any",
               ensures=["%s == snoc(%s, call('wasSuccessful', [], {}))" % (H, H0)])
