"""Assumed contracts of unittest.TestResult (library leaf; audited at run time by replay/audit.py)."""


def register(R):
    fields = dict(failures="list", errors="list", testsRun="int", skipped="list", expectedFailures="list",
                  unexpectedSuccesses="list", shouldStop="bool", failfast="bool", tb_locals="bool", buffer="bool")
    R.fields_of("unittest.TestResult", **fields)
    R.library("unittest.TestResult.__init__", signature="stream=None, descriptions=None, verbosity=None",
              modifies=["self.failures", "self.errors", "self.testsRun", "self.skipped", "self.expectedFailures",
                        "self.unexpectedSuccesses", "self.shouldStop", "self.failfast", "self.tb_locals", "self.buffer",
                        "self._mirrorOutput", "self._stdout_buffer", "self._stderr_buffer", "self._original_stdout",
                        "self._original_stderr", "self._previousTestClass", "self._testRunEntered", "self._moduleSetUpFailed"],
              returns="none",
              ensures=["len(listof(self.failures)) == 0", "len(listof(self.errors)) == 0", "self.testsRun == 0",
                       "len(listof(self.skipped)) == 0", "len(listof(self.expectedFailures)) == 0",
                       "len(listof(self.unexpectedSuccesses)) == 0", "self.shouldStop == False",
                       "self.failfast == False", "self.tb_locals == False",
                       "not allocated(self.failures)", "not allocated(self.errors)", "not allocated(self.skipped)",
                       "not allocated(self.expectedFailures)", "not allocated(self.unexpectedSuccesses)",
                       "distinct(self.failures, self.errors, self.skipped, self.expectedFailures, self.unexpectedSuccesses)"])
    R.library("unittest.TestResult.startTest", signature="test", modifies=["self.testsRun", "self._mirrorOutput"], returns="none",
              noalloc=True, ensures=["self.testsRun == old(self.testsRun) + 1"])
    R.library("unittest.TestResult.stopTest", signature="test", modifies=["self._mirrorOutput"], returns="none", noalloc=True)
    R.library("unittest.TestResult.stop", signature="", modifies=["self.shouldStop"], returns="none", noalloc=True,
              ensures=["self.shouldStop == True"])
    R.library("unittest.TestResult.startTestRun", signature="", returns="none", noalloc=True)
    R.library("unittest.TestResult.stopTestRun", signature="", returns="none", noalloc=True)
