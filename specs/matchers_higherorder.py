"""C06: combinators in testtools/matchers/_higherorder.py"""

M = "testtools.matchers._higherorder:"


def register(R):
    from specs.a_common import matcher
    R.fields_of("MatchesAll", matchers="tuple[AMatcher]", first_only="bool")
    R.fields_of("MatchesAny", matchers="tuple[AMatcher]")
    R.fields_of("Not", matcher="AMatcher")
    R.fields_of("Annotate", matcher="AMatcher", annotation="any")
    R.fields_of("MismatchesAll", mismatches="list[AMismatch]", _wrap="bool")
    R.fields_of("AllMatch", matcher="AMatcher")
    R.fields_of("AnyMatch", matcher="AMatcher")
    R.fields_of("AfterPreprocessing", matcher="AMatcher", preprocessor="PureFn", annotate="bool")
    R.fields_of("MatchesPredicate", predicate="PureFn", message="str")
    R.fields_of("_MatchesPredicateWithParams", predicate="PureFn", message="str", name="any", args="tuple", kwargs="dict")
    R.fields_of("MismatchDecorator", original="any")
    R.fields_of("PostfixedMismatch", annotation="any", mismatch="any")

    matcher(R, M + "MatchesAll.match", params={"matchee": "any"},
               ensures=["(result is None) == all(holds(m, matchee) for m in self.matchers)"],
               loops={0: dict(invariant=[
                   "not allocated(results)",
                   "(len(results) == 0) == all(holds(_seq[j], matchee) for j in range(_i))",
               ])})
    matcher(R, M + "MatchesAny.match", params={"matchee": "any"},
               ensures=["(result is None) == any(holds(m, matchee) for m in self.matchers)"],
               loops={0: dict(invariant=[
                   "not allocated(results)",
                   "all(not holds(_seq[j], matchee) for j in range(_i))",
               ])})
    matcher(R, M + "Not.match", params={"other": "any"},
               ensures=["(result is None) == (not holds(self.matcher, other))"])
    matcher(R, M + "Annotate.match", params={"other": "any"},
               ensures=["(result is None) == holds(self.matcher, other)"])
    matcher(R, M + "AllMatch.match", params={"values": "list"},
               ensures=["(result is None) == all(holds(self.matcher, v) for v in values)"],
               loops={0: dict(invariant=[
                   "not allocated(mismatches)",
                   "(len(mismatches) == 0) == all(holds(self.matcher, _seq[j]) for j in range(_i))",
               ])})
    matcher(R, M + "AnyMatch.match", params={"values": "list"},
               ensures=["(result is None) == any(holds(self.matcher, v) for v in values)"],
               loops={0: dict(invariant=[
                   "not allocated(mismatches)",
                   "all(not holds(self.matcher, _seq[j]) for j in range(_i))",
               ])})
    # AfterPreprocessing: the inner verdict on f(x); exceptions of the preprocessor propagate
    matcher(R, M + "AfterPreprocessing.match", params={"value": "any"},
               exsures=["True"],
               ensures=["(result is None) == holds(self.matcher, fn_result(self.preprocessor, [value]))"])
    R.contract(M + "AfterPreprocessing._str_preprocessor", params={}, returns="str", inline=True)
    matcher(R, M + "MatchesPredicate.match", params={"x": "any"},
               exsures=["True"],
               ensures=["(result is None) == truthy(fn_result(self.predicate, [x]))"])
