"""C06: combinators in testtools/matchers/_higherorder.py"""

M = "testtools.matchers._higherorder:"


def register(R):
    R.fields_of("MatchesAll", matchers="tuple[AMatcher]", first_only="bool")
    R.fields_of("MatchesAny", matchers="tuple[AMatcher]")
    R.fields_of("Not", matcher="AMatcher")
    R.fields_of("Annotate", matcher="AMatcher", annotation="any")
    R.fields_of("MismatchesAll", mismatches="list", _wrap="bool")
    R.fields_of("AllMatch", matcher="AMatcher")
    R.fields_of("AnyMatch", matcher="AMatcher")
    R.fields_of("AfterPreprocessing", matcher="AMatcher", preprocessor="PureFn", annotate="bool")
    R.fields_of("MatchesPredicate", predicate="PureFn", message="str")
    R.fields_of("_MatchesPredicateWithParams", predicate="PureFn", message="str", name="any", args="tuple", kwargs="dict")
    R.fields_of("MismatchDecorator", original="any")
    R.fields_of("PostfixedMismatch", annotation="any", mismatch="any")

    R.contract(M + "MatchesAll.match", props=["C06"], params={"matchee": "any"}, pure=True,
               ensures=["(result is None) == all(holds(m, matchee) for m in self.matchers)"],
               loops={0: dict(invariant=[
                   "not allocated(results)",
                   "(len(results) == 0) == all(holds(_seq[j], matchee) for j in range(_i))",
               ])})
    R.contract(M + "MatchesAny.match", props=["C06"], params={"matchee": "any"}, pure=True,
               ensures=["(result is None) == any(holds(m, matchee) for m in self.matchers)"],
               loops={0: dict(invariant=[
                   "not allocated(results)",
                   "all(not holds(_seq[j], matchee) for j in range(_i))",
               ])})
    R.contract(M + "Not.match", props=["C06"], params={"other": "any"}, pure=True,
               ensures=["(result is None) == (not holds(self.matcher, other))"])
    R.contract(M + "Annotate.match", props=["C06"], params={"other": "any"}, pure=True,
               ensures=["(result is None) == holds(self.matcher, other)"])
    R.contract(M + "AllMatch.match", props=["C06"], params={"values": "list"}, pure=True,
               ensures=["(result is None) == all(holds(self.matcher, v) for v in values)"],
               loops={0: dict(invariant=[
                   "not allocated(mismatches)",
                   "(len(mismatches) == 0) == all(holds(self.matcher, _seq[j]) for j in range(_i))",
               ])})
    R.contract(M + "AnyMatch.match", props=["C06"], params={"values": "list"}, pure=True,
               ensures=["(result is None) == any(holds(self.matcher, v) for v in values)"],
               loops={0: dict(invariant=[
                   "not allocated(mismatches)",
                   "all(not holds(self.matcher, _seq[j]) for j in range(_i))",
               ])})
    # AfterPreprocessing: the inner verdict on f(x); exceptions of the preprocessor propagate
    R.contract(M + "AfterPreprocessing.match", props=["C06"], params={"value": "any"}, pure=True,
               exsures=["True"],
               ensures=["(result is None) == holds(self.matcher, fn_result(self.preprocessor, [value]))"])
    R.contract(M + "AfterPreprocessing._str_preprocessor", params={}, pure=True, returns="str", inline=True)
    R.contract(M + "MatchesPredicate.match", props=["C06"], params={"x": "any"}, pure=True,
               exsures=["True"],
               ensures=["(result is None) == truthy(fn_result(self.predicate, [x]))"])
