"""C06/C07: combinators in testtools/matchers/_higherorder.py"""

M = "testtools.matchers._higherorder:"


def register(R):
    # verdict of an abstract matcher on a value: an uninterpreted FUNCTION (determinism by construction)
    R.function("holds", ["val", "val"], "bool")
    R.shape("AMatcher",
            match=dict(signature="x", returns="?AMismatch", pure=True,
                       ensures=["(result is None) == holds(self, x)"]))
    R.shape("AMismatch")
    R.fields_of("MatchesAll", matchers="tuple[AMatcher]", first_only="bool")
    R.fields_of("MatchesAny", matchers="tuple[AMatcher]")
    R.fields_of("Not", matcher="AMatcher")
    R.fields_of("Annotate", matcher="AMatcher", annotation="any")
    R.fields_of("MismatchesAll", mismatches="list", _wrap="bool")

    R.contract(M + "MatchesAll.match", props=["C06"], params={"matchee": "any"}, pure=True,
               returns="any",
               ensures=["(result is None) == all(holds(m, matchee) for m in self.matchers)"],
               loops={0: dict(invariant=[
                   "not allocated(results)",
                   "(len(results) == 0) == all(holds(_seq[j], matchee) for j in range(_i))",
               ])})
    R.contract(M + "MatchesAny.match", props=["C06"], params={"matchee": "any"}, pure=True,
               ensures=["(result is None) == any(holds(m, matchee) for m in self.matchers)"],
               loops={0: dict(invariant=[
                   "not allocated(results)",
                   "all(not holds(_seq[j], matchee) for j in range(_i))",
               ])})
    R.contract(M + "Not.match", props=["C06"], params={"other": "any"}, pure=True,
               ensures=["(result is None) == (not holds(self.matcher, other))"])
    R.contract(M + "Annotate.match", props=["C06"], params={"other": "any"}, pure=True,
               ensures=["(result is None) == holds(self.matcher, other)"])
