"""C13: testtools/testsuite.py -- concurrent suites, per-thread (sequential) obligations."""

TS = "testtools.testsuite:"


def register(R):
    # a sub-suite produced by make_tests: run(result) is user code -- it may return or raise anything
    R.function("sub_raised", ["val"], "bool")
    R.function("sub_exc", ["val"], "val")
    R.shape("SubSuite", run=dict(signature="result", event=True, returns="any", ensures=["not sub_raised(self)"],
                                 exsures=["sub_raised(self)", "exc is sub_exc(self)"]))
    # the completion queue and the stand-in test built for a crashed runner: one ghost event per call
    R.shape("AQueue", put=dict(signature="item", event=True, returns="none"))
    R.function("eh_id", ["val"], "val")
    R.function("eh_error", ["val"], "val")
    R.shape("ErrHolder", run=dict(signature="result=None", event=True, returns="any"))
    # ErrorHolder(test_id, error): a new placeholder test whose outcome is addError carrying `error` (PlaceHolder.run: C09)
    R.contract("testtools.testcase:ErrorHolder", assumed=True, params={"test_id": "any", "error": "any", "short_description": "any", "details": "any"},
               returns="ErrHolder", pure=True, ensures=["not allocated(ret)", "eh_id(ret) == test_id", "eh_error(ret) == error", "hist(ret) == hnil()"])
    ran = "hist(test) == snoc(old(hist(test)), call('run', [process_result], {}))"
    # what the worker did about a crash: nothing, or exactly one new 'broken-runner' error holder run against this worker's result
    def broken(name):
        return ("exists(lambda rh: not allocated(rh) and is_shape_(rh, 'ErrHolder') and eh_id(rh) == %s and "
                "elems(eh_error(rh))[1] is sub_exc(test) and "
                "hsel(HIST(), rh) == snoc(hnil(), call('run', [process_result], {})))" % name)
    none_new = "forall(lambda rh: implies(not allocated(rh) and is_shape_(rh, 'ErrHolder'), len(hsel(HIST(), rh)) == 0))"
    R.contract(TS + "ConcurrentTestSuite._run_test", props=["C13"],
               params={"test": "SubSuite", "process_result": "ExtResult", "queue": "AQueue"},
               requires=["test is not queue"], frame_hist=True, modifies=["$hist"], returns="none",
               # a runner crash that is not an Exception (interrupt, SystemExit) propagates -- after the completion was signalled
               exsures=["sub_raised(test) and not isinstance(sub_exc(test), Exception) and exc is sub_exc(test)",
                        ran, "hist(queue) == snoc(old(hist(queue)), call('put', [test], {}))"],
               ensures=[ran,
                        # completion is signalled exactly once, with this worker's own test, on every exit
                        "hist(queue) == snoc(old(hist(queue)), call('put', [test], {}))",
                        "implies(not sub_raised(test), hist(process_result) == old(hist(process_result)))",
                        # a crashed runner is reported as an errored 'broken-runner' test instead of being lost
                        "implies(sub_raised(test), " + broken("'broken-runner'") + ")"])
    R.contract(TS + "ConcurrentStreamTestSuite._run_test", props=["C13"],
               params={"test": "SubSuite", "process_result": "ExtResult", "route_code": "any"},
               frame_hist=True, modifies=["$hist"], returns="none",
               exsures=["sub_raised(test) and not isinstance(sub_exc(test), Exception) and exc is sub_exc(test)",
                        ran, "hist(process_result) == snoc(snoc(old(hist(process_result)), call('startTestRun', [], {})), call('stopTestRun', [], {}))"],
               ensures=[ran,
                        # the worker's stream is bracketed by startTestRun ... stopTestRun on every exit (the dequeue loop waits for it)
                        "hist(process_result) == snoc(snoc(old(hist(process_result)), call('startTestRun', [], {})), call('stopTestRun', [], {}))",
                        "implies(sub_raised(test), exists(lambda rh: not allocated(rh) and is_shape_(rh, 'ErrHolder') and "
                        "elems(eh_error(rh))[1] is sub_exc(test) and hsel(HIST(), rh) == snoc(hnil(), call('run', [process_result], {}))))"])
    register_main(R)


def register_main(R):
    # ---- the coordinating thread of ConcurrentTestSuite.run (sequential reading; Thread/Queue/Semaphore are abstract) ----
    R.function("th_args", ["val"], "val")
    R.shape("AThread", start=dict(signature="", event=True, returns="none", exsures=["True"]),
            join=dict(signature="timeout=None", event=True, returns="none", exsures=["True"]))
    # a dict taken from the queue was put there by another thread: it is none of this frame's own dicts (modelled as newly allocated)
    R.shape("AQueue", get=dict(signature="block=True, timeout=None", event=True, returns="any", exsures=["True"],
                               ensures=["implies(is_ref(ret) and typeof_is(ret, extclass('dict')), not allocated(ret))"]))
    R.library("queue.Queue", signature="maxsize=0", returns="AQueue", pure=True, ensures=["not allocated(result)", "hist(result) == hnil()"])
    R.library("threading.Semaphore", signature="value=1", returns="Semaphore1", pure=True, ensures=["not allocated(result)", "hist(result) == hnil()"])
    R.library("threading.Thread", signature="group=None, target=None, name=None, args=(), kwargs=None", returns="AThread", pure=True,
              ensures=["not allocated(result)", "hist(result) == hnil()", "th_args(result) == args"])
    R.shape("MakeTests", __call__=dict(signature="suite", event=True, returns="list[SubSuite]", exsures=["True"],
                                       # the sub-suites are distinct objects (they are used as dictionary keys)
                                       ensures=["not allocated(ret)", "all(is_ref(t) for t in listof(ret))",
                                                "forall(lambda i, j: implies(0 <= i and i < j and j < len(listof(ret)), "
                                                "at(listof(ret), i) is not at(listof(ret), j)))"]))
    R.fields_of("ConcurrentTestSuite", make_tests="MakeTests")
    STARTED = "snoc(hnil(), call('start', [], {}))"
    JOINED = "snoc(snoc(hnil(), call('start', [], {})), call('join', [None], {}))"
    # entry (th, pr) stored under test t: a thread created by this call for (t, pr, queue), started once and not joined yet;
    # pr is a ThreadsafeForwardingResult made by this call around the caller's result and THE one semaphore
    R.define("entry_ok", ["t", "v", "q", "sem", "res"],
             "not allocated(at(elems(v), 0)) and is_shape_(at(elems(v), 0), 'AThread') and th_args(at(elems(v), 0)) == (t, at(elems(v), 1), q) and "
             "hsel(HIST(), at(elems(v), 0)) == " + STARTED + " and not allocated(at(elems(v), 1)) and "
             "pr_ok(v, sem, res)")
    # the worker's result: a ThreadsafeForwardingResult made by this call, sharing THE semaphore, whose target is an
    # ExtendedToOriginalDecorator around the caller's result (C08 carries every call through it)
    R.define("pr_ok", ["v", "sem", "res"], "typeof_is(at(elems(v), 1), ThreadsafeForwardingResult) and "
             "fieldof(at(elems(v), 1), 'semaphore') is sem and typeof_is(fieldof(at(elems(v), 1), 'result'), ExtendedToOriginalDecorator) and "
             "fieldof(fieldof(at(elems(v), 1), 'result'), 'decorated') is res and fieldof(at(elems(v), 1), 'result') is not sem")
    R.define("told_to_stop", ["v"], "is_snoc(hsel(HIST(), fieldof(at(elems(v), 1), 'result'))) and "
             "ev_name(hlast(hsel(HIST(), fieldof(at(elems(v), 1), 'result')))) == 'stop'")
    R.define("was_joined", ["t"], "exists(lambda rth: not allocated(rth) and is_shape_(rth, 'AThread') and at(elems(th_args(rth)), 0) is t and "
                                  "hsel(HIST(), rth) == " + JOINED + ")")
    R.define("sem_free", ["sem"], "hist(sem) == hnil() or (is_snoc(hist(sem)) and ev_name(hlast(hist(sem))) == 'release')")
    # stops(h, k): h followed by k stop() events
    R.function("stops", ["hist", "int"], "hist")
    R.axiom("stops_0", {"h": "hist"}, "stops(h, 0) == h", patterns=["stops(h, 0)"])
    R.axiom("stops_step", {"h": "hist", "k": "int"}, "implies(k >= 0, stops(h, k + 1) == snoc(stops(h, k), call('stop', [], {})))",
            patterns=["stops(h, k + 1)"])
    D = "dictof(threads)"
    D1 = "at_entry(1, dictof(threads))"
    # val_ok(k, v): the entry (thread, result) stored under key k -- the thread was created by this call for exactly (k, result, queue),
    # has been started and not joined; the result is this call's ThreadsafeForwardingResult around the caller's result
    R.define("val_ok", ["k", "v", "q", "sem", "res"],
             "k == id(at(elems(v), 2)) and is_ref(at(elems(v), 2)) and "
             "not allocated(at(elems(v), 0)) and is_shape_(at(elems(v), 0), 'AThread') and th_args(at(elems(v), 0)) == (at(elems(v), 2), at(elems(v), 1), q) and "
             "hsel(HIST(), at(elems(v), 0)) == " + STARTED + " and not allocated(at(elems(v), 1)) and pr_ok(v, sem, res)")
    VALS = "forall(lambda vk: implies(vk in %s, val_ok(vk, kwget(%s, vk), queue, semaphore, result)))" % (D, D)
    COMMON = ["not allocated(threads)", "not allocated(queue)", "not allocated(semaphore)", "sem_free(semaphore)", "frame_rest()",
              "result is not semaphore", VALS]
    TH1 = "at(elems(kwget(%s, id(at(_seq0, j)))), 0)" % D1          # the thread made for test j (as recorded when the wait loop started)
    R.contract(TS + "ConcurrentTestSuite.run", props=["C13"], params={"result": "LockedResult"},
               local_tags={"threads": "dict[int=>(AThread,ThreadsafeForwardingResult,SubSuite)]"},
               requires=["fieldof(self, '_wrap_result') is absent()"],       # the default _wrap_result (identity); see DESIGN.md
               frame_hist=True, modifies=["$hist", "$dict"], returns="none",
               # whatever aborts run(): every worker still in the table has been told to stop before the exception propagates
               # (unless a stop() itself raised: then that exception propagates from the handler)
               exsures=["((forall(lambda vk: implies(vk in %s, told_to_stop(kwget(%s, vk)))) or "
                        "  exists(lambda vk: (vk in %s) and stop_failed(fieldof(at(elems(kwget(%s, vk)), 1), 'result')))) "
                        " if has_local('threads') else True)" % (D, D, D, D)],
               ensures=[
                   # every sub-suite got its own thread (created for that sub-suite), started once and joined once before run() returned
                   "all(not allocated(%s) and is_shape_(%s, 'AThread') and at(elems(th_args(%s)), 0) is at(_seq0, j) and hsel(HIST(), %s) == %s "
                   "for j in range(len(_seq0)))" % (TH1, TH1, TH1, TH1, JOINED)],
               loops={0: dict(invariant=COMMON + ["all((id(at(_seq, j)) in %s) for j in range(_i))" % D]),
                      1: dict(invariant=COMMON + [
                          "all(not allocated(%s) and is_shape_(%s, 'AThread') and at(elems(th_args(%s)), 0) is at(_seq0, j) and "
                          "(((id(at(_seq0, j)) in %s) and kwget(%s, id(at(_seq0, j))) == kwget(%s, id(at(_seq0, j)))) or "
                          " (not (id(at(_seq0, j)) in %s) and hsel(HIST(), %s) == %s)) for j in range(len(_seq0)))"
                          % (TH1, TH1, TH1, D, D, D1, D, TH1, JOINED)]),
                      # the handler: every worker that has not been joined is told to stop
                      2: dict(invariant=["all(told_to_stop(at(_seq, j)) for j in range(_i))", "sem_free(semaphore)", "result is not semaphore",
                                         "all(pr_ok(v, semaphore, result) for v in _seq)"])})
    register_stream_main(R)


def register_stream_main(R):
    STARTED = "snoc(hnil(), call('start', [], {}))"
    JOINED = "snoc(snoc(hnil(), call('start', [], {})), call('join', [None], {}))"
    D = "dictof(threads)"
    D1 = "at_entry(1, dictof(threads))"
    R.shape("MakeTests0", __call__=dict(signature="", event=True, returns="list[(SubSuite,any)]", exsures=["True"], ensures=["not allocated(ret)"]))
    R.fields_of("ConcurrentStreamTestSuite", make_tests="MakeTests0")
    # what the queue hands out: a dict (the workers' StreamToQueue put them there); nothing else is assumed about it
    # sval_ok(v): entry (thread, result) of the table: a thread made by this call, started, not joined; the worker's result is this
    # call's ExtendedToStreamDecorator
    R.define("sval_ok", ["v"],
             "not allocated(at(elems(v), 0)) and is_shape_(at(elems(v), 0), 'AThread') and hsel(HIST(), at(elems(v), 0)) == " + STARTED + " and "
             "at(elems(th_args(at(elems(v), 0))), 1) is at(elems(v), 1) and "
             "not allocated(at(elems(v), 1)) and typeof_is(at(elems(v), 1), ExtendedToStreamDecorator)")
    VALS = "forall(lambda vk: implies(vk in %s, sval_ok(kwget(%s, vk)) and allocated_now(at(elems(kwget(%s, vk)), 0))))" % (D, D, D)
    # different table entries hold different thread objects
    INJ = ("forall(lambda vk, vm: implies((vk in %s) and (vm in %s) and vk is not vm, "
           "at(elems(kwget(%s, vk)), 0) is not at(elems(kwget(%s, vm)), 0)))" % (D, D, D, D))
    COMMON = ["not allocated(threads)", "not allocated(queue)", "frame_rest()", VALS, INJ]
    R.contract(TS + "ConcurrentStreamTestSuite.run", props=["C13"], params={"result": "Stream"},
               local_tags={"threads": "dict[StreamToQueue=>(AThread,ExtendedToStreamDecorator)]", "event_dict": "dict"},
               frame_hist=True, modifies=["$hist", "$dict", "f:shouldStop"], returns="none",
               # whatever aborts run(): every worker still in the table has been told to stop before the exception propagates
               exsures=["(forall(lambda vk: implies(vk in %s, told_to_stop_s(kwget(%s, vk)))) if has_local('threads') else True)" % (D, D)],
               ensures=[
                   # every thread that was in the table when the dequeue loop started has been joined exactly once
                   "forall(lambda vk: implies(vk in %s, hsel(HIST(), at(elems(kwget(%s, vk)), 0)) == %s))" % (D1, D1, JOINED)],
               loops={0: dict(invariant=COMMON,
                              # one iteration: a new worker thread for exactly (this sub-suite, its own result, its route code), started once,
                              # recorded under the worker's own StreamToQueue
                              body_ensures=["not allocated(runner_thread)", "th_args(runner_thread) == (test, process_result, route_code)",
                                            "hist(runner_thread) == " + STARTED,
                                            "kwget(%s, to_queue) == (runner_thread, process_result)" % D,
                                            "not allocated(to_queue)", "to_queue.queue is queue", "to_queue.routing_code is route_code"]),
                      1: dict(body_ensures=[
                          # a dequeued status event is forwarded to the caller's result exactly once, with exactly its payload
                          "implies(event == 'status', hist(result) == snoc(at_loop(1, hist(result)), call('status', [], dictof(event_dict))))",
                          "implies(event != 'status', hist(result) == at_loop(1, hist(result)))"],
                              invariant=COMMON + [
                          "forall(lambda vk: implies(vk in %s, ((vk in %s) and kwget(%s, vk) == kwget(%s, vk)) or "
                          "(not (vk in %s) and hsel(HIST(), at(elems(kwget(%s, vk)), 0)) == %s)))" % (D1, D, D, D1, D, D1, JOINED),
                          "forall(lambda vk: implies(vk in %s, vk in %s))" % (D, D1)]),
                      2: dict(invariant=["all(told_to_stop_s(at(_seq, j)) for j in range(_i))",
                                         "all(typeof_is(at(elems(v), 1), ExtendedToStreamDecorator) for v in _seq)"])})
    R.define("told_to_stop_s", ["v"], "astype(at(elems(v), 1), 'ExtendedToStreamDecorator').shouldStop == True")
