"""C05 / C02 / C03 / C07: testtools/testcase.py (TestCase detail handling, stock outcome reporters, run wiring)."""

TC = "testtools.testcase:"
T_ = TC + "TestCase."
D = "dictof(self._TestCase__details)"


def register(R):
    register_reporting(R)
    register_outcomes(R)
    register_xfail(R)
    register_gather(R)
    register_assertions(R)
    register_patch(R)
    register_usefixture(R)
    register_placeholder(R)
    R.shape("ExcHandler", __call__=dict(event=True, returns="any"))        # addOnException handler: called, does not raise (documented)
    R.shape("RunTestFactory", __call__=dict(event=True, returns="ARunTest", exsures=["True"]))
    R.shape("ARunTest", run=dict(event=True, returns="any", exsures=["True"]))
    R.shape("Counter")
    R.fields_of("Counter", n="int")
    R.library("itertools.count", signature="start=0", returns="Counter", pure=True, ensures=["not allocated(result)", "result.n == start"])
    R.fields_of("TestCase", _cleanups="list", _TestCase__details="?dict[any=>any]", _traceback_id_gens="dict[any=>Counter]", _unique_id_gen="Counter",
                _TestCase__setup_called="bool", _TestCase__teardown_called="bool", _TestCase__exception_handlers="list[ExcHandler]",
                exception_handlers="list", force_failure="maybe any", skipException="class", failureException="class",
                _TestCase__RunTest="RunTestFactory", _testMethodName="any", __testtools_tb_locals__="maybe any")
    R.contract(T_ + "getDetails", props=["C05"], modifies=["self._TestCase__details"], returns="dict",
               ensures=["result is self._TestCase__details", "self._TestCase__details is not None",
                        "implies(old(self._TestCase__details) is not None, self._TestCase__details is old(self._TestCase__details) and %s == old(%s))" % (D, D),
                        "implies(old(self._TestCase__details) is None, not allocated(result) and %s == {})" % D])
    R.define("det_id_", ["s"], "implies(old(s._TestCase__details) is not None, s._TestCase__details is old(s._TestCase__details)) and "
             "implies(old(s._TestCase__details) is None, s._TestCase__details is None or not allocated(s._TestCase__details))")
    R.define("D0_", ["s"], "ite(old(s._TestCase__details) is None, mapof({}), old(dictof(s._TestCase__details)))")
    R.contract(T_ + "addDetail", props=["C05"], params={"name": "any", "content_object": "any"},
               modifies=["self._TestCase__details", "dict(self._TestCase__details)"],
               ensures=["self._TestCase__details is not None",
                        "implies(old(self._TestCase__details) is not None, self._TestCase__details is old(self._TestCase__details))",
                        "implies(old(self._TestCase__details) is None, not allocated(self._TestCase__details))",
                        # every other entry is kept; this name now maps to the content (same-name addDetail overwrites: hence 'distinct name')
                        "%s == store(D0_(self), name, content_object)" % D])
    # addDetailUniqueName: a collision is resolved by renaming -- never by dropping or overwriting
    R.contract(T_ + "addDetailUniqueName", props=["C05", "C07"], params={"name": "any", "content_object": "any"},
               modifies=["self._TestCase__details", "dict(self._TestCase__details)"],
               ensures=["exists(lambda vn: kwget(D0_(self), vn) is absent() and %s == store(D0_(self), vn, content_object) and "
                        "implies(kwget(D0_(self), name) is absent(), vn == name))" % D,
                        "self._TestCase__details is not None",
                        "implies(old(self._TestCase__details) is not None, self._TestCase__details is old(self._TestCase__details))",
                        "implies(old(self._TestCase__details) is None, not allocated(self._TestCase__details))"],
               loops={0: dict(invariant=["existing_details is self._TestCase__details", "self._TestCase__details is not None",
                                         "%s == D0_(self)" % D,
                                         "implies(old(self._TestCase__details) is not None, self._TestCase__details is old(self._TestCase__details))",
                                         "implies(old(self._TestCase__details) is None, not allocated(self._TestCase__details))",
                                         "implies(kwget(D0_(self), name) is absent(), full_name is name)"])})
    R.contract(T_ + "addCleanup", props=["C02"], params={"function": "any", "arguments": "tuple", "keywordArguments": "dict"},
               modifies=["list(self._cleanups)"],
               ensures=["listof(self._cleanups) == old(listof(self._cleanups)) + [(function, arguments, keywordArguments)]"])
    R.contract(T_ + "addOnException", props=["C05"], params={"handler": "ExcHandler"}, modifies=["list(self._TestCase__exception_handlers)"],
               ensures=["listof(self._TestCase__exception_handlers) == old(listof(self._TestCase__exception_handlers)) + [handler]"])
    # _reset: the run-relevant state is what a fresh instance has (re-run clause of C02)
    R.contract(T_ + "_reset", props=["C02"],
               modifies=["self._cleanups", "self._unique_id_gen", "self._traceback_id_gens", "self._TestCase__setup_called",
                         "self._TestCase__teardown_called", "self._TestCase__details"],
               ensures=["not allocated(self._cleanups)", "listof(self._cleanups) == []", "self._TestCase__details is None",
                        "self._TestCase__setup_called == False", "self._TestCase__teardown_called == False",
                        "not allocated(self._traceback_id_gens)", "dictof(self._traceback_id_gens) == {}", "self._unique_id_gen.n == 1"])


def register_reporting(R):
    R.library("next", signature="it", returns="int", modifies=["it.n"], noalloc=True, ensures=["result == old(it.n)", "it.n == old(it.n) + 1"])
    # _report_traceback: one new traceback detail under an unused label; nothing else changes
    R.contract(T_ + "_report_traceback", props=["C05"], params={"exc_info": "any", "tb_label": "any"},
               requires=["self._traceback_id_gens is not self._TestCase__details"],
               modifies=["self._TestCase__details", "dict(self._TestCase__details)", "dict(self._traceback_id_gens)", "f:n"],
               ensures=["exists(lambda vn, rc: kwget(D0_(self), vn) is absent() and not allocated(rc) and typeof_is(rc, TracebackContent) and "
                        "%s == store(D0_(self), vn, rc))" % D, "det_id_(self)", "self._TestCase__details is not None"],
               loops={0: dict(invariant=["self._TestCase__details is old(self._TestCase__details) or "
                                         "(old(self._TestCase__details) is None and (self._TestCase__details is None or not allocated(self._TestCase__details)))",
                                         "implies(self._TestCase__details is not None, %s == D0_(self))" % D,
                                         "is_ref(id_gen)"])})
    # onException: traceback detail (unless skip / expected failure / unexpected success), then every registered handler once, in order
    HH = "listof(self._TestCase__exception_handlers)"
    R.contract(T_ + "onException", props=["C05"], params={"exc_info": "(class,exc,any)", "tb_label": "any"},
               requires=["self._traceback_id_gens is not self._TestCase__details"], context={"Hloop": "HIST()"},
               frame_hist=True,
               modifies=["self._TestCase__details", "dict(self._TestCase__details)", "dict(self._traceback_id_gens)", "f:n", "$hist"],
               ensures=["HIST() == deliver(old(HIST()), %s, call('__call__', [exc_info], {}), len(%s))" % (HH, HH), "det_id_(self)",
                        "implies(exc_info[0] is self.skipException or exc_info[0] is _UnexpectedSuccess or exc_info[0] is _ExpectedFailure,"
                        " self._TestCase__details is old(self._TestCase__details) and implies(self._TestCase__details is not None, %s == D0_(self)))" % D,
                        "implies(not (exc_info[0] is self.skipException or exc_info[0] is _UnexpectedSuccess or exc_info[0] is _ExpectedFailure),"
                        " exists(lambda vn, rc: kwget(D0_(self), vn) is absent() and not allocated(rc) and %s == store(D0_(self), vn, rc)))" % D],
               loops={0: dict(invariant=["HIST() == deliver(Hloop, _seq, call('__call__', [exc_info], {}), _i)",
                                         "_seq == old(%s)" % HH, "%s == old(%s)" % (HH, HH)])})


def register_outcomes(R):
    # the stock handlers: exactly one outcome event carrying the details dict itself; no raise (they satisfy the Handler shape of runtest)
    if "testtools.content:text_content" not in R.contracts:
        R.contract("testtools.content:text_content", assumed=True, params={"text": "any"}, returns="Content", pure=True, ensures=["not allocated(result)"])
    for name, meth in (("_report_error", "addError"), ("_report_failure", "addFailure"), ("_report_expected_failure", "addExpectedFailure")):
        R.contract(T_ + name, props=["C05", "C03", "C01"], params={"self": "TestCase", "result": "ExtResult", "err": "any"}, frame_hist=True,
                   modifies=["hist(result)", "self._TestCase__details"],
                   ensures=["hist(result) == snoc(old(hist(result)), call('%s', [self, None, self._TestCase__details], {}))" % meth,
                            "self._TestCase__details is not None",
                            "implies(old(self._TestCase__details) is not None, self._TestCase__details is old(self._TestCase__details) and %s == old(%s))" % (D, D)])
    R.contract(T_ + "_report_unexpected_success", props=["C05", "C03", "C01"], params={"self": "TestCase", "result": "ExtResult", "err": "any"},
               frame_hist=True, modifies=["hist(result)", "self._TestCase__details"],
               ensures=["hist(result) == snoc(old(hist(result)), call('addUnexpectedSuccess', [self, self._TestCase__details], {}))",
                        "implies(old(self._TestCase__details) is not None, self._TestCase__details is old(self._TestCase__details) and %s == old(%s))" % (D, D)])
    R.inline_fn(T_ + "_add_reason")
    R.contract(T_ + "_report_skip", props=["C05", "C03", "C01"], params={"self": "TestCase", "result": "ExtResult", "err": "exc"},
               frame_hist=True, modifies=["hist(result)", "self._TestCase__details", "dict(self._TestCase__details)"],
               ensures=["hist(result) == snoc(old(hist(result)), call('addSkip', [self, None, self._TestCase__details], {}))",
                        # the skip reason travels as the 'reason' detail; every other detail is kept
                        "member('reason', %s)" % D,
                        "forall(lambda vk: implies(vk != 'reason', kwget(%s, vk) == kwget(D0_(self), vk)))" % D])
    # run(): a fresh RunTest gets THIS case, THE handler list itself (it may be modified at any time) and _report_error as last resort
    R.contract(T_ + "run", props=["C03", "C02", "C01"], params={"result": "any"}, frame_hist=True,
               modifies=["self._cleanups", "self._unique_id_gen", "self._traceback_id_gens", "self._TestCase__setup_called",
                         "self._TestCase__teardown_called", "self._TestCase__details", "$hist"],
               exsures=["True"], returns="any",
               ensures=["is_snoc(hist(self._TestCase__RunTest))",
                        "ev_name(hlast(hist(self._TestCase__RunTest))) == '__call__'",
                        "ev_args(hlast(hist(self._TestCase__RunTest)))[0] is self",
                        "ev_args(hlast(hist(self._TestCase__RunTest)))[1] is self.exception_handlers"])


def register_xfail(R):
    # the @unittest.expectedFailure wrapper (nested function; `func` is its free variable: the bound test method)
    R.function("did_raise", ["val"], "bool")
    R.function("raised_by", ["val"], "val")
    R.shape("TestMethodFn", __call__=dict(event=True, returns="any", ensures=["not did_raise(self)"],
                                          exsures=["did_raise(self)", "exc is raised_by(self)"]))
    R.fields_of("TestMethodFn", __self__="maybe TestCase")
    R.contract(TC + "_expectedFailure.<wrapper>", props=["C01", "C05"], params={"args": "tuple", "kwargs": "dict"},
               ghost_params={"func": "TestMethodFn"},
               requires=["implies(fieldof(func, '__self__') is not absent(), "
                         "astype(fieldof(func, '__self__'), 'TestCase')._traceback_id_gens is not astype(fieldof(func, '__self__'), 'TestCase')._TestCase__details)"],
               modifies=["$hist", "f:_TestCase__details", "$dict", "f:n"],
               ensures=["False"],        # it always raises
               exsures=[
                   # the test method returned: unexpected success
                   "implies(not did_raise(func), typeof_is(exc, _UnexpectedSuccess))",
                   # it raised an Exception: expected failure
                   "implies(did_raise(func) and isinstance(raised_by(func), Exception), typeof_is(exc, _ExpectedFailure))",
                   # anything else (KeyboardInterrupt, SystemExit) is NOT an expected failure: it propagates unchanged
                   "implies(did_raise(func) and not isinstance(raised_by(func), Exception), exc is raised_by(func))"])


def register_gather(R):
    # a content object of any provenance: iter_bytes() yields its current chunks (ghost bytes_now), which may change over time
    R.function("bytes_now", ["val", "harr"], "seq")
    R.shape("SrcContent", iter_bytes=dict(signature="", returns="iter", pure=True))
    R.fields_of("SrcContent", content_type="ContentType")
    # _copy_content: a snapshot -- new Content, same type, the chunks obtained now, held in a list nobody else has
    R.contract(TC + "_copy_content", props=["C05", "C16"], params={"content_object": "SrcContent"}, pure=True, returns="Content",
               ensures=["not allocated(ret)", "ret.content_type is content_object.content_type",
                        "is_ref(ret._get_bytes) and not allocated(ret._get_bytes)",
                        "not allocated(ret._get_bytes.buf)"])
    # gather_details: every source detail arrives under a name that was free (renamed on collision), nothing already in the
    # target is dropped or overwritten; one new entry per source entry (loop body contract)
    R.contract(TC + "gather_details", props=["C05"], params={"source_dict": "dict[any=>SrcContent]", "target_dict": "dict"},
               modifies=["dict(target_dict)"],
               ensures=["forall(lambda vk: implies(old(kwget(dictof(target_dict), vk)) is not absent(), kwget(dictof(target_dict), vk) == old(kwget(dictof(target_dict), vk))))",
                        "implies(source_dict is not target_dict, dictof(source_dict) == old(dictof(source_dict)))"],
               loops={0: dict(invariant=["forall(lambda vk: implies(old(kwget(dictof(target_dict), vk)) is not absent(), kwget(dictof(target_dict), vk) == old(kwget(dictof(target_dict), vk))))",
                                         "implies(source_dict is not target_dict, dictof(source_dict) == old(dictof(source_dict)))", "frame_ok('f:n')"],
                              body_ensures=["iter0(kwget(dictof(target_dict), name)) is absent()",
                                            "dictof(target_dict) == store(iter0(dictof(target_dict)), name, kwget(dictof(target_dict), name))",
                                            "is_ref(kwget(dictof(target_dict), name)) and not allocated(kwget(dictof(target_dict), name))",
                                            "astype(kwget(dictof(target_dict), name), 'Content').content_type is content_object.content_type"]),
                      1: dict(invariant=["frame_ok('f:n')"])})


def register_assertions(R):
    H = "testtools.matchers._higherorder:"
    I = "testtools.matchers._impl:"
    R.fields_of("MismatchDecorator", original="AMismatch")
    R.fields_of("MismatchError", matchee="any", matcher="any", mismatch="any", verbose="any", args="tuple")
    R.inline_when_fresh(I + "MismatchDecorator.get_details", I + "MismatchDecorator.describe")
    R.inline_fn(H + "Annotate.if_message")
    R.contract("testtools.content:StacktraceContent", assumed=True,
               params={"prefix_content": "any", "postfix_content": "any"}, pure=True, returns="Content", ensures=["not allocated(ret)"])
    KEPT = "forall(lambda vk: implies(kwget(D0_(self), vk) is not absent(), self._TestCase__details is not None and kwget(%s, vk) == kwget(D0_(self), vk)))" % D
    # _matchHelper: None iff the matcher matches; otherwise a MismatchError for exactly this mismatch, and every detail of the
    # mismatch is attached under a non-clobbering name (loop body = addDetailUniqueName's contract)
    R.contract(T_ + "_matchHelper", props=["C07", "C05"], params={"matchee": "any", "matcher": "AMatcher", "message": "any", "verbose": "any"},
               modifies=["self._TestCase__details", "dict(self._TestCase__details)"], returns="any",
               ensures=["(ret is None) == holds(matcher, matchee)",
                        "implies(ret is not None, typeof_is(ret, MismatchError) and not allocated(ret) and astype(ret, 'MismatchError').matchee is matchee "
                        "and astype(ret, 'MismatchError').verbose is verbose)",
                        "implies(ret is None, self._TestCase__details is old(self._TestCase__details))",
                        "det_id_(self)", KEPT],
               loops={0: dict(invariant=[KEPT, "implies(old(self._TestCase__details) is not None, self._TestCase__details is old(self._TestCase__details))",
                                         "implies(old(self._TestCase__details) is None, self._TestCase__details is None or not allocated(self._TestCase__details))"])})
    # assertThat raises MismatchError exactly when match() returns a mismatch
    R.contract(T_ + "assertThat", props=["C07"], params={"matchee": "any", "matcher": "AMatcher", "message": "any", "verbose": "any"},
               modifies=["self._TestCase__details", "dict(self._TestCase__details)"],
               exsures=["not holds(matcher, matchee)", "typeof_is(exc, MismatchError)", KEPT],
               ensures=["holds(matcher, matchee)"])
    # expectThat never raises; on a mismatch the test is forced to fail once it has finished, and nothing attached so far is lost
    R.contract(T_ + "expectThat", props=["C07", "C03", "C05"], params={"matchee": "any", "matcher": "AMatcher", "message": "any", "verbose": "any"},
               modifies=["self._TestCase__details", "dict(self._TestCase__details)", "self.force_failure"],
               ensures=["implies(not holds(matcher, matchee), self.force_failure == True)",
                        "implies(holds(matcher, matchee), self.force_failure == old(self.force_failure))",
                        KEPT])
    R.contract("testtools.assertions:assert_that", props=["C07"], params={"matchee": "any", "matcher": "AMatcher", "message": "any", "verbose": "any"},
               pure=True, exsures=["not holds(matcher, matchee)", "typeof_is(exc, MismatchError)"], ensures=["holds(matcher, matchee)"])


def register_patch(R):
    R.contract(T_ + "patch", props=["C02"], params={"obj": "any", "attribute": "str", "value": "any"}, context={"A0": "ATTRS()"},
               requires=["is_ref(obj)", "value is not MonkeyPatcher._NO_SUCH_ATTRIBUTE", "attr_get(ATTRS(), obj, attribute) is not MonkeyPatcher._NO_SUCH_ATTRIBUTE"],
               modifies=["$attrs", "list(self._cleanups)"],
               ensures=["ATTRS() == attr_set(A0, obj, attribute, value)",
                        # exactly one undo action is registered, on top of what was registered before
                        "butlast(listof(self._cleanups)) == old(listof(self._cleanups))",
                        "len(listof(self._cleanups)) == old(len(listof(self._cleanups))) + 1"])
    # useFixture: set up; on success register cleanUp, then the gathering of the fixture's details (which therefore runs first)
    R.shape("AFixture", setUp=dict(signature="", event=True, returns="any", exsures=["True"]),
            cleanUp=dict(signature="", event=True, returns="any", exsures=["True"]),
            # fixtures.Fixture.getDetails builds a new combined dict on every call (assumed library behaviour)
            getDetails=dict(signature="", returns="dict[any=>SrcContent]", pure=True, ensures=["not allocated(ret)"]))
    R.fields_of("AFixture", _details="maybe any")


def register_usefixture(R):
    R.inline_fn("testtools.compat:reraise")
    KEPT = "forall(lambda vk: implies(kwget(D0_(self), vk) is not absent(), self._TestCase__details is not None and kwget(%s, vk) == kwget(D0_(self), vk)))" % D
    R.contract(T_ + "useFixture", props=["C02", "C05"], params={"fixture": "AFixture"},
               requires=["self._traceback_id_gens is not self._TestCase__details"],
               frame_hist=True,
               modifies=["hist(fixture)", "list(self._cleanups)", "self._TestCase__details", "dict(self._TestCase__details)",
                         "dict(self._traceback_id_gens)", "f:n"],
               # setUp failed: nothing is registered, the details gathered so far are kept, the error propagates
               exsures=["listof(self._cleanups) == old(listof(self._cleanups))", KEPT,
                        "is_snoc(hist(fixture)) and ev_name(hlast(hist(fixture))) == 'setUp'"],
               ensures=["ret is fixture", "hist(fixture) == snoc(old(hist(fixture)), call('setUp', [], {}))",
                        # cleanUp is registered first and the gathering of the fixture's details after it, so that (LIFO) the
                        # details are gathered before the fixture is torn down
                        "len(listof(self._cleanups)) == old(len(listof(self._cleanups))) + 2",
                        "prefix_of(old(listof(self._cleanups)), listof(self._cleanups))",
                        "self._TestCase__details is old(self._TestCase__details)",
                        "implies(self._TestCase__details is not None, %s == old(%s))" % (D, D)])


def register_placeholder(R):
    P = TC + "PlaceHolder."
    R.fields_of("ExtResult", current_tags="anyset")
    # the decorated result the placeholder reports to: ExtendedToOriginalDecorator(result) (C08 carries every call to the raw target)
    R.contract(P + "_result", assumed=True, params={"result": "any"}, returns="ExtResult", pure=True, ensures=["not allocated(ret)"])
    OUT = "(self._outcome == 'addSuccess' or self._outcome == 'addFailure' or self._outcome == 'addError' or self._outcome == 'addSkip' or " \
          "self._outcome == 'addExpectedFailure' or self._outcome == 'addUnexpectedSuccess')"
    # replay of one recorded test: time(start)? tags(T - current) startTest time(end)? outcome(details) stopTest tags(-, T - current)
    R.contract(P + "run", props=["C09", "C17", "C10"], params={"result": "any"},
               requires=[OUT, "isinstance(self._outcome, str)"], frame_hist=True, modifies=["$hist"], returns="none",
               ensures=["exists(lambda rx, rn, re1, re2: not allocated(rx) and not allocated(rn) and "
                        " setof(rn) == setof(self._tags) - setof(astype(fieldof(rx, 'current_tags'), 'anyset')) and "
                        " setof(re1) == set() and setof(re2) == set() and "
                        " hsel(HIST(), rx) == snoc("
                        "   (snoc(snoc((snoc(hnil_of(rx), call('time', [self._timestamps[0]], {})) if self._timestamps[0] is not None else hnil_of(rx)),"
                        "              call('tags', [rn, re1], {}), call('startTest', [self], {})), call('time', [self._timestamps[1]], {}))"
                        "    if self._timestamps[1] is not None else"
                        "    snoc((snoc(hnil_of(rx), call('time', [self._timestamps[0]], {})) if self._timestamps[0] is not None else hnil_of(rx)),"
                        "         call('tags', [rn, re1], {}), call('startTest', [self], {}))),"
                        "   outcome_call(self._outcome, self, self._details), call('stopTest', [self], {}), call('tags', [re2, rn], {})))"])
    R.define("hnil_of", ["r"], "old(hsel(HIST(), r))")
    R.define("outcome_call", ["name", "test", "details"],
             "ite(name == 'addSuccess' or name == 'addUnexpectedSuccess', call(name, [test, details], {}), "
             "ite(name == 'addSkip', call(name, [test, None, details], {}), call(name, [test, None, details], {})))")
