"""C02: testtools/monkey.py -- patches are undone by restore(), last saved first, absent attributes become absent again."""

MK = "testtools.monkey:"
P_ = MK + "MonkeyPatcher."


def register(R):
    R.fields_of("MonkeyPatcher", _patches_to_apply="list[(any,str,any)]", _originals="list[(any,str,any)]")
    NOSUCH = "MonkeyPatcher._NO_SUCH_ATTRIBUTE"
    # undo(A, L, k): the attribute tables after undoing the LAST k saved entries of L, last first
    R.function("undo", ["darr", "seq", "int"], "darr")
    R.axiom("undo_0", {"A": "darr", "L": "seq"}, "undo(A, L, 0) == A")
    R.axiom("undo_step", {"A": "darr", "L": "seq", "k": "int"},
            "implies(0 < k and k <= len(L), undo(A, L, k) == attr_set(undo(A, L, k - 1), elems(L[len(L) - k])[0], elems(L[len(L) - k])[1], "
            "ite(elems(L[len(L) - k])[2] is %s, absent(), elems(L[len(L) - k])[2])))" % NOSUCH)
    R.contract(P_ + "restore", props=["C02"], context={"L0": "listof(self._originals)", "A0": "ATTRS()"},
               modifies=["list(self._originals)", "$attrs"],
               # a saved attribute that is no longer there when a NO_SUCH entry is undone raises AttributeError (user interference)
               exsures=["True"],
               ensures=["len(listof(self._originals)) == 0", "ATTRS() == undo(A0, L0, len(L0))"],
               loops={0: dict(invariant=["self._originals is old(self._originals)",
                                         "len(listof(self._originals)) <= len(L0)",
                                         "prefix_of(listof(self._originals), L0)",
                                         "ATTRS() == undo(A0, L0, len(L0) - len(listof(self._originals)))"])})
