"""C02: testtools/monkey.py -- patches are undone by restore(), last saved first, absent attributes become absent again."""

MK = "testtools.monkey:"
P_ = MK + "MonkeyPatcher."
NOSUCH = "MonkeyPatcher._NO_SUCH_ATTRIBUTE"


def register(R):
    R.fields_of("MonkeyPatcher", _patches_to_apply="list[(any,str,any)]", _originals="list[(any,str,any)]")
    # undo_all(A, L): the attribute tables after undoing every saved entry of L, LAST SAVED FIRST
    R.function("undo_all", ["darr", "seq"], "darr")
    R.define("undo_one", ["A", "e"], "attr_set(A, elems(e)[0], elems(e)[1], ite(elems(e)[2] is %s, absent(), elems(e)[2]))" % NOSUCH)
    R.axiom("undo_all_nil", {"A": "darr", "L": "seq"}, "implies(len(L) == 0, undo_all(A, L) == A)")
    R.axiom("undo_all_step", {"A": "darr", "L": "seq"},
            "implies(len(L) > 0, undo_all(A, L) == undo_all(undo_one(A, last(L)), butlast(L)))")
    R.axiom("undo_all_snoc", {"A": "darr", "L": "seq", "o": "val", "n": "val", "v": "val"},
            "undo_all(A, concat(L, [(o, n, v)])) == undo_all(attr_set(A, o, n, ite(v is %s, absent(), v)), L)" % NOSUCH)
    R.contract(P_ + "restore", props=["C02"], context={"L0": "listof(self._originals)", "A0": "ATTRS()"},
               modifies=["list(self._originals)", "$attrs"],
               # undoing a NO_SUCH entry whose attribute somebody already removed raises AttributeError (user interference)
               exsures=["True"],
               ensures=["len(listof(self._originals)) == 0", "ATTRS() == undo_all(A0, L0)"],
               loops={0: dict(invariant=["self._originals is old(self._originals)",
                                         "undo_all(ATTRS(), listof(self._originals)) == undo_all(A0, L0)"])})
    # patch(obj, attribute, value) -- what TestCase.patch registers the undo of: the attribute now has the value, and undoing the
    # one saved entry gives back exactly the attribute tables from before (the old value, or absence)
    R.inline_fn(P_ + "__init__", P_ + "add_patch", P_ + "patch")
    R.contract(MK + "patch", props=["C02"], params={"obj": "any", "attribute": "str", "value": "any"}, context={"A0": "ATTRS()"},
               requires=["is_ref(obj)", "value is not %s" % NOSUCH, "attr_get(ATTRS(), obj, attribute) is not %s" % NOSUCH],
               modifies=["$attrs"], returns="any",
               ensures=["ATTRS() == attr_set(A0, obj, attribute, value)",
                        "exists(lambda rp: not allocated(rp) and typeof_is(rp, MonkeyPatcher) and "
                        "len(listof(astype(rp, 'MonkeyPatcher')._originals)) == 1 and "
                        "undo_all(ATTRS(), listof(astype(rp, 'MonkeyPatcher')._originals)) == A0)"])
