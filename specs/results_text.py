"""C04: TextTestResult summary, ExtendedToStreamDecorator stop control, testtools.run exit status."""

RR = "testtools.testresult.real:"
TT = RR + "TextTestResult."


def register(R):
    register_run(R)
    R.shape("OutStream", write=dict(signature="text", event=True, returns="any"))
    R.fields_of("TextTestResult", stream="OutStream", sep1="str", sep2="str", _TextTestResult__start="any",
                errors="list[(ATest,any)]", failures="list[(ATest,any)]", unexpectedSuccesses="list[ATest]")
    R.function("id_of", ["val"], "val")
    R.shape("ATest", id=dict(signature="", returns="any", pure=True, noalloc=True, ensures=["ret == id_of(self)"]))
    R.fields_of("ATest", failureException="maybe class")
    R.contract(TT + "_show_list", props=["C04"], params={"label": "str", "error_list": "list[(ATest,any)]"},
               context={"H0": "hist(self.stream)"}, frame_hist=True, modifies=["hist(self.stream)"],
               # one section (4 writes) per problem, in list order
               ensures=["len(hist(self.stream)) == len(H0) + 4 * len(listof(error_list))"],
               loops={0: dict(invariant=["len(hist(self.stream)) == len(H0) + 4 * _i", "self.stream is old(self.stream)",
                                         "self.sep1 is old(self.sep1)", "self.sep2 is old(self.sep2)"])})
    BAD = "(len(listof(self.errors)) + len(listof(self.failures)) + len(listof(self.unexpectedSuccesses)))"
    R.contract(TT + "_delta_to_float", assumed=True, params={"a_timedelta": "any", "precision": "any"}, returns="any", pure=True, noalloc=True)
    R.library("math.ceil", signature="x", returns="any", pure=True, noalloc=True)
    R.contract(TT + "stopTestRun", props=["C04"], context={"H0": "hist(self.stream)"},
               requires=["distinct(self.errors, self.failures, self.unexpectedSuccesses)"],
               frame_hist=True, modifies=["hist(self.stream)"],
               ensures=[
                   # OK is printed exactly when the verdict is successful, FAILED with the total of all three problem kinds otherwise
                   "implies(%s == 0, hlast(hist(self.stream)) == call('write', ['OK\\n'], {}))" % BAD,
                   "implies(%s > 0, hlast(hist(self.stream)) == call('write', [')\\n'], {}) and "
                   " hlast(hinit(hist(self.stream))) == call('write', [joined(', ', [pct('failures=%%d', %s)])], {}) and "
                   " hlast(hinit(hinit(hist(self.stream)))) == call('write', ['FAILED ('], {}))" % (BAD, BAD),
                   # one section per problem: 4 writes per error and per failure, 1 per unexpected success, then the 'Ran' line
                   "len(hist(self.stream)) == len(H0) + 4 * len(listof(self.errors)) + 4 * len(listof(self.failures)) + "
                   "len(listof(self.unexpectedSuccesses)) + 1 + (1 if %s == 0 else 3)" % BAD,
               ],
               loops={0: dict(invariant=["len(hist(self.stream)) == len(H0) + 4 * len(listof(self.errors)) + 4 * len(listof(self.failures)) + _i",
                                         "self.stream is old(self.stream)", "listof(self.errors) == old(listof(self.errors))",
                                         "listof(self.failures) == old(listof(self.failures))",
                                         "listof(self.unexpectedSuccesses) == old(listof(self.unexpectedSuccesses))"])})


def register_run(R):
    RUN = "testtools.run:"
    R.function("verdict_of", ["val"], "val")
    R.shape("AResult", wasSuccessful=dict(signature="", returns="any", pure=True, noalloc=True, ensures=["ret == verdict_of(self)"]))
    R.shape("ARunner", run=dict(signature="test", event=True, returns="AResult"))
    R.fields_of("TestProgram", catchbreak="any", testRunner="any", test="any", result="AResult", exit="any")
    R.library("sys.exit", signature="code=None", returns="none", pure=True, ensures=["False"],
              exsures=["typeof_is(exc, SystemExit)", "elems(fieldof(exc, 'args')) == [code]"])
    R.contract(RUN + "TestProgram._get_runner", assumed=True, returns="ARunner", pure=True)
    R.library("unittest.installHandler", signature="", returns="none", pure=True, noalloc=True)
    # exit status of testtools.run: SystemExit(code) with code falsy exactly when the run's verdict is successful
    R.contract(RUN + "TestProgram.runTests", props=["C04"], frame_hist=True, modifies=["$hist", "self.result"],
               exsures=["truthy(self.exit)", "typeof_is(exc, SystemExit)",
                        "elems(fieldof(exc, 'args'))[0] == (not truthy(verdict_of(self.result)))"],
               ensures=["not truthy(self.exit)"])
    # TestToolsTestRunner.run: a TextTestResult bracketed by startTestRun / stopTestRun on every exit; the suite's result is returned
    # assumption on the abstract suite: whatever it reports, it does not re-assign the result's problem lists or its stream
    KEEPS = ["distinct(fieldof(result, 'errors'), fieldof(result, 'failures'), fieldof(result, 'unexpectedSuccesses'))",
             "fieldof(result, 'stream') is old(fieldof(result, 'stream'))", "fieldof(result, 'failfast') == old(fieldof(result, 'failfast'))"]
    R.shape("ASuite", run=dict(signature="result", event=True, returns="any", exsures=KEEPS, ensures=KEEPS))
    R.fields_of("TestToolsTestRunner", failfast="any", stdout="OutStream", tb_locals="any")
    R.contract("testtools.compat:unicode_output_stream", assumed=True, params={"stream": "any"}, returns="OutStream", pure=True,
               ensures=["not allocated(ret)", "hist(ret) == hnil()"])
    BRACKET = ("exists(lambda vr: hist(test) == snoc(old(hist(test)), call('run', [vr], {})) and not allocated(vr) and "
               "typeof_is(vr, TextTestResult) and fieldof(vr, 'failfast') == self.failfast and "
               # startTestRun and stopTestRun both ran on this exit: 'Tests running...', then the summary ('Ran ...' and OK /
               # FAILED ...) are on the result's (fresh) stream -- at least three writes
               "len(hist(fieldof(vr, 'stream'))) >= 3)")
    R.contract(RUN + "TestToolsTestRunner.run", props=["C04"], params={"test": "ASuite"}, frame_hist=True,
               modifies=["$hist"], returns="any", exsures=[BRACKET], ensures=[BRACKET])
