"""C17: tag scoping.  TagContext and the tag methods of the result classes."""

T = "testtools.tags:"
RR = "testtools.testresult.real:"

TR_FIELDS = dict(failfast="bool", tb_locals="bool", _tags="?TagContext", errors="list", failures="list",
                 unexpectedSuccesses="list", expectedFailures="list", skip_reasons="dict[any=>list]", testsRun="int",
                 shouldStop="bool", skipped="list", _TestResult__now="any")


def register(R):
    R.fields_of("TagContext", parent="?TagContext", _tags="set")
    R.define("ctx_tags", ["c"], "setof(c._tags)")
    R.contract(T + "TagContext.__init__", props=["C17"], params={"parent": "?TagContext"},
               requires=["self is not parent"],     # a constructor's self is a new object
               modifies=["self.parent", "self._tags"],
               ensures=["self.parent is parent",
                        "not allocated(self._tags)",
                        "ctx_tags(self) == (old(ctx_tags(parent)) if parent is not None else set())",
                        ])
    R.contract(T + "TagContext.get_current_tags", props=["C17"], pure=True, returns="set",
               ensures=["not allocated(result)", "setof(result) == ctx_tags(self)"])
    R.contract(T + "TagContext.change_tags", props=["C17"], params={"new_tags": "anyset", "gone_tags": "anyset"},
               requires=["new_tags is not self._tags", "gone_tags is not self._tags"],
               modifies=["set(self._tags)"], returns="set",
               ensures=["ctx_tags(self) == (old(ctx_tags(self)) | old(setof(new_tags))) - old(setof(gone_tags))",
                        "not allocated(result)", "setof(result) == ctx_tags(self)"])

    R.fields_of("TestResult", **TR_FIELDS)
    # current_tags / tags / startTest / stopTest / startTestRun of testtools.TestResult: the abstract stack view
    R.contract(RR + "TestResult.current_tags", props=["C17"], pure=True, returns="set",
               requires=["self._tags is not None"],
               ensures=["not allocated(result)", "setof(result) == ctx_tags(self._tags)"])
    R.contract(RR + "TestResult.tags", props=["C17"], params={"new_tags": "anyset", "gone_tags": "anyset"},
               requires=["self._tags is not None", "new_tags is not self._tags._tags", "gone_tags is not self._tags._tags"],
               modifies=["set(self._tags._tags)"],
               ensures=["ctx_tags(self._tags) == (old(ctx_tags(self._tags)) | old(setof(new_tags))) - old(setof(gone_tags))",
                        "self._tags is old(self._tags)"])
    R.contract(RR + "TestResult.startTest", props=["C17", "C04"], params={"test": "any"},
               requires=["self._tags is not None"],
               modifies=["self._tags", "self.testsRun", "self._mirrorOutput"],
               ensures=["not allocated(self._tags)",                       # a new context is pushed
                        "self._tags.parent is old(self._tags)",
                        "ctx_tags(self._tags) == old(ctx_tags(self._tags))",   # starting with a copy of the current tags
                        "self.testsRun == old(self.testsRun) + 1"])
    R.contract(RR + "TestResult.stopTest", props=["C17", "C04"], params={"test": "any"},
               modifies=["self._tags", "self._mirrorOutput"],
               ensures=["implies(old(self._tags) is not None and old(self._tags.parent) is not None, self._tags is old(self._tags.parent))",
                        # outside a test (no startTest: the run-level context) nothing is popped
                        "implies(old(self._tags) is None or old(self._tags.parent) is None, self._tags is old(self._tags))"])
    R.contract(RR + "TestResult.startTestRun", props=["C17", "C04"],
               modifies=["self.failures", "self.errors", "self.testsRun", "self.skipped", "self.expectedFailures",
                         "self.unexpectedSuccesses", "self.shouldStop", "self.failfast", "self.tb_locals", "self.buffer",
                         "self._mirrorOutput", "self._stdout_buffer", "self._stderr_buffer", "self._original_stdout",
                         "self._original_stderr", "self._previousTestClass", "self._testRunEntered", "self._moduleSetUpFailed",
                         "self.skip_reasons", "self._TestResult__now", "self._tags"],
               ensures=["self._tags is not None", "not allocated(self._tags)", "self._tags.parent is None",
                        "ctx_tags(self._tags) == set()",
                        "len(listof(self.failures)) == 0", "len(listof(self.errors)) == 0",
                        "len(listof(self.unexpectedSuccesses)) == 0", "len(listof(self.expectedFailures)) == 0",
                        "self.testsRun == 0", "self.shouldStop == False",
                        "self.failfast == old(self.failfast)", "self.tb_locals == old(self.tb_locals)"])
