"""C10: stream consumers account for every test exactly once (_StreamToTestRecord, _TestRecord, StreamSummary, StreamToDict)."""

RR = "testtools.testresult.real:"

STATUS_PARAMS = dict(test_id="any", test_status="any", test_tags="any", runnable="any", file_name="any", file_bytes="any",
                     eof="any", mime_type="any", route_code="any", timestamp="any")


def register(R):
    register_more(R)
    register_summary(R)
    register_wrappers(R)
    # closure object returning its captured list: Content._get_bytes of the accumulating attachments
    # a zero-argument closure stored as Content._get_bytes: `lambda: xs` returns the captured list object itself (ghost field buf),
    # `lambda: [e, ...]` returns a new list of the captured items (ghost field items)
    R.shape("BufFn", __call__=dict(returns="list", pure=True,
                                   ensures=["implies(fieldof(self, 'buf') is not absent(), ret is self.buf)",
                                            "implies(fieldof(self, 'buf') is absent(), not allocated(ret) and listof(ret) == elems(fieldof(self, 'items')))"]))
    R.fields_of("BufFn", buf="list", items="any")
    R.fields_of("Content", content_type="any", _get_bytes="BufFn")
    R.fields_of("_TestRecord", id="any", tags="anyset", details="dict[any=>Content]", status="any", timestamps="(any,any)")
    R.fields_of("_StreamToTestRecord", on_test="Callback", _inprogress="dict[any=>_TestRecord]")
    # MIME re-parsing goes through email.message: outside the reach of contracts here (bounded check in C16/C09);
    # assumed: a total function of the mime string that returns a content type object
    R.contract(RR + "_make_content_type", assumed=True, params={"mime_type": "any"}, returns="any", pure=True,
               ensures=["result == parsed_mime(mime_type)", "result is not None"])
    R.function("parsed_mime", ["val"], "val")
    R.inline_fn(RR + "_TestRecord.set", RR + "_TestRecord.transform", RR + "_TestRecord.got_timestamp", RR + "_TestRecord.got_file",
                RR + "_TestRecord.create", RR + "_StreamToTestRecord._ensure_key", RR + "_StreamToTestRecord._update_case")

    R.define("chunks", ["c"], "listof(c._get_bytes.buf)")
    R.define("K_", ["tid", "rc"], "(tid, rc)")
    INV = ("forall(lambda va, vb: implies(kwget(V0, va) is not absent() and kwget(V0, vb) is not absent() and va != vb,"
           " kwget(V0, va) != kwget(V0, vb)))")
    CTX = {"V0": "dictof(self._inprogress)", "k": "(test_id, route_code)",
           "had": "member((test_id, route_code), dictof(self._inprogress))",
           "r0": "dictof(self._inprogress)[(test_id, route_code)]"}
    interim = "(test_status is None or test_status == 'inprogress')"
    # (a) events without a test id are ignored
    R.contract(RR + "_StreamToTestRecord.status@noid", props=["C10"], params=STATUS_PARAMS, context=CTX,
               requires=["test_id is None"], frame_hist=True, modifies=[],
               ensures=["dictof(self._inprogress) == V0", "hist(self.on_test) == old(hist(self.on_test))"])
    # (b) first event of a test: a new record is created for the key
    R.contract(RR + "_StreamToTestRecord.status@new", props=["C10"], params=STATUS_PARAMS, context=CTX,
               requires=["test_id is not None", "not had"], frame_hist=True,
               modifies=["dict(self._inprogress)", "hist(self.on_test)"],
               ensures=[
                   "implies(%s, hist(self.on_test) == old(hist(self.on_test)) and member(k, dictof(self._inprogress))"
                   " and not allocated(dictof(self._inprogress)[k])"
                   " and forall(lambda vq: implies(vq != k, kwget(dictof(self._inprogress), vq) == kwget(V0, vq))))" % interim,
                   "implies(not %s, dictof(self._inprogress) == V0"
                   " and exists(lambda rr: hist(self.on_test) == snoc(old(hist(self.on_test)), call('__call__', [rr], {}))"
                   "   and not allocated(rr)"
                   "   and astype(rr, '_TestRecord').status == test_status"
                   "   and astype(rr, '_TestRecord').timestamps == (timestamp, timestamp)"
                   "   and astype(rr, '_TestRecord').id == test_id))" % interim,
               ])
    # (c) later event of a test in progress: its record is updated in place
    R.contract(RR + "_StreamToTestRecord.status@existing", props=["C10"], params=STATUS_PARAMS, context=CTX,
               requires=["test_id is not None", "had", INV,
                         "r0.details is not self._inprogress"],      # rep. invariant: a record's details dict is its own object
               frame_hist=True,
               modifies=["dict(self._inprogress)", "hist(self.on_test)", "r0.status", "r0.timestamps", "r0.tags", "dict(r0.details)", "$list"],
               ensures=[
                   "r0.status == (test_status if test_status is not None else old(r0.status))",
                   "r0.timestamps == (old(r0.timestamps)[0], timestamp)",
                   "r0.tags == (test_tags if test_tags is not None else old(r0.tags))",
                   "r0.id == old(r0.id)",
                   "implies(%s, hist(self.on_test) == old(hist(self.on_test)) and dictof(self._inprogress) == V0)" % interim,
                   "implies(not %s, dictof(self._inprogress) == store(V0, k, absent())"
                   " and hist(self.on_test) == snoc(old(hist(self.on_test)), call('__call__', [r0], {})))" % interim,
                   # attachments: a chunk is appended to the named attachment iff a file name and non-empty bytes are given
                   "implies(not (file_name is not None and old(truthy(file_bytes))), dictof(r0.details) == old(dictof(r0.details))"
                   " and forall(lambda rq: implies(allocated(rq), listof(rq) == old(listof(rq)))))",
                   "implies(file_name is not None and old(truthy(file_bytes)) and old(member(file_name, dictof(r0.details))),"
                   " dictof(r0.details) == old(dictof(r0.details))"
                   " and chunks(r0.details[file_name]) == old(chunks(r0.details[file_name])) + [file_bytes]"
                   " and forall(lambda rq: implies(allocated(rq) and rq is not old(r0.details[file_name]._get_bytes.buf), listof(rq) == old(listof(rq)))))",
                   "implies(file_name is not None and old(truthy(file_bytes)) and not old(member(file_name, dictof(r0.details))),"
                   " forall(lambda vn: implies(vn != file_name, kwget(dictof(r0.details), vn) == old(kwget(dictof(r0.details), vn))))"
                   " and member(file_name, dictof(r0.details)) and not allocated(r0.details[file_name])"
                   " and chunks(r0.details[file_name]) == [file_bytes]"
                   " and r0.details[file_name].content_type == parsed_mime(mime_type)"
                   " and forall(lambda rq: implies(allocated(rq), listof(rq) == old(listof(rq)))))",
               ])


def register_more(R):
    INV = ("forall(lambda va, vb: implies(kwget(V0, va) is not absent() and kwget(V0, vb) is not absent() and va != vb,"
           " kwget(V0, va) != kwget(V0, vb)))")
    # number of callback events in a history that report the record r
    R.function("hcount", ["hist", "val"], "int")
    R.axiom("hcount_nil", {"r": "val"}, "hcount(hnil(), r) == 0")
    R.axiom("hcount_snoc", {"h": "hist", "e": "event", "r": "val"},
            "hcount(snoc(h, e), r) == hcount(h, r) + (1 if e == call('__call__', [r], {}) else 0)")
    R.contract(RR + "_StreamToTestRecord.stopTestRun", props=["C10"],
               context={"V0": "dictof(self._inprogress)", "H0": "hist(self.on_test)"},
               requires=[INV, "forall(lambda va: implies(kwget(V0, va) is not absent(), is_ref(kwget(V0, va))))"],
               frame_hist=True, modifies=["dict(self._inprogress)", "hist(self.on_test)", "f:timestamps"],
               ensures=["dictof(self._inprogress) == {}",
                        # every test still in progress is reported exactly once ...
                        "forall(lambda vk: implies(kwget(V0, vk) is not absent(), hcount(hist(self.on_test), kwget(V0, vk)) == hcount(H0, kwget(V0, vk)) + 1))",
                        ],
               loops={0: dict(invariant=[
                   "self._inprogress is old(self._inprogress)", "self.on_test is old(self.on_test)",
                   "forall(lambda vk: implies(kwget(dictof(self._inprogress), vk) is not absent(), kwget(dictof(self._inprogress), vk) == kwget(V0, vk)))",
                   "forall(lambda vk: implies(kwget(V0, vk) is not absent() and kwget(dictof(self._inprogress), vk) is absent(),"
                   " hcount(hist(self.on_test), kwget(V0, vk)) == hcount(H0, kwget(V0, vk)) + 1))",
                   "forall(lambda vk: implies(kwget(dictof(self._inprogress), vk) is not absent(),"
                   " hcount(hist(self.on_test), kwget(V0, vk)) == hcount(H0, kwget(V0, vk))))",
               ])})
    R.contract(RR + "_StreamToTestRecord.startTestRun", props=["C10"], modifies=["self._inprogress"],
               ensures=["not allocated(self._inprogress)", "dictof(self._inprogress) == {}"])


def register_summary(R):
    T = "testtools.testcase:"
    R.fields_of("PlaceHolder", _test_id="any", _short_description="any", _details="dict[any=>AContent]", _outcome="any", _tags="frozenset",
                _timestamps="(any,any)")
    R.fields_of("_TestRecord", tags="anyset")
    R.contract(T + "PlaceHolder.__init__", props=["C10", "C09"],
               params=dict(test_id="any", short_description="any", details="?dict", outcome="any", error="none", tags="?anyset", timestamps="(any,any)"),
               modifies=["self._test_id", "self._short_description", "self._details", "self._outcome", "self._tags", "self._timestamps"],
               ensures=["self._test_id is test_id", "self._outcome is outcome", "self._timestamps == timestamps",
                        "self._details is details or (not allocated(self._details) and dictof(self._details) == {} and (details is None or dictof(details) == {}))",
                        "not allocated(self._tags)", "setof(self._tags) == (set() if tags is None else setof(tags))"])
    R.function("status_outcome", ["val"], "val")
    for st, oc in (("inprogress", "addFailure"), ("unknown", "addFailure"), ("success", "addSuccess"), ("skip", "addSkip"),
                   ("fail", "addFailure"), ("xfail", "addExpectedFailure"), ("uxsuccess", "addUnexpectedSuccess")):
        R.axiom("status_outcome_" + st, {}, "status_outcome('%s') == '%s'" % (st, oc))
    KNOWN = "(self.status == 'inprogress' or self.status == 'unknown' or self.status == 'success' or self.status == 'skip' or self.status == 'fail' or self.status == 'xfail' or self.status == 'uxsuccess')"
    R.contract(RR + "_TestRecord.to_test_case", props=["C10", "C09"], pure=True, returns="PlaceHolder",
               exsures=["not " + KNOWN, "subclass_of(cls_of(exc), KeyError)"],
               ensures=[KNOWN, "not allocated(result)", "result._test_id is self.id", "result._outcome == status_outcome(self.status)",
                        "result._timestamps == self.timestamps", "setof(result._tags) == setof(self.tags)",
                        "result._details is self.details or (not allocated(result._details) and dictof(result._details) == {} and dictof(self.details) == {})"])
    SS = dict(failures="list", errors="list", testsRun="int", skipped="list", expectedFailures="list", unexpectedSuccesses="list",
              _hook="_StreamToTestRecord", _handle_status="static:StreamSummary.__init__")
    R.fields_of("StreamSummary", **SS)
    LISTS = ["failures", "errors", "skipped", "expectedFailures", "unexpectedSuccesses"]
    distinct = "distinct(%s)" % ", ".join("self." + l for l in LISTS)

    def bucket(name, cond):
        return ("(butlast(listof(self.%s)) == old(listof(self.%s)) and len(listof(self.%s)) == old(len(listof(self.%s))) + 1) if (%s) "
                "else listof(self.%s) == old(listof(self.%s))" % (name, name, name, name, cond, name, name))
    S = "test_record.status"
    R.inline_fn(RR + "StreamSummary._incomplete", RR + "StreamSummary._success", RR + "StreamSummary._skip", RR + "StreamSummary._exists",
                RR + "StreamSummary._fail", RR + "StreamSummary._xfail", RR + "StreamSummary._uxsuccess")
    R.shape("AContent", as_text=dict(signature="", returns="str", pure=True))   # assumption: details hold decodable text
    R.contract(RR + "StreamSummary._gather_test", props=["C10"], params={"test_record": "_TestRecord"},
               requires=[distinct],
               modifies=["self.testsRun"] + ["list(self.%s)" % l for l in LISTS] + ["f:_outcome"],
               exsures=["True"],
               ensures=[
                   "self.testsRun == old(self.testsRun) + (0 if %s == 'exists' else 1)" % S,
                   bucket("errors", "%s == 'fail' or %s == 'unknown' or %s == 'inprogress'" % (S, S, S)),
                   bucket("skipped", "%s == 'skip'" % S),
                   bucket("expectedFailures", "%s == 'xfail'" % S),
                   bucket("unexpectedSuccesses", "%s == 'uxsuccess'" % S),
                   "listof(self.failures) == old(listof(self.failures))",
               ])
    R.contract(RR + "StreamSummary.wasSuccessful", props=["C10"], pure=True, returns="bool",
               ensures=["result == (len(listof(self.failures)) == 0 and len(listof(self.errors)) == 0)"])
    R.contract(RR + "StreamSummary.startTestRun", props=["C10"], field_tags={"_hook": "Stream"}, frame_hist=True,
               modifies=["self.failures", "self.errors", "self.testsRun", "self.skipped", "self.expectedFailures", "self.unexpectedSuccesses",
                         "hist(self._hook)"],
               ensures=["self.testsRun == 0", distinct] + ["len(listof(self.%s)) == 0 and not allocated(self.%s)" % (l, l) for l in LISTS]
               + ["hist(self._hook) == snoc(old(hist(self._hook)), call('startTestRun', [], {}))"])


def register_wrappers(R):
    from specs.streams import STATUS_KW
    one = "hist(self._hook) == snoc(old(hist(self._hook)), call('%s', %s, %s))"
    # StreamToDict / StreamSummary: every call is handed to the hook exactly once, unchanged (the hook's own behaviour is its contract)
    for cls in ("StreamToDict", "StreamSummary"):
        R.contract(RR + cls + ".status", props=["C10"], params={"args": "tuple", "kwargs": STATUS_KW}, field_tags={"_hook": "Stream"},
                   frame_hist=True, modifies=["hist(self._hook)"],
                   ensures=[one % ("status", "args", "old(dictof(kwargs))"), "dictof(kwargs) == old(dictof(kwargs))"])
        R.contract(RR + cls + ".stopTestRun", props=["C10"], field_tags={"_hook": "Stream"}, frame_hist=True, modifies=["hist(self._hook)"],
                   ensures=[one % ("stopTestRun", "[]", "{}")])
    R.contract(RR + "StreamToDict.startTestRun", props=["C10"], field_tags={"_hook": "Stream"}, frame_hist=True, modifies=["hist(self._hook)"],
               ensures=[one % ("startTestRun", "[]", "{}")])
    R.fields_of("StreamToDict", on_test="Callback", _hook="_StreamToTestRecord")
    R.contract(RR + "_TestRecord.to_dict", props=["C10"], pure=True, returns="dict",
               ensures=["not allocated(result)",
                        "exists(lambda rl: not allocated(rl) and listof(rl) == seq(self.timestamps) and "
                        "dictof(result) == {'id': self.id, 'tags': self.tags, 'details': self.details, 'status': self.status, 'timestamps': rl})"])
    R.contract(RR + "StreamToDict._handle_test", props=["C10"], params={"test_record": "_TestRecord"},
               frame_hist=True, modifies=["hist(self.on_test)"],
               ensures=["exists(lambda rd, rl: not allocated(rd) and not allocated(rl) and listof(rl) == seq(test_record.timestamps) and "
                        "hist(self.on_test) == snoc(old(hist(self.on_test)), call('__call__', [rd], {})) and "
                        "dictof(rd) == {'id': test_record.id, 'tags': test_record.tags, 'details': test_record.details, "
                        "'status': test_record.status, 'timestamps': rl})"])
    # StreamToExtendedDecorator: 'exists' events are dropped, everything else goes to the hook unchanged
    R.fields_of("StreamToExtendedDecorator", decorated="ExtendedToOriginalDecorator", hook="_StreamToTestRecord")
    R.contract(RR + "StreamToExtendedDecorator.status", props=["C10", "C09"],
               params={"test_id": "any", "test_status": "any", "args": "tuple", "kwargs": STATUS_KW}, field_tags={"hook": "Stream"},
               frame_hist=True, modifies=["hist(self.hook)"],
               ensures=["hist(self.hook) == (old(hist(self.hook)) if test_status == 'exists' else "
                        "snoc(old(hist(self.hook)), call('status', args, store(store(old(dictof(kwargs)), 'test_id', test_id), 'test_status', test_status))))"])
