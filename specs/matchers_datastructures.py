"""C06: MatchesListwise / MatchesStructure / MatchesSetwise in _datastructures.py"""

D = "testtools.matchers._datastructures:"
H = "testtools.matchers._higherorder:"


def register(R):
    from specs.a_common import matcher
    R.fields_of("MatchesListwise", matchers="list[AMatcher]", first_only="bool")
    # helper objects built inside match() are executed, not abstracted
    R.inline_when_fresh(H + "Annotate.match", H + "_MatchesPredicateWithParams.match")
    matcher(R, D + "MatchesListwise.match", params={"values": "list"},
            ensures=["(result is None) == (len(values) == len(self.matchers) and "
                     "all(holds(self.matchers[j], values[j]) for j in range(len(values))))"],
            loops={0: dict(invariant=[
                "not allocated(mismatches)",
                "(len(mismatches) == 0) == (len(values) == len(self.matchers) and "
                "all(holds(self.matchers[j], values[j]) for j in range(_i)))",
            ])})
