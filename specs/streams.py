"""C18 (router), C11 (stream decorators): contracts over abstract Stream sinks."""

RR = "testtools.testresult.real:"

STATUS_KW = "dict[{test_id: any; test_status: any; test_tags: ?anyset; runnable: any; file_name: any; file_bytes: any; eof: any; mime_type: any; route_code: ?str; timestamp: any}]"


def register(R):
    register_c11(R)
    # a downstream StreamResult: every call is one event in its ghost history; it does not raise
    R.shape("Stream",
            startTestRun=dict(event=True, returns="any"),
            stopTestRun=dict(event=True, returns="any"),
            status=dict(event=True, returns="any"))

    # ------------------------------------------------------------------ C18
    R.fields_of("StreamResultRouter", fallback="?Stream", _route_code_prefixes="dict[any=>(Stream,bool)]",
                _test_ids="dict[any=>Stream]", _sinks="list[Stream]", _in_run="bool")
    R.define("kwv", ["m", "k"], "ite(kwget(m, k) is absent(), None, kwget(m, k))")
    R.define("rt_prefix", ["rc"], "ite(rc is None, None, first_segment(rc, '/'))")
    R.define("rt_rest", ["rc", "p"], "asstr(rc)[len(asstr(p)) + 1:]")
    R.define("one_status", ["sink", "kw"], "HIST() == hstore(old(HIST()), sink, snoc(old(hist(sink)), call('status', [], kw)))")
    R.contract(RR + "StreamResultRouter.status", props=["C18"], params={"kwargs": STATUS_KW},
               context={"K": "dictof(kwargs)", "rc": "kwv(dictof(kwargs), 'route_code')", "tid": "kwv(dictof(kwargs), 'test_id')",
                        "P": "dictof(self._route_code_prefixes)", "T": "dictof(self._test_ids)"},
               frame_hist=True, modifies=["$hist", "dict(kwargs)"],
               exsures=["self.fallback is None",
                        "not member(rt_prefix(rc), P)", "not member(tid, T)",
                        "HIST() == old(HIST())"],
               ensures=[
                   # route rule for the first segment wins
                   "implies(member(rt_prefix(rc), P) and (rc is None or not truthy(P[rt_prefix(rc)][1])),"
                   "        one_status(P[rt_prefix(rc)][0], K))",
                   "implies(member(rt_prefix(rc), P) and rc is not None and truthy(P[rt_prefix(rc)][1]),"
                   "        one_status(P[rt_prefix(rc)][0], store(K, 'route_code',"
                   "                   ite(len(rt_rest(rc, rt_prefix(rc))) == 0, None, rt_rest(rc, rt_prefix(rc))))))",
                   # otherwise the test id rule
                   "implies(not member(rt_prefix(rc), P) and member(tid, T), one_status(T[tid], K))",
                   # otherwise the fallback
                   "implies(not member(rt_prefix(rc), P) and not member(tid, T), one_status(self.fallback, K))",
               ])


def register_c11(R):
    RRR = RR
    R.fields_of("CopyStreamResult", targets="list[Stream]")
    R.inline_fn(RR + "_strict_map")
    # every target, in list order, receives exactly this call with the identical payload (fold `deliver`)
    R.contract(RRR + "CopyStreamResult.startTestRun", props=["C11"], frame_hist=True, modifies=["$hist"],
               ensures=["HIST() == deliver(old(HIST()), listof(self.targets), call('startTestRun', [], {}), len(listof(self.targets)))"])
    R.contract(RRR + "CopyStreamResult.stopTestRun", props=["C11"], frame_hist=True, modifies=["$hist"],
               ensures=["HIST() == deliver(old(HIST()), listof(self.targets), call('stopTestRun', [], {}), len(listof(self.targets)))"])
    R.contract(RRR + "CopyStreamResult.status", props=["C11"], params={"args": "tuple", "kwargs": STATUS_KW},
               requires=["len(args) <= 2"], frame_hist=True, modifies=["$hist"],
               ensures=["HIST() == deliver(old(HIST()), listof(self.targets), call('status', args, old(dictof(kwargs))), len(listof(self.targets)))",
                        "dictof(kwargs) == old(dictof(kwargs))"])
