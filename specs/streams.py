"""C18 (router), C11 (stream decorators): contracts over abstract Stream sinks."""

RR = "testtools.testresult.real:"

STATUS_KW = "dict[{test_id: any; test_status: any; test_tags: ?anyset; runnable: any; file_name: any; file_bytes: any; eof: any; mime_type: any; route_code: ?str; timestamp: any}]"


def register(R):
    register_c11(R)
    register_c11b(R)
    register_c18b(R)
    register_deliver_lemmas(R)
    # a downstream StreamResult: every call is one event in its ghost history; it does not raise
    R.shape("Stream",
            startTestRun=dict(event=True, returns="any"),
            stopTestRun=dict(event=True, returns="any"),
            status=dict(event=True, returns="any"))

    # ------------------------------------------------------------------ C18
    R.fields_of("StreamResultRouter", fallback="?Stream", _route_code_prefixes="dict[any=>(Stream,bool)]",
                _test_ids="dict[any=>Stream]", _sinks="list[Stream]", _in_run="bool")
    R.define("kwv", ["m", "k"], "ite(kwget(m, k) is absent(), None, kwget(m, k))")
    R.define("rt_prefix", ["rc"], "ite(rc is None, None, first_segment(rc, '/'))")
    R.define("rt_rest", ["rc", "p"], "asstr(rc)[len(asstr(p)) + 1:]")
    R.define("one_status", ["sink", "kw"], "HIST() == hstore(old(HIST()), sink, snoc(old(hist(sink)), call('status', [], kw)))")
    R.contract(RR + "StreamResultRouter.status", props=["C18"], params={"kwargs": STATUS_KW},
               context={"K": "dictof(kwargs)", "rc": "kwv(dictof(kwargs), 'route_code')", "tid": "kwv(dictof(kwargs), 'test_id')",
                        "P": "dictof(self._route_code_prefixes)", "T": "dictof(self._test_ids)"},
               frame_hist=True, modifies=["$hist", "dict(kwargs)"],
               exsures=["self.fallback is None",
                        "not member(rt_prefix(rc), P)", "not member(tid, T)",
                        "HIST() == old(HIST())"],
               ensures=[
                   # route rule for the first segment wins
                   "implies(member(rt_prefix(rc), P) and (rc is None or not truthy(P[rt_prefix(rc)][1])),"
                   "        one_status(P[rt_prefix(rc)][0], K))",
                   "implies(member(rt_prefix(rc), P) and rc is not None and truthy(P[rt_prefix(rc)][1]),"
                   "        one_status(P[rt_prefix(rc)][0], store(K, 'route_code',"
                   "                   ite(len(rt_rest(rc, rt_prefix(rc))) == 0, None, rt_rest(rc, rt_prefix(rc))))))",
                   # otherwise the test id rule
                   "implies(not member(rt_prefix(rc), P) and member(tid, T), one_status(T[tid], K))",
                   # otherwise the fallback
                   "implies(not member(rt_prefix(rc), P) and not member(tid, T), one_status(self.fallback, K))",
               ])


def register_c11(R):
    RRR = RR
    R.fields_of("CopyStreamResult", targets="list[Stream]")
    R.inline_fn(RR + "_strict_map")
    # every target, in list order, receives exactly this call with the identical payload (fold `deliver`)
    R.contract(RRR + "CopyStreamResult.startTestRun", props=["C11"], frame_hist=True, modifies=["$hist"],
               ensures=["HIST() == deliver(old(HIST()), listof(self.targets), call('startTestRun', [], {}), len(listof(self.targets)))"])
    R.contract(RRR + "CopyStreamResult.stopTestRun", props=["C11"], frame_hist=True, modifies=["$hist"],
               ensures=["HIST() == deliver(old(HIST()), listof(self.targets), call('stopTestRun', [], {}), len(listof(self.targets)))"])
    R.contract(RRR + "CopyStreamResult.status", props=["C11"], params={"args": "tuple", "kwargs": STATUS_KW},
               requires=["len(args) <= 2"], frame_hist=True, modifies=["$hist"],
               ensures=["HIST() == deliver(old(HIST()), listof(self.targets), call('status', args, old(dictof(kwargs))), len(listof(self.targets)))",
                        "dictof(kwargs) == old(dictof(kwargs))"])


def register_c11b(R):
    R.fields_of("StreamTagger", targets="list[Stream]", add="frozenset", discard="frozenset")
    R.define("tg_in", ["K"], "ite(kwv(K, 'test_tags') is None, set(), setof(kwv(K, 'test_tags')))")
    R.define("tg_out", ["s", "K"], "(tg_in(K) | setof(s.add)) - setof(s.discard)")
    R.contract(RR + "StreamTagger.status", props=["C11"], params={"args": "tuple", "kwargs": STATUS_KW},
               requires=["len(args) <= 2"], frame_hist=True, modifies=["$hist", "dict(kwargs)"],
               context={"K": "dictof(kwargs)"},
               # the only field that changes is test_tags; the forwarded set is a NEW object (never the caller's),
               # None when empty; the caller's own set object is unchanged (frame obligations on $set)
               ensures=["exists(lambda v: HIST() == deliver(old(HIST()), listof(self.targets), call('status', args, store(K, 'test_tags', v)), len(listof(self.targets)))"
                        " and ((v is None) == (tg_out(self, K) == set()))"
                        " and implies(v is not None, is_ref(v) and not allocated(v) and setof(v) == tg_out(self, K)))"])
    R.library("datetime.datetime.now", signature="tz=None", returns="any", pure=True, ensures=["result is not None", "result is not absent()"])
    R.fields_of("TimestampingStreamResult", targets="list[Stream]")
    R.contract(RR + "TimestampingStreamResult.status", props=["C11", "C13"], params={"args": "tuple", "kwargs": STATUS_KW},
               requires=["len(args) <= 2"], frame_hist=True, modifies=["$hist", "dict(kwargs)"],
               context={"K": "dictof(kwargs)"},
               ensures=[  # a supplied timestamp is forwarded unchanged
                   "implies(kwv(K, 'timestamp') is not None, HIST() == deliver(old(HIST()), listof(self.targets), call('status', args, K), len(listof(self.targets))))",
                   # a missing one (absent or None) is filled with a value that is not None; nothing else changes
                   "implies(kwv(K, 'timestamp') is None, exists(lambda v: v is not None and v is not absent() and "
                   "HIST() == deliver(old(HIST()), listof(self.targets), call('status', args, store(K, 'timestamp', v)), len(listof(self.targets)))))"])
    R.shape("Callback", __call__=dict(event=True, returns="any"))
    R.fields_of("StreamFailFast", on_error="Callback")
    R.contract(RR + "StreamFailFast.status", props=["C11", "C04"],
               params=dict(test_id="any", test_status="any", test_tags="any", runnable="any", file_name="any", file_bytes="any",
                           eof="any", mime_type="any", route_code="any", timestamp="any"),
               frame_hist=True, modifies=["hist(self.on_error)"],
               ensures=["hist(self.on_error) == (snoc(old(hist(self.on_error)), call('__call__', [], {})) "
                        "if (test_status == 'uxsuccess' or test_status == 'fail') else old(hist(self.on_error)))"])
    R.shape("AQueue", put=dict(event=True, returns="any"))
    R.fields_of("StreamToQueue", queue="AQueue", routing_code="str")
    R.contract(RR + "StreamToQueue.route_code", props=["C11", "C18"], params={"route_code": "?str"}, pure=True, returns="str",
               ensures=["result == (self.routing_code if route_code is None else self.routing_code + '/' + asstr(route_code))"])
    R.contract(RR + "StreamToQueue.status", props=["C11"],
               params=dict(test_id="any", test_status="any", test_tags="any", runnable="any", file_name="any", file_bytes="any",
                           eof="any", mime_type="any", route_code="?str", timestamp="any"),
               frame_hist=True, modifies=["hist(self.queue)"],
               ensures=["exists(lambda rd: not allocated(rd) and hist(self.queue) == snoc(old(hist(self.queue)), call('put', [rd], {})) and "
                        "dictof(rd) == {'event': 'status', 'test_id': test_id, 'test_status': test_status, 'test_tags': test_tags, "
                        "'runnable': runnable, 'file_name': file_name, 'file_bytes': file_bytes, 'eof': eof, 'mime_type': mime_type, "
                        "'route_code': (self.routing_code if route_code is None else self.routing_code + '/' + asstr(route_code)), 'timestamp': timestamp})"])
    R.contract(RR + "StreamToQueue.startTestRun", props=["C11"], frame_hist=True, modifies=["hist(self.queue)"],
               ensures=["exists(lambda rd: not allocated(rd) and hist(self.queue) == snoc(old(hist(self.queue)), call('put', [rd], {})) and "
                        "dictof(rd) == {'event': 'startTestRun', 'result': self})"])
    R.contract(RR + "StreamToQueue.stopTestRun", props=["C11"], frame_hist=True, modifies=["hist(self.queue)"],
               ensures=["exists(lambda rd: not allocated(rd) and hist(self.queue) == snoc(old(hist(self.queue)), call('put', [rd], {})) and "
                        "dictof(rd) == {'event': 'stopTestRun', 'result': self})"])


def register_c18b(R):
    R.contract(RR + "StreamResultRouter.startTestRun", props=["C18"], frame_hist=True, modifies=["$hist", "self._in_run"],
               ensures=["HIST() == deliver(old(HIST()), listof(self._sinks), call('startTestRun', [], {}), len(listof(self._sinks)))",
                        "self._in_run == True"],
               loops={0: dict(invariant=["HIST() == deliver(old(HIST()), _seq, call('startTestRun', [], {}), _i)",
                                         "_seq == old(listof(self._sinks))", "listof(self._sinks) == old(listof(self._sinks))"])})
    R.contract(RR + "StreamResultRouter.stopTestRun", props=["C18"], frame_hist=True, modifies=["$hist", "self._in_run"],
               ensures=["HIST() == deliver(old(HIST()), listof(self._sinks), call('stopTestRun', [], {}), len(listof(self._sinks)))",
                        "self._in_run == False"],
               loops={0: dict(invariant=["HIST() == deliver(old(HIST()), _seq, call('stopTestRun', [], {}), _i)",
                                         "_seq == old(listof(self._sinks))", "listof(self._sinks) == old(listof(self._sinks))"])})
    R.contract(RR + "StreamResultRouter.__init__", props=["C18"], params={"fallback": "?Stream", "do_start_stop_run": "bool"},
               modifies=["self.fallback", "self._route_code_prefixes", "self._test_ids", "self._sinks", "self._in_run"],
               ensures=["self.fallback is fallback", "self._in_run == False",
                        "dictof(self._route_code_prefixes) == {}", "dictof(self._test_ids) == {}",
                        "not allocated(self._sinks)", "not allocated(self._route_code_prefixes)", "not allocated(self._test_ids)",
                        # the fallback takes part in start/stop iff requested (and present)
                        "listof(self._sinks) == ([fallback] if (do_start_stop_run and fallback is not None) else [])"])
    R.contract(RR + "StreamResultRouter._map_route_code_prefix", params={"sink": "Stream", "route_prefix": "str", "consume_route": "any"},
               props=["C18"], modifies=["dict(self._route_code_prefixes)"],
               exsures=["member('/', route_prefix)", "subclass_of(cls_of(exc), TypeError)",
                        "dictof(self._route_code_prefixes) == old(dictof(self._route_code_prefixes))"],
               ensures=["not member('/', route_prefix)",
                        "dictof(self._route_code_prefixes) == store(old(dictof(self._route_code_prefixes)), route_prefix, (sink, consume_route))"])
    R.contract(RR + "StreamResultRouter._map_test_id", params={"sink": "Stream", "test_id": "any"},
               props=["C18"], modifies=["dict(self._test_ids)"],
               ensures=["dictof(self._test_ids) == store(old(dictof(self._test_ids)), test_id, sink)"])
    # add_rule: the policy table is the class-level dict filled in the class body
    R.contract(RR + "StreamResultRouter.add_rule@route", props=["C18"],
               params={"sink": "Stream", "policy": "str", "do_start_stop_run": "bool",
                       "policy_args": "dict[{route_prefix: str; consume_route: any}]"},
               requires=["policy == 'route_code_prefix'", "kwget(dictof(policy_args), 'route_prefix') is not absent()"],
               frame_hist=True, modifies=["dict(self._route_code_prefixes)", "list(self._sinks)", "hist(sink)", "dict(policy_args)"],
               exsures=["member('/', asstr(kwget(dictof(policy_args), 'route_prefix')))",
                        "listof(self._sinks) == old(listof(self._sinks))", "hist(sink) == old(hist(sink))",
                        "dictof(self._route_code_prefixes) == old(dictof(self._route_code_prefixes))"],
               ensures=[
                   "listof(self._sinks) == (old(listof(self._sinks)) + [sink] if do_start_stop_run else old(listof(self._sinks)))",
                   # startTestRun is sent immediately iff the sink takes part in start/stop and a run is in progress
                   "hist(sink) == (snoc(old(hist(sink)), call('startTestRun', [], {})) if (do_start_stop_run and self._in_run) else old(hist(sink)))",
                   "dictof(self._route_code_prefixes) == store(old(dictof(self._route_code_prefixes)), kwget(dictof(policy_args), 'route_prefix'),"
                   " (sink, ite(kwget(dictof(policy_args), 'consume_route') is absent(), False, kwget(dictof(policy_args), 'consume_route'))))",
               ])
    R.contract(RR + "StreamResultRouter.add_rule@bad", props=["C18"],
               params={"sink": "Stream", "policy": "str", "do_start_stop_run": "bool", "policy_args": "dict"},
               requires=["policy != 'route_code_prefix'", "policy != 'test_id'"],
               frame_hist=True, modifies=["dict(policy_args)"],
               exsures=["subclass_of(cls_of(exc), ValueError)", "hist(sink) == old(hist(sink))"],
               ensures=["False"])
    # push/pop: an event sent through StreamToQueue(code) and a consuming rule for code gets its route code back
    # (stated over pure strings, split by case, so that cvc5 --strings-exp can take it: z3's sequence solver times out here)
    R.lemma("route_push_pop_none", ["C18"], vars={"code": "str"}, background=False,
            assumes=["not member('/', code)"],
            goal="first_segment(code, '/') == code and len(code[len(code) + 1:]) == 0")
    R.lemma("route_push_pop_some", ["C18"], vars={"code": "str", "rc": "str"}, background=False,
            assumes=["not member('/', code)", "len(rc) > 0"],
            goal="first_segment(code + '/' + rc, '/') == code and (code + '/' + rc)[len(code) + 1:] == rc")


def register_deliver_lemmas(R):
    # disjoint_from(s, r): no element of s is the object r (definition), and every element is an object
    R.function("disjoint_from", ["seq", "val"], "bool")
    R.axiom("disjoint_from_def", {"s": "seq", "r": "val"},
            "disjoint_from(s, r) == (is_ref(r) and forall(lambda j: implies(0 <= j and j < len(s), s[j] != r and is_ref(s[j]))))")
    # deliver touches only its targets: proved by induction over the prefix length (base + step), then usable as a fact
    VARS = {"H": "harr", "s": "seq", "e": "event", "k": "int", "r": "val"}
    R.lemma("deliver_frame_base", ["C09", "C11", "C18", "C08"], vars=VARS, assumes=["k == 0"], goal="hsel(deliver(H, s, e, k), r) == hsel(H, r)")
    R.lemma("deliver_frame_step", ["C09", "C11", "C18", "C08"], vars=VARS,
            assumes=["0 <= k", "k < len(s)", "disjoint_from(s, r)",
                     # induction hypothesis for k
                     "hsel(deliver(H, s, e, k), r) == hsel(H, r)"],
            goal="hsel(deliver(H, s, e, k + 1), r) == hsel(H, r)")
    R.axiom("deliver_frame", VARS,
            "implies(0 <= k and k <= len(s) and disjoint_from(s, r), hsel(deliver(H, s, e, k), r) == hsel(H, r))")
