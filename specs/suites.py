"""C19: testtools/testsuite.py -- suite utilities preserve the test set."""

TS = "testtools.testsuite:"


def register(R):
    # ---- the abstract test tree ---------------------------------------------------------------------------------------
    # iterable(n): iter(n) succeeds (n is a suite); kids(n): what iterating n yields (finite; the tree is not modified while a
    # pure traversal runs); leaves(n): the leaf tests in suite order, defined by recursion over the tree:
    #   leaves(n) = [n]                       if not iterable(n)
    #   leaves(n) = flatk(kids(n), len)       otherwise;    flatk(s, 0) = [],  flatk(s, k+1) = flatk(s, k) ++ leaves(s[k])
    R.function("iterable", ["val"], "bool")
    R.function("kids", ["val"], "seq")
    R.function("leaves", ["val"], "seq")
    R.function("flatk", ["seq", "int"], "seq")
    R.axiom("leaves_case", {"n": "val"}, "implies(not iterable(n), leaves(n) == [n])", patterns=["leaves(n)"])
    R.axiom("leaves_suite", {"n": "val"}, "implies(iterable(n), leaves(n) == flatk(kids(n), len(kids(n))))", patterns=["leaves(n)"])
    R.axiom("flatk_0", {"s": "seq"}, "flatk(s, 0) == []", patterns=["flatk(s, 0)"])
    R.axiom("flatk_step", {"s": "seq", "k": "int"}, "implies(0 <= k and k < len(s), flatk(s, k + 1) == concat(flatk(s, k), leaves(s[k])))",
            patterns=["flatk(s, k + 1)"])
    # consequence of the definition by induction over the (finite) tree: every element of leaves(n) is a leaf
    R.axiom("leaves_are_cases", {"n": "val", "i": "int"}, "implies(0 <= i and i < len(leaves(n)), not iterable(leaves(n)[i]))")
    # assumed library contract: iter(x) raises TypeError exactly for a non-iterable, else iterates kids(x)
    R.library("iter", signature="obj", returns="list[Node]", pure=True,
              exsures=["not iterable(obj)", "subclass_of(cls_of(exc), TypeError)"],
              ensures=["iterable(obj)", "not allocated(result)", "listof(result) == kids(obj)"])
    # iterate_tests: every leaf exactly once, in suite order
    R.contract(TS + "iterate_tests", props=["C19"], params={"test_suite_or_case": "any"}, returns="iter[Node]", pure=True,
               ensures=["seq(ret) == leaves(test_suite_or_case)"],
               loops={0: dict(invariant=["_out == flatk(_seq, _i)"])})
    register_flatten(R)


def register_flatten(R):
    # a node of the test tree: any method call is one ghost event; id() returns the node's (stable) test id tid_(n);
    # optional methods (sort_tests, filter_by_ids, id) are capabilities has(n, name)
    R.function("tid_", ["val"], "val")
    R.shape("Node",
            id=dict(signature="", optional=True, pure=True, noalloc=True, returns="str", value="tid_(self)"),
            sort_tests=dict(signature="", optional=True, event=True, returns="any"),
            filter_by_ids=dict(signature="test_ids", optional=True, event=True, returns="Node"))
    # fp(n, unpack): the (sort key, entry) pairs _flatten_tests must produce; custom suites stay whole, keyed by their first leaf's id
    R.function("fp", ["val", "bool"], "seq")
    R.function("fpk", ["seq", "int"], "seq")
    R.define("plain", ["n"], "typeof_is(n, extclass('unittest.TestSuite'))")
    R.define("first_id", ["n"], "ite(len(leaves(n)) == 0, None, tid_(leaves(n)[0]))")
    NB = {"n": "val", "u": "bool"}
    R.axiom("fp_case", NB, "implies(not iterable(n), fp(n, u) == [(tid_(n), n)])", patterns=["fp(n, u)"])
    R.axiom("fp_plain", NB, "implies(iterable(n) and (plain(n) or u), fp(n, u) == fpk(kids(n), len(kids(n))))", patterns=["fp(n, u)"])
    R.axiom("fp_custom", NB, "implies(iterable(n) and not (plain(n) or u), fp(n, u) == [(first_id(n), n)])", patterns=["fp(n, u)"])
    R.axiom("fpk_0", {"s": "seq"}, "fpk(s, 0) == []", patterns=["fpk(s, 0)"])
    R.axiom("fpk_step", {"s": "seq", "k": "int"}, "implies(0 <= k and k < len(s), fpk(s, k + 1) == concat(fpk(s, k), fp(s[k], False)))",
            patterns=["fpk(s, k + 1)"])
    R.contract(TS + "_flatten_tests", props=["C19"], params={"suite_or_case": "Node", "unpack_outer": "bool"}, returns="list[(any,Node)]",
               modifies=["$hist"],
               # every leaf is a test: it has an id() method
               requires=["forall(lambda rn: implies(not iterable(rn), has(rn, 'id')))"],
               ensures=["not allocated(ret)", "listof(ret) == fp(suite_or_case, unpack_outer)",
                        # a custom suite with a sort_tests method is asked to sort itself
                        "implies(iterable(suite_or_case) and not (plain(suite_or_case) or unpack_outer) and has(suite_or_case, 'sort_tests'), "
                        "is_snoc(hist(suite_or_case)) and ev_name(hlast(hist(suite_or_case))) == 'sort_tests')"],
               loops={0: dict(invariant=["listof(result) == fpk(_seq, _i)", "not allocated(result)"]),
                      1: dict(invariant=["_i == 0", "suite_id is None"])})
    register_sorted(R)


def register_sorted(R):
    KEY = "lambda item: (item[0] is not None, item[0])"
    # cnt(s, x): the multiplicity of x in the sequence s.  has_dup(s): some id occurs more than once among the tests s
    R.function("cnt", ["seq", "val"], "int")
    R.define("has_dup", ["s"], "exists(lambda vx: cnt([tid_(t) for t in s], vx) > 1)")
    # assumed library contracts: Counter(xs) maps exactly the elements of xs to their multiplicities; unittest.TestSuite(tests)
    R.library("collections.Counter", signature="xs", returns="dict", pure=True,
              ensures=["not allocated(result)",
                       "forall(lambda vx: (vx in dictof(result)) == (cnt(xs, vx) > 0))",
                       "forall(lambda vx: implies(vx in dictof(result), dictof(result)[vx] == cnt(xs, vx)))"])
    R.library("unittest.TestSuite", signature="tests=()", returns="Node", pure=True,
              ensures=["not allocated(result)", "typeof_is(result, extclass('unittest.TestSuite'))", "iterable(result)", "kids(result) == seq(tests)"])
    R.contract(TS + "sorted_tests", props=["C19"], params={"suite_or_case": "Node", "unpack_outer": "bool"}, returns="Node",
               modifies=["$hist"],
               requires=["forall(lambda rn: implies(not iterable(rn), has(rn, 'id')))"],
               exsures=["has_dup(leaves(suite_or_case))", "subclass_of(cls_of(exc), ValueError)"],
               ensures=["not has_dup(leaves(suite_or_case))", "not allocated(ret)", "typeof_is(ret, extclass('unittest.TestSuite'))",
                        # the entries of _flatten_tests, stably sorted by (id is not None, id), keys dropped
                        "len(kids(ret)) == len(fp(suite_or_case, unpack_outer))",
                        "forall(lambda i: implies(0 <= i and i < len(kids(ret)), "
                        "at(kids(ret), i) == at(elems(at(sorted_by(fp(suite_or_case, unpack_outer), %r), i)), 1)))" % KEY])
    register_filter(R)


def register_filter(R):
    # heap view of a suite: its children are the elements of the list object n._tests (filter_by_ids mutates that list in place);
    # tests_list(l): l is the _tests list of some suite that existed before the call (the only lists filter_by_ids may change)
    R.function("tests_list", ["ref"], "bool")
    R.fields_of("Node", _tests="list[Node]")
    R.shape("Node", __iter__=dict(signature="", pure=True, returns="list[Node]",
                                  ensures=["not allocated(ret)", "listof(ret) == listof(self._tests)",
                                           # the structure is a TREE of suites that existed before the call: a child suite reached by
                                           # iteration has not been filtered yet, its list is one of the original _tests lists
                                           "all(implies(isinstance(c, extclass('unittest.TestSuite')), tests_list(c._tests)) for c in listof(ret))"]))
    NOFB = "not has(%s, 'filter_by_ids')"
    # P(c, n): what filter_by_ids makes of the child c (heap-independent): a kept case is the same object, a dropped case is replaced
    # by a NEW (empty) suite at the same position, a plain sub-suite stays the same object (filtered in place, recursively)
    R.define("filtered_as", ["c", "m", "ids"],
             "implies(not has(c, 'filter_by_ids') and has(c, 'id') and (tid_(c) in ids), m is c) and "
             "implies(not has(c, 'filter_by_ids') and has(c, 'id') and not (tid_(c) in ids), not allocated(m)) and "
             "implies(not has(c, 'filter_by_ids') and not has(c, 'id'), m is c)")
    R.contract(TS + "filter_by_ids", props=["C19"], params={"suite_or_case": "Node", "test_ids": "anyset"}, returns="Node",
               # in place: the suite keeps its _tests list object (documented: "mutate in place rather than guessing how to
               # reconstruct a new suite"); no field of any node is reassigned
               modifies=["$hist", "$list"],
               requires=["forall(lambda rl: implies(tests_list(rl), allocated_now(rl)))",
                         "implies(isinstance(suite_or_case, extclass('unittest.TestSuite')), tests_list(suite_or_case._tests))"],
               ensures=[
                   # only _tests lists of suites are ever changed
                   "forall(lambda rl: implies(allocated(rl) and not tests_list(rl), listof(rl) == old(listof(rl))))",
                   # objects with their own filter_by_ids: delegated, exactly one call, its result returned
                   "implies(has(suite_or_case, 'filter_by_ids'), hist(suite_or_case) == snoc(old(hist(suite_or_case)), call('filter_by_ids', [test_ids], {})))",
                   # test cases: kept iff their id is chosen, else replaced by a new empty suite
                   "implies(" + NOFB % "suite_or_case" + " and has(suite_or_case, 'id') and (tid_(suite_or_case) in test_ids), ret is suite_or_case)",
                   "implies(" + NOFB % "suite_or_case" + " and has(suite_or_case, 'id') and not (tid_(suite_or_case) in test_ids), "
                   "not allocated(ret) and typeof_is(ret, extclass('unittest.TestSuite')) and len(kids(ret)) == 0)",
                   "implies(" + NOFB % "suite_or_case" + " and not has(suite_or_case, 'id'), ret is suite_or_case)",
                   # plain suites: same suite object, same list object, same length; entry i is what filter_by_ids makes of child i
                   "implies(" + NOFB % "suite_or_case" + " and not has(suite_or_case, 'id') and isinstance(suite_or_case, extclass('unittest.TestSuite')), "
                   "len(listof(suite_or_case._tests)) == len(old(listof(suite_or_case._tests))) and "
                   "all(filtered_as(at(old(listof(suite_or_case._tests)), k), at(listof(suite_or_case._tests), k), test_ids) "
                   "for k in range(len(listof(suite_or_case._tests)))))",
                   # anything else is returned untouched
                   "implies(" + NOFB % "suite_or_case" + " and not has(suite_or_case, 'id') and not isinstance(suite_or_case, extclass('unittest.TestSuite')), "
                   "LIST() == old(LIST()))"],
               loops={0: dict(invariant=["not allocated(filtered)", "len(listof(filtered)) == _i",
                                         "all(filtered_as(at(_seq, k), at(listof(filtered), k), test_ids) for k in range(_i))",
                                         "forall(lambda rl: implies(allocated(rl) and not tests_list(rl), listof(rl) == old(listof(rl))))"])})
    register_list(R)


def register_list(R):
    RUN = "testtools.run:"
    P1, P2 = "unittest.loader.ModuleImportFailure.", "discover.ModuleImportFailure."
    # is_imp(x): the id names a failed import (one of the two unittest prefixes); imp_rest(x): the id without that prefix
    R.define("is_imp", ["x"], "asstr(x).startswith(%r) or asstr(x).startswith(%r)" % (P1, P2))
    # idsk(s, k) / errsk(s, k): the ids of the first k tests that are runnable / the import errors among them, in order
    R.function("idsk", ["seq", "int"], "seq")
    R.function("errsk", ["seq", "int"], "seq")
    R.function("imp_rest", ["val"], "val")
    SK = {"s": "seq", "k": "int"}
    R.axiom("idsk_0", {"s": "seq"}, "idsk(s, 0) == []", patterns=["idsk(s, 0)"])
    R.axiom("idsk_step", SK, "implies(0 <= k and k < len(s), idsk(s, k + 1) == "
            "ite(is_imp(tid_(at(s, k))), idsk(s, k), concat(idsk(s, k), [tid_(at(s, k))])))", patterns=["idsk(s, k + 1)"])
    R.axiom("errsk_0", {"s": "seq"}, "errsk(s, 0) == []", patterns=["errsk(s, 0)"])
    R.axiom("errsk_step", SK, "implies(0 <= k and k < len(s), errsk(s, k + 1) == "
            "ite(is_imp(tid_(at(s, k))), concat(errsk(s, k), [imp_rest(tid_(at(s, k)))]), errsk(s, k)))", patterns=["errsk(s, k + 1)"])
    R.contract(RUN + "list_test", props=["C19"], params={"test": "Node"}, returns="(list,list)", modifies=[],
               requires=["forall(lambda rn: implies(not iterable(rn), has(rn, 'id')))"],
               context={"L": "leaves(test)"},
               ensures=["not allocated(ret[0])", "not allocated(ret[1])",
                        # exactly the ids of the leaf tests, in suite order, import failures reported separately
                        "listof(ret[0]) == idsk(L, len(L))",
                        "len(listof(ret[1])) == len(errsk(L, len(L)))"],
               loops={0: dict(invariant=["listof(test_ids) == idsk(_seq, _i)", "len(listof(errors)) == len(errsk(_seq, _i))",
                                         "not allocated(test_ids)", "not allocated(errors)", "test_ids is not errors", "frame_ok('f:args')"]),
                      1: dict(invariant=["all(not asstr(tid_(test)).startswith(asstr(at(_seq, k))) for k in range(_i))",
                                         # nothing is recorded while the prefixes are still being tried
                                         "listof(errors) == at_loop(0, listof(errors))", "listof(test_ids) == at_loop(0, listof(test_ids))", "frame_ok('f:args')"])})
    register_runner_list(R)


def register_runner_list(R):
    RUN = "testtools.run:"
    # wlines(h, s, k): history h followed by one write("<id>\n") per element of the first k elements of s, in order
    R.function("wlines", ["hist", "seq", "int"], "hist")
    R.axiom("wlines_0", {"h": "hist", "s": "seq"}, "wlines(h, s, 0) == h", patterns=["wlines(h, s, 0)"])
    R.axiom("wlines_step", {"h": "hist", "s": "seq", "k": "int"},
            "implies(0 <= k and k < len(s), wlines(h, s, k + 1) == snoc(wlines(h, s, k), call('write', ['%s\\n' % at(s, k)], {})))",
            patterns=["wlines(h, s, k + 1)"])
    R.shape("OutStream", write=dict(signature="s", event=True, returns="any"))
    R.shape("ALoader")
    R.fields_of("ALoader", errors="list")
    R.fields_of("TestToolsTestRunner", stdout="OutStream")
    # --list: exactly the ids list_test reports, one per line, in order; then the loader's import errors and exit status 2 if any
    R.contract(RUN + "TestToolsTestRunner.list", props=["C19"], params={"test": "Node", "loader": "ALoader"},
               requires=["forall(lambda rn: implies(not iterable(rn), has(rn, 'id')))"],
               frame_hist=True, modifies=["hist(self.stdout)"], returns="none",
               context={"L": "leaves(test)"},
               exsures=["len(listof(loader.errors)) > 0", "subclass_of(cls_of(exc), SystemExit)",
                        "hist(self.stdout) == wlines(wlines(old(hist(self.stdout)), idsk(L, len(L)), len(idsk(L, len(L)))), listof(loader.errors), len(listof(loader.errors)))"],
               ensures=["len(listof(loader.errors)) == 0",
                        "hist(self.stdout) == wlines(old(hist(self.stdout)), idsk(L, len(L)), len(idsk(L, len(L))))"],
               loops={0: dict(invariant=["hist(self.stdout) == wlines(old(hist(self.stdout)), _seq, _i)"]),
                      1: dict(invariant=["hist(self.stdout) == wlines(at_entry(1, hist(self.stdout)), _seq, _i)"])})
