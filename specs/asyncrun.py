"""C14 (partial): testtools/twistedsupport/_runtest.py -- the sequential accounting of AsynchronousDeferredRunTest.

Decidable by contracts: what _run_core / _blocking_run_deferred / the log-observer fixtures do AROUND the spinning of the reactor.
Not decidable: the order in which Deferred-returning stages run relative to their firing, timeouts relative to delays, interrupt
instants (the schedule of Twisted's event loop)."""

AR = "testtools.twistedsupport._runtest:"
A = AR + "AsynchronousDeferredRunTest."


def register(R):
    # ---- log observer fixtures -------------------------------------------------------------------------------------------
    # a log publisher: add/remove are ghost events; a fixture's addCleanup registers (callable, argument) pairs (run LIFO by fixtures)
    R.shape("Publisher", addObserver=dict(signature="observer", event=True, returns="none"),
            removeObserver=dict(signature="observer", event=True, returns="none"))
    R.function("pubs", ["hist", "seq", "int"], "hist")      # h followed by removeObserver of the LAST k observers, last first
    R.axiom("pubs_0", {"h": "hist", "s": "seq"}, "pubs(h, s, 0) == h", patterns=["pubs(h, s, 0)"])
    R.axiom("pubs_step", {"h": "hist", "s": "seq", "k": "int"},
            "implies(0 <= k and k < len(s), pubs(h, s, k + 1) == snoc(pubs(h, s, k), call('removeObserver', [at(s, len(s) - 1 - k)], {})))",
            patterns=["pubs(h, s, k + 1)"])
    R.contract(AR + "_get_global_publisher_and_observers", assumed=True, params={}, returns="(Publisher,list)", pure=True,
               ensures=["not allocated(ret[1])"])
    # fixtures.Fixture.addCleanup(f, *args): registers a cleanup (the fixtures library runs them last-registered-first): one ghost event
    R.library("fixtures.Fixture.addCleanup", signature="f, a=None", event=True, returns="none")
    R.contract(AR + "_NoTwistedLogObservers._setUp", props=["C14"], frame_hist=True, modifies=["$hist"], returns="none",
               # one iteration per installed observer, last first: it is removed from the publisher and exactly one cleanup is registered
               # that adds THAT observer back to THAT publisher -- cleanups run in reverse, so the observers return in their old order
               loops={0: dict(invariant=["not allocated(real_observers)"],
                              body_ensures=["hist(publisher) == snoc(at_loop(0, hist(publisher)), call('removeObserver', [observer], {}))",
                                            "hist(self) == snoc(at_loop(0, hist(self)), call('addCleanup', [publisher.addObserver, observer], {}))"])})
    R.fields_of("_TwistedLogObservers", _observers="list", _log_publisher="Publisher")
    R.contract(AR + "_TwistedLogObservers._setUp", props=["C14"], frame_hist=True, modifies=["$hist"], returns="none",
               requires=["self._log_publisher is not self"],
               loops={0: dict(invariant=["self._log_publisher is old(self._log_publisher)"],
                              body_ensures=["hist(self._log_publisher) == snoc(at_loop(0, hist(self._log_publisher)), call('addObserver', [observer], {}))",
                                            "hist(self) == snoc(at_loop(0, hist(self)), call('addCleanup', [self._log_publisher.removeObserver, observer], {}))"])})
    register_blocking(R)


def register_blocking(R):
    SPN = "testtools.twistedsupport._spinner:"
    X = "listof(self._exceptions)"
    DISTINCT = ["self.case._cleanups is not self._exceptions", "self.handlers is not self._exceptions", "self.handlers is not self.case._cleanups"]
    # trap_unhandled_errors(f, *args): calls f(*args) once; returns (its value, the DebugInfo objects of Deferreds that were
    # garbage-collected with an unhandled failure meanwhile) or lets f's exception through (assumed: it patches defer.DebugInfo with
    # a locally defined class, outside the modelled subset)
    R.shape("ASpinner", run=dict(signature="timeout, function, a=None", event=True, returns="any", exsures=["True"]),
            clear_junk=dict(signature="", event=True, returns="list", ensures=["not allocated(ret)"]))
    R.function("trap_raised", ["val"], "bool")
    R.function("trap_exc", ["val"], "val")
    R.function("trap_value", ["val"], "val")
    R.contract(SPN + "trap_unhandled_errors", assumed=True, params={"function": "any", "args": "tuple", "kwargs": "dict"}, returns="(any,list[DbgInfo])",
               modifies=["$hist"], exsures=["trap_raised(function)", "exc is trap_exc(function)"],
               ensures=["not trap_raised(function)", "ret == trap_value(function)", "not allocated(at(elems(ret), 1))"])
    for cls in ("TimeoutError", "NoResultError", "UncleanReactorError"):
        pass
    R.contract(SPN + "TimeoutError.__init__", assumed=True, params={"function": "any", "timeout": "any"}, modifies=["self.args"], returns="none")
    R.contract(AR + "UncleanReactorError.__init__", assumed=True, params={"junk": "any"}, modifies=["self.args"], returns="none")
    R.fields_of("AsynchronousDeferredRunTest", _timeout="any", _reactor="any", _debug="any", _suppress_twisted_logging="any", _store_twisted_logs="any")
    # _log_user_exception(e): e is recorded exactly like an exception raised by user code
    R.contract(A + "_log_user_exception", props=["C14"], params={"e": "exc"}, requires=DISTINCT + ["not typeof_is(e, MultipleExceptions)"],
               frame_hist=True, modifies=["list(self._exceptions)", "hist(self.case)"], returns="none",
               ensures=["%s == old(%s) + [e]" % (X, X)])
    ARGS = "(self._timeout, self._run_deferred)"
    R.contract(A + "_blocking_run_deferred", props=["C14"], params={"spinner": "ASpinner"}, requires=DISTINCT,
               frame_hist=True, modifies=["$hist", "list(self._exceptions)"], returns="(any,list[DbgInfo])",
               # anything but the two spinner verdicts propagates unchanged
               exsures=["trap_raised(spinner.run) and exc is trap_exc(spinner.run)",
                        "not typeof_is(exc, NoResultError) and not typeof_is(exc, TimeoutError)"],
               ensures=[
                   "not allocated(at(elems(ret), 1))",
                   # the spinner came back: its (value, unhandled) pair is passed on untouched, nothing is recorded
                   "implies(not trap_raised(spinner.run), ret == trap_value(spinner.run) and %s == old(%s))" % (X, X),
                   # interrupted (no result): recorded as an error, the result is asked to stop, the run counts as unsuccessful
                   "implies(trap_raised(spinner.run) and typeof_is(trap_exc(spinner.run), NoResultError), "
                   "%s == old(%s) + [trap_exc(spinner.run)] and is_snoc(hist(self.result)) and ev_name(hlast(hist(self.result))) == 'stop' and "
                   "at(elems(ret), 0) == False and len(listof(at(elems(ret), 1))) == 0)" % (X, X),
                   # timed out: a TimeoutError is recorded as an error, unsuccessful
                   "implies(trap_raised(spinner.run) and typeof_is(trap_exc(spinner.run), TimeoutError), "
                   "len(%s) == len(old(%s)) + 1 and typeof_is(last(%s), TimeoutError) and "
                   "at(elems(ret), 0) == False and len(listof(at(elems(ret), 1))) == 0)" % (X, X, X)])
    register_core(R)


def register_core(R):
    X = "listof(self._exceptions)"
    DISTINCT = ["self.case._cleanups is not self._exceptions", "self.handlers is not self._exceptions", "self.handlers is not self.case._cleanups"]
    # the log fixture in use (CompoundFixture of the two optional fixtures): entering/leaving it are ghost events, its details a dict
    R.shape("LogFix", __enter__=dict(signature="", event=True, returns="LogFix", value="self"),
            __exit__=dict(signature="a, b, c", event=True, returns="any", ensures=["not truthy(ret)"]),
            getDetails=dict(signature="", returns="dict[any=>AContent]", pure=True, noalloc=True))
    R.contract(A + "_get_log_fixture", assumed=True, returns="LogFix", pure=True, ensures=["not allocated(ret)", "hist(ret) == hnil()"])
    R.contract(A + "_make_spinner", assumed=True, returns="ASpinner", pure=True, ensures=["not allocated(ret)"])
    # the error observer fixture (a fixtures.Fixture): entering / leaving are ghost events; what it reports as logged errors are Failures
    R.library("fixtures.Fixture.__init__", signature="", returns="none", pure=True, noalloc=True)
    R.library("fixtures.Fixture.__enter__", signature="", event=True, returns="any", value="self")
    R.library("fixtures.Fixture.__exit__", signature="a, b, c", event=True, returns="any", ensures=["not truthy(ret)"])
    R.contract(AR + "_ErrorObserver.flush_logged_errors", assumed=True, params={"error_types": "tuple"}, returns="list[Flr]", pure=True,
               ensures=["not allocated(ret)"])
    R.library("twisted.trial._synctest._LogObserver", signature="", returns="any", pure=True)
    # the one process-wide observer object: only ever handed to _ErrorObserver, whose flush_logged_errors() is an assumed contract
    # (an arbitrary list of Failures); what it accumulated in EARLIER runs is therefore part of that arbitrary list, not assumed empty
    R.shared_state["testtools.twistedsupport._runtest._log_observer"] = "opaque; read only through _ErrorObserver.flush_logged_errors (assumed: any list)"
    # a Deferred that was garbage-collected with an unhandled failure
    R.shape("DbgInfo", _getDebugTracebacks=dict(signature="", returns="?str", pure=True, noalloc=True))
    R.fields_of("DbgInfo", failResult="Flr")
    R.function("details_of", ["val"], "val")
    R.shape("AsyncCase", addDetail=dict(signature="name, content_object", event=True, returns="none"),
            getDetails=dict(signature="", returns="dict", pure=True, noalloc=True, value="details_of(self)"),
            onException=dict(signature="exc_info, tb_label='traceback'", event=True, returns="any"))
    R.fields_of("AsyncCase", reactor="any", _cleanups="list", force_failure="maybe any")
    H1, X1 = "at_entry(1, hist(self.result))", "at_entry(1, listof(self._exceptions))"
    R.contract(A + "_run_core", props=["C14"], field_tags={"case": "AsyncCase"}, requires=DISTINCT + ["self.result is not self.case"],
               frame_hist=True, modifies=["$hist", "list(self._exceptions)", "self.case.reactor", "f:args"], returns="none",
               exsures=["True"],
               ensures=[
                   # success is reported exactly when the spun run was successful AND no error was logged to Twisted AND no Deferred was
                   # collected with an unhandled failure AND nothing was left in the reactor
                   "truthy(successful) == (truthy(at_entry(1, successful)) and len(_seq1) == 0 and not truthy(unhandled) and not truthy(junk))",
                   "implies(truthy(successful), hist(self.result) == snoc(%s, call('addSuccess', [self.case, self.case.getDetails()], {})) and %s == %s)" % (H1, X, X1),
                   # otherwise no outcome is emitted here and, unless the spun run already recorded why, an exception is recorded for each cause
                   "implies(not truthy(successful), hist(self.result) == %s)" % H1,
                   "len(%s) >= len(%s) + len(_seq1)" % (X, X1),
                   "implies(truthy(unhandled), len(%s) >= len(%s) + len(_seq1) + len(listof(unhandled)))" % (X, X1),
                   "implies(truthy(junk), len(%s) > len(%s) + len(_seq1))" % (X, X1)],
               local_tags={"unhandled": "list[DbgInfo]"},
               loops={0: dict(invariant=["True"]),
                      1: dict(invariant=["hist(self.result) == %s" % H1, "len(%s) >= len(%s) + _i" % (X, X1), "prefix_of(%s, %s)" % (X1, X),
                                         "implies(_i > 0, not truthy(successful))", "implies(_i == 0, successful is at_entry(1, successful) and %s == %s)" % (X, X1)]),
                      2: dict(invariant=["hist(self.result) == %s" % H1, "len(%s) >= len(%s) + len(_seq1) + _i" % (X, X1), "not truthy(successful)"])})
    register_cleanups(R)


def register_cleanups(R):
    STACK = "listof(self.case._cleanups)"
    R.shape("AsyncCase2", _report_traceback=dict(signature="exc_info, tb_label='traceback'", event=True, returns="none"))
    R.fields_of("AsyncCase2", _cleanups="list[(DfrStage,tuple,dict)]")
    # the cleanup loop of the asynchronous runner (an inlineCallbacks coroutine: `yield d` awaits d).  Same discipline as RunTest's:
    # one iteration pops exactly the LAST entry and calls exactly it, once, with its own arguments; an Exception from it (raised, or the
    # failure of the Deferred it returned) is reported and does not stop the loop; only a non-Exception gets out
    R.contract(A + "_run_cleanups", props=["C14"], field_tags={"case": "AsyncCase2"},
               requires=["forall(lambda i: implies(0 <= i and i < len(%s), implies(is_shape_(st_value(at(elems(at(%s, i)), 0)), 'Dfr'), "
                         "dfr_ok(astype(st_value(at(elems(at(%s, i)), 0)), 'Dfr')) and astype(st_value(at(elems(at(%s, i)), 0)), 'Dfr').dstate != 0 and "
                         "implies(astype(st_value(at(elems(at(%s, i)), 0)), 'Dfr').dstate == 2, is_flr(astype(st_value(at(elems(at(%s, i)), 0)), 'Dfr').dresult)))))"
                         % ((STACK,) * 6)],
               frame_hist=True, modifies=["list(self.case._cleanups)", "$hist", "f:dstate", "f:dresult", "f:dpending", "f:called", "f:value", "f:type"], returns="any",
               exsures=["not isinstance(exc, Exception)"],
               ensures=["len(%s) == 0" % STACK],
               loops={0: dict(invariant=["self.case is old(self.case)", "self.case._cleanups is old(self.case._cleanups)"],
                              body_ensures=["prefix_of(butlast(iter0(%s)), %s)" % (STACK, STACK),
                                            "f is last(iter0(%s))[0] and args is last(iter0(%s))[1] and kwargs is last(iter0(%s))[2]" % (STACK, STACK, STACK),
                                            "hist(f) == snoc(iter0(hist(f)), call('__call__', args, dictof(kwargs))) or f is self.case"])})
