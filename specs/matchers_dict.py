"""C06: testtools/matchers/_dict.py and the dict helpers of testtools/helpers.py."""

MD = "testtools.matchers._dict:"
HP = "testtools.helpers:"


def register(R):
    from specs.a_common import matcher
    # every instance of a Mismatch class is truthy: no class of the family defines __bool__ / __len__ (scan `mismatch-objects-are-truthy`,
    # an obligation of this property)
    R.axiom("mismatch_objects_truthy", {"r": "ref"},
            "implies(isinstance(r, Mismatch), obj_truthy(r) and not typeof_is(r, extclass('list')) and not typeof_is(r, extclass('set')) and "
            "not typeof_is(r, extclass('frozenset')) and not typeof_is(r, extclass('dict')))")
    R.axiom("abstract_mismatches_truthy", {"r": "ref"}, "implies(is_shape_(r, 'AMismatch'), obj_truthy(r))")
    R.define("verdict_obj", ["v"], "isinstance(v, Mismatch) or is_shape_(v, 'AMismatch')")
    # Mismatch(description=None, details=None): proved once, used at every construction site (no branching there)
    R.contract("testtools.matchers._impl:Mismatch.__init__", props=["C06", "C07"], params={"description": "any", "details": "any"},
               modifies=["self._description", "self._details"], returns="none",
               ensures=["implies(description is not None, fieldof(self, '_description') is description)",
                        "implies(description is None, fieldof(self, '_description') is old(fieldof(self, '_description')))",
                        "implies(details is not None, self._details is details)",
                        "implies(details is None, not allocated(self._details) and dictof(self._details) == {})"])
    # a total, deterministic, effect-free function of one argument (what `bool` or a key function is): its result is fn1(f, x)
    R.function("fn1", ["val", "val"], "val")
    R.shape("TotalFn", __call__=dict(signature="x", returns="any", pure=True, noalloc=True, value="fn1(self, x)"))
    # ---- helpers ---------------------------------------------------------------------------------------------------------
    R.contract(HP + "dict_subtract", props=["C06"], params={"a": "dict", "b": "dict"}, pure=True, returns="dict",
               ensures=["not allocated(ret)",
                        "forall(lambda vk: kwget(dictof(ret), vk) == ite((vk in dictof(a)) and not (vk in dictof(b)), kwget(dictof(a), vk), absent()))"])
    R.contract(HP + "filter_values", props=["C06"], params={"function": "TotalFn", "dictionary": "dict"}, pure=True, returns="dict",
               ensures=["not allocated(ret)",
                        "forall(lambda vk: kwget(dictof(ret), vk) == ite((vk in dictof(dictionary)) and old(truthy(fn1(function, kwget(dictof(dictionary), vk)))), "
                        "kwget(dictof(dictionary), vk), absent()))"])
    R.contract(HP + "map_values", props=["C06"], params={"function": "TotalFn", "dictionary": "dict"}, pure=True, returns="dict",
               ensures=["not allocated(ret)",
                        "forall(lambda vk: kwget(dictof(ret), vk) == ite(vk in dictof(dictionary), fn1(function, kwget(dictof(dictionary), vk)), absent()))"])
    for h in ("map_values", "filter_values"):
        R.inline_closure_args.add(HP + h)        # called with `bool` / a lambda: the real body runs (the contract speaks about abstract functions)
    R.inline_closure_args.add(MD + "_dict_to_mismatch")
    # what turns a dict of mismatches into one mismatch object (DictMismatches / LabelledMismatches): never None
    R.shape("MkMismatch", __call__=dict(signature="mismatches", returns="any", pure=True, ensures=["ret is not None", "verdict_obj(ret)"]))
    MAPPED = "ite(to_mismatch is None, kwget(dictof(data), vk), fn1(to_mismatch, kwget(dictof(data), vk)))"
    R.contract(MD + "_dict_to_mismatch", props=["C06"], params={"data": "dict", "to_mismatch": "?TotalFn", "result_mismatch": "MkMismatch"},
               pure=True, returns="any",
               # the entries (after mapping) are verdicts: None or a mismatch object
               requires=["forall(lambda vk: implies(vk in dictof(data), %s is None or verdict_obj(%s)))" % (MAPPED, MAPPED)],
               # a mismatch exactly when some entry, after mapping, is a mismatch
               ensures=["(ret is None) == forall(lambda vk: implies(vk in dictof(data), %s is None))" % MAPPED, "ret is None or verdict_obj(ret)"])
    # the three building blocks of the dict matchers
    R.fields_of("_SubDictOf", super_dict="dict", format_value="TotalFn")
    R.fields_of("_SuperDictOf", sub_dict="dict", format_value="TotalFn")
    matcher(R, MD + "_SubDictOf.match", params={"observed": "dict"}, returns="any",
            ensures=["(ret is None) == forall(lambda vk: implies(vk in dictof(observed), vk in dictof(self.super_dict)))", "ret is None or verdict_obj(ret)"])
    matcher(R, MD + "_SuperDictOf.match", params={"super_dict": "dict"}, returns="any",
            ensures=["(ret is None) == forall(lambda vk: implies(vk in dictof(self.sub_dict), vk in dictof(super_dict)))", "ret is None or verdict_obj(ret)"])
    # _MatchCommonKeys: matches iff every key present on both sides matches its matcher
    R.fields_of("_MatchCommonKeys", _matchers="dict[any=>AMatcher]")
    COMMON_OK = "forall(lambda vk: implies((vk in dictof(expected)) and (vk in dictof(observed)), holds(kwget(dictof(expected), vk), kwget(dictof(observed), vk))))"
    R.contract(MD + "_MatchCommonKeys._compare_dicts", props=["C06"], params={"expected": "dict[any=>AMatcher]", "observed": "dict"}, pure=True, returns="dict",
               ensures=["not allocated(ret)",
                        # the result holds exactly the common keys whose matcher did not match, each with that matcher's mismatch
                        "forall(lambda vk: (vk in dictof(ret)) == ((vk in dictof(expected)) and (vk in dictof(observed)) and "
                        "not holds(kwget(dictof(expected), vk), kwget(dictof(observed), vk))))"],
               loops={0: dict(invariant=["not allocated(mismatches)",
                                         "forall(lambda vk: (vk in dictof(mismatches)) == ((vk in dictof(expected)) and (vk in dictof(observed)) and pos_in(_seq, vk) < _i and "
                                         "not holds(kwget(dictof(expected), vk), kwget(dictof(observed), vk))))"])})
    matcher(R, MD + "_MatchCommonKeys.match", params={"observed": "dict"}, returns="any",
            ensures=["(ret is None) == forall(lambda vk: implies((vk in dictof(self._matchers)) and (vk in dictof(observed)), "
                     "holds(kwget(dictof(self._matchers), vk), kwget(dictof(observed), vk))))", "ret is None or verdict_obj(ret)"])
    # MatchesAllDict: matches iff every labelled matcher matches
    R.fields_of("MatchesAllDict", matchers="dict[any=>AMatcher]")
    matcher(R, MD + "MatchesAllDict.match", params={"observed": "any"}, returns="any",
            ensures=["(ret is None) == forall(lambda vk: implies(vk in dictof(self.matchers), holds(kwget(dictof(self.matchers), vk), observed)))",
                     "ret is None or verdict_obj(ret)"],
            loops={0: dict(invariant=["not allocated(mismatches)",
                                      "forall(lambda vk: (vk in dictof(mismatches)) == ((vk in dictof(self.matchers)) and pos_in(_seq, vk) < _i))",
                                      "forall(lambda vk: implies(vk in dictof(mismatches), "
                                      "(kwget(dictof(mismatches), vk) is None) == holds(kwget(dictof(self.matchers), vk), observed) and "
                                      "(kwget(dictof(mismatches), vk) is None or is_shape_(kwget(dictof(mismatches), vk), 'AMismatch'))))"])})
    R.inline_when_fresh(MD + "MatchesAllDict.match")      # over a table of concrete matchers built on the spot: the real body runs
    # the three public dict matchers: the conjunction of their parts
    EXTRA = "forall(lambda vk: implies(vk in dictof(observed), vk in dictof(self._expected)))"
    MISSING = "forall(lambda vk: implies(vk in dictof(self._expected), vk in dictof(observed)))"
    DIFF = ("forall(lambda vk: implies((vk in dictof(self._expected)) and (vk in dictof(observed)), "
            "holds(kwget(dictof(self._expected), vk), kwget(dictof(observed), vk))))")
    R.fields_of("_CombinedMatcher", _expected="dict[any=>AMatcher]")
    for cls, parts in (("MatchesDict", [EXTRA, MISSING, DIFF]), ("ContainsDict", [MISSING, DIFF]), ("ContainedByDict", [EXTRA, DIFF])):
        matcher(R, MD + "_CombinedMatcher.match@" + cls, params={"self": cls, "observed": "dict"}, returns="any",
                ensures=["(ret is None) == old(%s)" % " and ".join("(%s)" % p_ for p_ in parts), "ret is None or verdict_obj(ret)"])
