"""C06: leaf matchers in _basic.py, _const.py: verdict == documented predicate (uninterpreted leaf relations,
argument order as documented: comparator(matchee, expected))."""

B = "testtools.matchers._basic:"
K = "testtools.matchers._const:"


def register(R):
    from specs.a_common import matcher
    # leaf relations of Python's data model on arbitrary values
    for op in ("eq", "ne", "lt", "gt", "is"):
        R.function("leaf_" + op, ["val", "val"], "bool")
    R.function("leaf_contains", ["val", "val"], "bool")       # needle in matchee (False when it raises TypeError)
    R.function("leaf_contains_typeerror", ["val", "val"], "bool")
    R.function("leaf_startswith", ["val", "val"], "bool")
    R.function("leaf_endswith", ["val", "val"], "bool")
    R.library("operator.eq", signature="a, b", returns="bool", noalloc=True, ensures=["result == leaf_eq(a, b)"])
    R.library("operator.ne", signature="a, b", returns="bool", noalloc=True, ensures=["result == leaf_ne(a, b)"])
    R.library("operator.is_", signature="a, b", returns="bool", noalloc=True, ensures=["result == (a is b)"])
    R.library("operator.__lt__", signature="a, b", returns="bool", noalloc=True, exsures=["True"], ensures=["result == leaf_lt(a, b)"])
    R.library("operator.__gt__", signature="a, b", returns="bool", noalloc=True, exsures=["True"], ensures=["result == leaf_gt(a, b)"])

    R.fields_of("_BinaryComparison", expected="any")
    for cls, pred, exs in (("Equals", "leaf_eq(other, self.expected)", None),
                           ("NotEquals", "leaf_ne(other, self.expected)", None),
                           ("Is", "other is self.expected", None),
                           ("LessThan", "leaf_lt(other, self.expected)", ["True"]),
                           ("GreaterThan", "leaf_gt(other, self.expected)", ["True"])):
        matcher(R, B + "_BinaryComparison.match@" + cls, params={"self": cls, "other": "any"},
                   exsures=exs, ensures=["(result is None) == (%s)" % pred])
    R.fields_of("_FlippedEquals", _expected="any")
    matcher(R, B + "_FlippedEquals.match", params={"other": "any"},
               ensures=["(result is None) == leaf_eq(other, self._expected)"])
    # matchee.startswith(expected): the matchee is any object with the str/bytes method
    R.shape("StrLike",
            startswith=dict(signature="prefix", returns="bool", noalloc=True, exsures=["True"],
                            ensures=["result == leaf_startswith(self, prefix)"]),
            endswith=dict(signature="suffix", returns="bool", noalloc=True, exsures=["True"],
                          ensures=["result == leaf_endswith(self, suffix)"]))
    R.fields_of("StartsWith", expected="any")
    R.fields_of("EndsWith", expected="any")
    matcher(R, B + "StartsWith.match", params={"matchee": "StrLike"}, exsures=["True"],
               ensures=["(result is None) == leaf_startswith(matchee, self.expected)"])
    matcher(R, B + "EndsWith.match", params={"matchee": "StrLike"}, exsures=["True"],
               ensures=["(result is None) == leaf_endswith(matchee, self.expected)"])
    R.fields_of("IsInstance", types="tuple[class]")
    R.function("leaf_isinstance_any", ["val", "seq"], "bool")
    matcher(R, B + "IsInstance.match", params={"other": "any"},
               ensures=["(result is None) == leaf_isinstance_any(other, self.types)"])
    R.fields_of("Contains", needle="any")
    matcher(R, B + "Contains.match", params={"matchee": "Container"},
               ensures=["(result is None) == leaf_contains(matchee, self.needle)"])
    # `needle in matchee` on an arbitrary object: __contains__ may raise TypeError, which the matcher treats as "not contained"
    R.shape("Container",
            __contains__=dict(signature="item", returns="bool", noalloc=True,
                              exsures=["subclass_of(cls_of(exc), TypeError)", "not leaf_contains(self, item)"],
                              ensures=["result == leaf_contains(self, item)"]))
    matcher(R, K + "_Always.match", params={"value": "any"}, ensures=["result is None"])
    matcher(R, K + "_Never.match", params={"value": "any"}, ensures=["result is not None"])
