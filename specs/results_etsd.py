"""C09 / C04 / C17: ExtendedToStreamDecorator (TestResult API -> stream events)."""

RR = "testtools.testresult.real:"
E = RR + "ExtendedToStreamDecorator."


def register(R):
    register_run(R)
    register_convert(R)
    register_outcomes(R)
    R.fields_of("ExtendedToStreamDecorator", targets="list[Stream]", _tags="?TagContext", _started="bool", shouldStop="any",
                _ExtendedToStreamDecorator__now="any", _hook="Stream",
                failures="list", errors="list", testsRun="int", skipped="list", expectedFailures="list", unexpectedSuccesses="list")
    N = "len(listof(self.targets))"
    # sent(H, hook, targets, e): the histories after this decorator's status(): first its own summary hook, then every target in order
    R.define("sent_", ["H", "s", "e"], "deliver(hstore(H, s._hook, snoc(hsel(H, s._hook), e)), listof(s.targets), e, len(listof(s.targets)))")
    NOALIAS = ["disjoint_from(listof(self.targets), self._hook)"]
    # status() as inherited from CopyStreamResult, for this class's MRO (CopyStreamResult -> StreamSummary -> TestControl)
    from specs.streams import STATUS_KW
    R.contract(RR + "CopyStreamResult.status@ExtendedToStreamDecorator", props=["C09", "C04"],
               params={"self": "ExtendedToStreamDecorator", "args": "tuple", "kwargs": STATUS_KW},
               requires=["len(args) <= 2"] + NOALIAS, frame_hist=True, modifies=["$hist"],
               ensures=["HIST() == sent_(old(HIST()), self, call('status', args, old(dictof(kwargs))))", "dictof(kwargs) == old(dictof(kwargs))",
                        # consequence (deliver touches only the targets): the summary hook sees exactly this one event
                        "hist(self._hook) == snoc(old(hist(self._hook)), call('status', args, old(dictof(kwargs))))"])
    # stop control (TestControl) and failfast = 'a StreamFailFast(self.stop) is the second target'
    R.contract(RR + "TestControl.stop", props=["C04"], params={"self": "ExtendedToStreamDecorator"}, modifies=["self.shouldStop"], noalloc=True,
               ensures=["self.shouldStop == True"])
    R.contract(E + "_get_failfast", props=["C04"], pure=True, noalloc=True, returns="bool", ensures=["ret == (%s == 2)" % N])
    R.contract(E + "_set_failfast", props=["C04"], params={"value": "any"}, requires=["%s >= 1" % N, "%s <= 2" % N],
               modifies=["list(self.targets)"],
               ensures=["len(listof(self.targets)) == (2 if truthy(value) else 1)",
                        "listof(self.targets)[0] is old(listof(self.targets)[0])",
                        # switching failfast on installs a StreamFailFast whose callback is this decorator's stop()
                        "implies(truthy(value) and old(%s) == 1, typeof_is(listof(self.targets)[1], StreamFailFast) and not allocated(listof(self.targets)[1]))" % N,
                        "implies(truthy(value) and old(%s) == 2, listof(self.targets) == old(listof(self.targets)))" % N])
    # tags / current_tags / stopTest: the same stack discipline as TestResult (C17)
    R.contract(E + "current_tags", props=["C17"], pure=True, returns="set", requires=["self._tags is not None"],
               ensures=["not allocated(ret)", "setof(ret) == ctx_tags(self._tags)"])
    R.contract(E + "tags", props=["C17"], params={"new_tags": "anyset", "gone_tags": "anyset"},
               requires=["self._tags is not None", "new_tags is not self._tags._tags", "gone_tags is not self._tags._tags"],
               modifies=["set(self._tags._tags)"],
               ensures=["ctx_tags(self._tags) == (old(ctx_tags(self._tags)) | old(setof(new_tags))) - old(setof(gone_tags))"])
    R.contract(E + "stopTest", props=["C17", "C09"], params={"test": "any"}, modifies=["self._tags"], noalloc=True,
               ensures=["implies(old(self._tags) is not None and old(self._tags.parent) is not None, self._tags is old(self._tags.parent))",
                        "implies(old(self._tags) is None or old(self._tags.parent) is None, self._tags is old(self._tags))"])
    R.contract(E + "time", props=["C09"], params={"a_datetime": "any"}, modifies=["self._ExtendedToStreamDecorator__now"], noalloc=True,
               ensures=["self._ExtendedToStreamDecorator__now is a_datetime"])
    R.contract(E + "_now", inline=True)


def register_run(R):
    N = "len(listof(self.targets))"
    NOALIAS = ["disjoint_from(listof(self.targets), self._hook)"]
    LISTS = ["failures", "errors", "skipped", "expectedFailures", "unexpectedSuccesses"]
    R.contract(RR + "CopyStreamResult.startTestRun@ExtendedToStreamDecorator", props=["C09", "C04"], params={"self": "ExtendedToStreamDecorator"},
               requires=NOALIAS, frame_hist=True,
               modifies=["$hist", "self.testsRun"] + ["self.%s" % l for l in LISTS],
               ensures=["HIST() == sent_(old(HIST()), self, call('startTestRun', [], {}))", "self.testsRun == 0"])
    # startTestRun: summary reset, every target started, fresh run-level tag context, stop flag CLEARED, clock forgotten
    R.contract(E + "startTestRun", props=["C09", "C04", "C17"], requires=NOALIAS, frame_hist=True,
               modifies=["$hist", "self.testsRun", "self._tags", "self.shouldStop", "self._ExtendedToStreamDecorator__now", "self._started"]
               + ["self.%s" % l for l in LISTS],
               ensures=["HIST() == sent_(old(HIST()), self, call('startTestRun', [], {}))",
                        "self.shouldStop == False", "self._started == True", "self._ExtendedToStreamDecorator__now is None",
                        "not allocated(self._tags)", "self._tags.parent is None", "ctx_tags(self._tags) == set()"])


def register_convert(R):
    NOALIAS = ["disjoint_from(listof(self.targets), self._hook)"]
    # the events of one detail on a single history h: chunk events for cs[0..k) (eof False by omission), in order
    R.function("chunks_sent", ["hist", "val", "val", "val", "val", "seq", "int"], "hist")
    R.define("chunk_ev", ["name", "c", "mime", "tid", "now"],
             "call('status', [], {'file_name': name, 'file_bytes': c, 'mime_type': mime, 'test_id': tid, 'timestamp': now})")
    R.define("eof_ev", ["name", "c", "mime", "tid", "now"],
             "call('status', [], {'file_name': name, 'file_bytes': c, 'eof': True, 'mime_type': mime, 'test_id': tid, 'timestamp': now})")
    R.axiom("chunks_sent_0", {"h": "hist", "name": "val", "mime": "val", "tid": "val", "now": "val", "cs": "seq"},
            "chunks_sent(h, name, mime, tid, now, cs, 0) == h")
    R.axiom("chunks_sent_step", {"h": "hist", "name": "val", "mime": "val", "tid": "val", "now": "val", "cs": "seq", "k": "int"},
            "implies(0 < k and k <= len(cs), chunks_sent(h, name, mime, tid, now, cs, k) == "
            "snoc(chunks_sent(h, name, mime, tid, now, cs, k - 1), chunk_ev(name, cs[k - 1], mime, tid, now)))")
    # the chunks a detail's content yields now: a function of the content object (details are not modified while they are converted)
    R.function("chunks_of", ["val"], "seq")
    R.shape("DContent", iter_bytes=dict(signature="", returns="iter[bytes]", pure=True, noalloc=True, ensures=["seq(ret) == chunks_of(self)"]))
    R.fields_of("DContent", content_type="any")
    HK = "hist(self._hook)"
    FR = ["self._hook is old(self._hook)", "self.targets is old(self.targets)", "listof(self.targets) == old(listof(self.targets))",
          "self._tags is old(self._tags)", "self._started == True", "frame_ok('$dict')", "frame_ok('$list')", "frame_ok('$set')",
          "frame_ok('f:_tags')", "frame_ok('f:parent')"]
    R.contract(E + "_convert", props=["C09"],
               params={"test": "ATest", "err": "none", "details": "?dict[any=>DContent]", "status": "str", "reason": "?str"},
               requires=NOALIAS + ["self._started == True", "self._tags is not None"],
               frame_hist=True, modifies=["$hist"],
               context={"TID": "id_of(test)"},
               ensures=[
                   # exactly one final status event closes the test: its status, the tags current now, the time of the outcome
                   "exists(lambda vnow, rt: implies(self._ExtendedToStreamDecorator__now is not None, vnow is self._ExtendedToStreamDecorator__now) and "
                   " not allocated(rt) and setof(rt) == ctx_tags(self._tags) and "
                   " hlast(%s) == call('status', [], {'test_id': TID, 'test_status': status, 'test_tags': rt, 'timestamp': vnow}))" % HK,
                   # the skip reason travels as a utf8 'reason' file just before it
                   "implies(reason is not None, ev_kw(hlast(hinit(%s)))['file_name'] == 'reason' and ev_kw(hlast(hinit(%s)))['eof'] == True)" % (HK, HK),
               ] + FR[:3],
               loops={
                   # per detail (dict order): its chunks in order with eof exactly on the last one; a content without chunks gives one
                   # empty eof event -- stated relative to the history at the start of this detail (loop body contract)
                   0: dict(invariant=FR,
                           body_ensures=[
                               "implies(len(chunks_of(content)) == 0, %s == snoc(iter0(%s), eof_ev(name, b'', mime_type, test_id, now)))" % (HK, HK),
                               "implies(len(chunks_of(content)) > 0, %s == snoc(chunks_sent(iter0(%s), name, mime_type, test_id, now, "
                               "chunks_of(content), len(chunks_of(content)) - 1), "
                               "eof_ev(name, last(chunks_of(content)), mime_type, test_id, now)))" % (HK, HK)]),
                   1: dict(invariant=FR + [
                       "(file_bytes is None) == (_i == 0)",
                       "implies(_i > 0, file_bytes is _seq[_i - 1])",
                       "%s == chunks_sent(at_loop(0, %s), name, mime_type, test_id, now, _seq, (_i - 1 if _i > 0 else 0))" % (HK, HK)]),
               })


def register_outcomes(R):
    NOALIAS = ["disjoint_from(listof(self.targets), self._hook)"]
    HK = "hist(self._hook)"
    PRE = NOALIAS + ["self._started == True", "self._tags is not None"]
    FINAL = ("exists(lambda vnow, rt: implies(self._ExtendedToStreamDecorator__now is not None, vnow is self._ExtendedToStreamDecorator__now) and "
             " not allocated(rt) and setof(rt) == ctx_tags(self._tags) and "
             " hlast(%s) == call('status', [], {'test_id': id_of(test), 'test_status': '%%s', 'test_tags': rt, 'timestamp': vnow}))" % HK)
    DET = "?dict[any=>DContent]"
    R.contract(E + "_check_args", inline=True)
    # outcome -> final status word: error and failure both travel as 'fail'
    for name, status, params, exs in (
            ("addError", "fail", {"test": "ATest", "err": "none", "details": DET}, True),
            ("addExpectedFailure", "xfail", {"test": "ATest", "err": "none", "details": DET}, True),
            ("addSkip", "skip", {"test": "ATest", "reason": "?str", "details": DET}, False),
            ("addUnexpectedSuccess", "uxsuccess", {"test": "ATest", "details": DET}, False),
            ("addSuccess", "success", {"test": "ATest", "details": DET}, False)):
        R.contract(E + name, props=["C09"], params=params, requires=PRE, frame_hist=True, modifies=["$hist"],
                   exsures=(["details is None", "subclass_of(cls_of(exc), ValueError)"] if exs else None),
                   ensures=[FINAL % status] + (["details is not None"] if exs else []))
    # startTest: one 'inprogress' event with the test id and the current time; then a test-local tag context
    R.contract(E + "startTest", props=["C09", "C17"], params={"test": "ATest"}, requires=PRE, frame_hist=True, modifies=["$hist", "self._tags"],
               ensures=["exists(lambda vnow: implies(self._ExtendedToStreamDecorator__now is not None, vnow is self._ExtendedToStreamDecorator__now) and "
                        "%s == snoc(old(%s), call('status', [], {'test_id': id_of(test), 'test_status': 'inprogress', 'timestamp': vnow})))" % (HK, HK),
                        "not allocated(self._tags)", "self._tags.parent is old(self._tags)", "ctx_tags(self._tags) == old(ctx_tags(self._tags))"])
