"""C07: every stock matcher has a str(), every mismatch a describe() returning text and a get_details() returning a dict:
totality contracts (no exceptional exit, result of the right kind), registered mechanically for every class of the matcher
modules.  The method is resolved through the MRO, so a class that inherits Matcher.__str__ (which raises) fails its obligation.
Formatting operations are total functions of their arguments; inner matchers / mismatches are abstract and total."""
import ast

MODS = ["testtools.matchers._basic", "testtools.matchers._const", "testtools.matchers._datastructures", "testtools.matchers._dict",
        "testtools.matchers._doctest", "testtools.matchers._exception", "testtools.matchers._filesystem",
        "testtools.matchers._higherorder", "testtools.matchers._impl", "testtools.matchers._warnings"]

# fields whose value is another matcher / mismatch (abstract, with total __str__ / describe / get_details)
MATCHER_FIELDS = {"matcher", "_matcher", "exception_matcher", "warnings_matcher", "path_matcher", "value_re"}
MISMATCH_FIELDS = {"original", "mismatch"}
SKIP = {
    # need library machinery outside the encoding (dir(re), doctest); covered by the replay harness only
    ("MatchesRegex", "__str__"), ("DocTestMatches", "__str__"), ("DocTestMismatch", "describe"),
    # abstract bases: raising there is the documented protocol
    ("Matcher", "__str__"), ("Mismatch", "describe"), ("_BinaryComparison", "__str__"), ("_CombinedMatcher", "__str__"),
    ("MismatchDecorator", "describe"), ("MismatchDecorator", "get_details"),
    # private helper matchers built inside MatchesDict & co.: never exported, no public path asks for their str()
    ("_MatchCommonKeys", "__str__"), ("_SubDictOf", "__str__"), ("_SuperDictOf", "__str__"),
}
FIELDS = {
    "NotAnInstance": dict(types="tuple[class]", matchee="any"),
    "IsInstance": dict(types="tuple[class]"),
    "MatchesStructure": dict(kws="dict[str=>AMatcher]"),
    "_CombinedMatcher": dict(_expected="dict[any=>AMatcher]"),
    "DictMismatches": dict(mismatches="dict[any=>AMismatch]"),
    "KeysEqual": dict(expected="list"),
    "MatchesAllDict": dict(matchers="dict[any=>AMatcher]"),
    "MismatchesAll": dict(mismatches="list[AMismatch]", _wrap="bool"),
    "Mismatch": dict(_details="maybe dict", _description="maybe any"),
    "MatchesException": dict(expected="any", _is_instance="bool"),
    "_MatchesPredicateWithParams": dict(args="tuple", kwargs="dict", name="any", predicate="any", message="any"),
}


def register(R):
    from pyvc.loader import Repo, ClassInfo
    repo = Repo()
    for cn, fs in FIELDS.items():
        tbl = R.fields.setdefault(cn, {})
        for fk, fv in fs.items():
            tbl.setdefault(fk, fv)       # never override a tag declared by the property specs
    R.library("pprint.pformat", signature="obj", returns="str", pure=True)
    R.fields_of("MismatchError", mismatch="AMismatch", matcher="AMatcher")
    R.contract("testtools.matchers._impl:MismatchError.__str__", props=["C07"], pure=True, returns="str", note="totality (both verbose settings)")
    # text_repr: total (its evaluates-back property is the bounded check / replay harness)
    R.contract("testtools.compat:text_repr", assumed=True, params={"text": "any", "multiline": "any"}, returns="str", pure=True)
    mismatch_base = repo.find_class("testtools.matchers._impl:Mismatch")
    decorator_base = repo.find_class("testtools.matchers._impl:MismatchDecorator")
    for modname in MODS:
        mod = repo.modules.get(modname)
        if mod is None:
            continue
        for cname, ci in sorted(mod.classes.items()):
            uniq = repo.find_class(cname) is ci
            # declare matcher-valued fields as abstract matchers so that str()/describe() of parts is a contract call
            known = R.fields.get(cname, {})
            extra = {}
            for n in ast.walk(ci.node):
                if isinstance(n, ast.Attribute) and isinstance(n.value, ast.Name) and n.value.id == "self":
                    if n.attr in MATCHER_FIELDS and n.attr not in known:
                        extra[n.attr] = "AMatcher"
                    if n.attr in MISMATCH_FIELDS and n.attr not in known:
                        extra[n.attr] = "AMismatch"
            if extra and uniq:
                R.fields_of(cname, **extra)
            if not uniq:
                continue
            is_mismatch = mismatch_base in ci.mro or decorator_base in ci.mro
            methods = []
            k, m = repo.find_method(ci, "__str__")
            if m is not None and not isinstance(m, tuple) and not is_mismatch and (cname, "__str__") not in SKIP \
                    and ("match" in ci.methods or any(isinstance(b, ClassInfo) and "match" in b.methods for b in ci.mro)):
                methods.append(("__str__", k, "str"))
            if is_mismatch:
                for meth, ret in (("describe", "str"), ("get_details", "dict")):
                    k, m = repo.find_method(ci, meth)
                    if m is not None and not isinstance(m, tuple):
                        methods.append((meth, k, ret))
            for meth, k, ret in methods:
                target = "%s:%s.%s" % (k.module.name, k.name, meth)
                if k is not ci:
                    target += "@" + cname          # inherited: verified for this receiver class
                if target in R.contracts or (k.name, meth) in SKIP and k is ci or (cname, meth) in SKIP:
                    continue
                R.contract(target, props=["C07"], params={"self": cname}, pure=True, returns=ret, note="totality",
                           loops={i: dict(invariant=[]) for i in range(6)})
