"""Shared vocabulary: abstract shapes used by several properties."""


def matcher(R, target, **kw):
    """contract of a stock matcher's match(): pure, returns None or a mismatch object"""
    kw.setdefault("props", ["C06"])
    kw.setdefault("pure", True)
    kw.setdefault("returns", "?AMismatch")
    return R.contract(target, **kw)


def register(R):
    # ---- matchers --------------------------------------------------------
    # verdict of an abstract matcher on a value: an uninterpreted FUNCTION (determinism by construction)
    R.function("holds", ["val", "val"], "bool")
    R.shape("AMatcher",
            match=dict(signature="x", returns="?AMismatch", pure=True,
                       ensures=["(result is None) == holds(self, x)"]),
            __str__=dict(signature="", returns="str", pure=True))
    R.shape("AMismatch",
            describe=dict(signature="", returns="str", pure=True),
            get_details=dict(signature="", returns="dict", pure=True))
    # a pure user function: result and raising are functions of the arguments
    R.function("fn_result", ["val", "seq"], "val")
    R.fields_of("PureFn", __name__="str")
    R.shape("PureFn",
            __call__=dict(returns="any", pure=True, event=True, exsures=["True"],
                          ensures=["result == fn_result(self, _args)"]))
