"""Shared vocabulary: abstract shapes used by several properties."""


def matcher(R, target, **kw):
    """contract of a stock matcher's match(): pure, returns None or a mismatch object"""
    kw.setdefault("props", ["C06"])
    kw.setdefault("pure", True)
    kw.setdefault("returns", "?AMismatch")
    return R.contract(target, **kw)


def register(R):
    register_scans(R)
    # ---- matchers --------------------------------------------------------
    # verdict of an abstract matcher on a value: an uninterpreted FUNCTION (determinism by construction)
    R.function("holds", ["val", "val"], "bool")
    R.shape("AMatcher",
            match=dict(signature="x", returns="?AMismatch", pure=True,
                       ensures=["(result is None) == holds(self, x)"]),
            __str__=dict(signature="", returns="str", pure=True))
    R.shape("AMismatch",
            describe=dict(signature="", returns="str", pure=True),
            get_details=dict(signature="", returns="dict", pure=True))
    # a pure user function: result and raising are functions of the arguments
    R.function("fn_result", ["val", "seq"], "val")
    R.fields_of("PureFn", __name__="str")
    R.shape("PureFn",
            __call__=dict(returns="any", pure=True, event=True, exsures=["True"],
                          ensures=["result == fn_result(self, _args)"]))


def mismatch_truthiness_scan(repo):
    """Side condition of every `if mismatch:` in the matchers: no mismatch class defines __bool__ / __len__,
    so a mismatch object is always truthy."""
    from pyvc.loader import ClassInfo
    base = repo.find_class("testtools.matchers._impl:Mismatch")
    out = []
    for c in repo.class_by_qual.values():
        if base in c.mro:
            bad = [m for m in ("__bool__", "__len__") if m in c.methods]
            out.append((c.qual, not bad, "%s defines %s: instances can be falsy" % (c.qual, bad) if bad else "no __bool__/__len__"))
    return out


def register_scans(R):
    R.scan("mismatch-objects-are-truthy", ["C06", "C07"], mismatch_truthiness_scan)
