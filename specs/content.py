"""C16: testtools/content.py -- content is lossless and independent of chunking."""

CT = "testtools.content:"


def register(R):
    register_content(R)
    # bconcat / sconcat (concatenation of a sequence of bytes / str values) are engine functions with their two defining axioms
    R.functions["bconcat"] = (["seq"], "str")
    R.functions["sconcat"] = (["seq"], "str")
    R.functions["bcp"] = (["seq", "int"], "str")      # bcp(s, k): concatenation of the first k chunks (engine axioms: 0 and k+1)
    # bconcat(s) == bcp(s, len(s)): induction over snoc, with prefix independence of bcp as the inner induction over k
    SV_ = {"s": "seq", "x": "val", "k": "int"}
    R.lemma("bcp_prefix_base", ["C16"], vars=SV_, assumes=[], goal="bcp(concat(s, [x]), 0) == bcp(s, 0)")
    R.lemma("bcp_prefix_step", ["C16"], vars=SV_, assumes=["0 <= k", "k < len(s)", "bcp(concat(s, [x]), k) == bcp(s, k)"],
            goal="bcp(concat(s, [x]), k + 1) == bcp(s, k + 1)")
    R.axiom("bcp_prefix", SV_, "implies(0 <= k and k <= len(s), bcp(concat(s, [x]), k) == bcp(s, k))", link=True)
    R.lemma("concat_link_base", ["C16"], vars=SV_, assumes=["len(s) == 0"], goal="bconcat(s) == bcp(s, len(s))")
    R.lemma("concat_link_step", ["C16"], vars=SV_, assumes=["bconcat(s) == bcp(s, len(s))"],
            goal="bconcat(concat(s, [x])) == bcp(concat(s, [x]), len(s) + 1)")
    R.axiom("concat_link", {"s": "seq"}, "bconcat(s) == bcp(s, len(s))", link=True)
    # a readable stream: ghost contents `sdata` and position `spos`
    # assumed library contract of read(n), n >= 1: a prefix of what remains, at most n bytes, empty iff nothing remains
    R.shape("RStream",
            read=dict(signature="size", event=True, returns="bytes", modifies=["self.spos"],
                      ensures=["len(ret) <= size", "self.spos == old(self.spos) + len(ret)",
                               "bytes_str(ret) == bslice(self.sdata, old(self.spos), self.spos)",
                               "(len(ret) == 0) == (old(self.spos) >= len(self.sdata))", "self.spos <= max(len(self.sdata), old(self.spos))"]),
            seek=dict(signature="offset, whence=0", event=True, returns="any", modifies=["self.spos"],
                      ensures=["self.spos == seek_pos(old(self.spos), len(self.sdata), offset, whence)", "self.spos >= 0"]))
    R.function("seek_pos", ["int", "int", "val", "val"], "int")
    # bslice(s, a, b) := s[a:b] (0 <= a).  It stays uninterpreted in the VCs; the two facts used are proved about the
    # real substring operation as separate pure-string lemmas.
    R.function("bslice", ["str", "int", "int"], "str")
    R.lemma("slice_join_lemma", ["C16"], vars={"s": "str", "a": "int", "b": "int", "c": "int"}, background=False,
            assumes=["0 <= a", "a <= b", "b <= c"], goal="s[a:b] + s[b:c] == s[a:c]")
    R.lemma("slice_eof_lemma", ["C16"], vars={"s": "str", "a": "int", "b": "int"}, background=False,
            assumes=["0 <= a", "b >= len(s)"], goal="s[a:b] == s[a:]")
    R.axiom("slice_join", {"s": "str", "a": "int", "b": "int", "c": "int"},
            "implies(0 <= a and a <= b and b <= c, bslice(s, a, b) + bslice(s, b, c) == bslice(s, a, c))")
    R.axiom("slice_eof", {"s": "str", "a": "int", "b": "int"},
            "implies(0 <= a and b >= len(s), bslice(s, a, b) == bslice(s, a, len(s)))")
    R.fields_of("RStream", sdata="bytes", spos="int")
    R.contract(CT + "_iter_chunks", props=["C16"],
               params={"stream": "RStream", "chunk_size": "int", "seek_offset": "any", "seek_whence": "any"},
               requires=["chunk_size >= 1", "stream.spos >= 0"],
               context={"P0": "ite(seek_offset is None, stream.spos, seek_pos(stream.spos, len(stream.sdata), seek_offset, seek_whence))",
                        "H0": "hist(stream)"},
               frame_hist=True, modifies=["hist(stream)", "stream.spos"], returns="iter",
               ensures=[
                   # non-empty chunks no larger than chunk_size
                   "all(len(asbytes(c)) >= 1 and len(asbytes(c)) <= chunk_size for c in seq(ret))",
                   # reading goes on until the stream is exhausted: the position ends at (or beyond) end of file
                   "stream.spos >= len(stream.sdata)", "stream.spos >= P0",
                   # the chunks concatenate to exactly the bytes from the requested offset to end of file
                   "bconcat(seq(ret)) == bslice(stream.sdata, P0, len(stream.sdata))",
                   # one read per yielded chunk plus the final empty read; a seek first iff an offset was given
                   "len(hist(stream)) == len(H0) + (0 if seek_offset is None else 1) + len(seq(ret)) + 1",
                   "implies(seek_offset is not None, hsel_first_new(hist(stream), H0, call('seek', [seek_offset, seek_whence], {})))"],
               loops={0: dict(invariant=[
                   "stream.spos >= P0", "P0 >= 0", "len(chunk) <= chunk_size",
                   "bconcat(_out) + bytes_str(chunk) == bslice(stream.sdata, P0, stream.spos)",
                   "implies(len(chunk) == 0, stream.spos >= len(stream.sdata))",
                   "len(hist(stream)) == len(H0) + (0 if seek_offset is None else 1) + len(_out) + 1",
                   "implies(seek_offset is not None, hsel_first_new(hist(stream), H0, call('seek', [seek_offset, seek_whence], {})))",
                   "all(len(asbytes(c)) >= 1 and len(asbytes(c)) <= chunk_size for c in _out)"])})
    # first_new(h, h0, e): h extends h0 and the first event after h0 is e
    R.function("hsel_first_new", ["hist", "hist", "event"], "bool")
    R.axiom("first_new_base", {"h0": "hist", "e": "event"}, "hsel_first_new(snoc(h0, e), h0, e)")
    R.axiom("first_new_step", {"h": "hist", "h0": "hist", "e": "event", "e2": "event"},
            "implies(hsel_first_new(h, h0, e), hsel_first_new(snoc(h, e2), h0, e))")


def register_text(R):
    # assumed contract of the standard incremental decoders (validated for the real codecs by the bounded stand-in):
    # feeding pieces and flushing with final=True emits, in total, exactly the one-shot decoding of everything fed
    R.function("decode_all", ["str", "val"], "str")
    R.library("codecs.getincrementaldecoder", signature="encoding", returns="DecoderFactory", pure=True, exsures=["True"],
              ensures=["not allocated(result)", "result.enc is encoding"])
    R.shape("DecoderFactory", __call__=dict(signature="errors='strict'", returns="Decoder", pure=True,
                                            ensures=["not allocated(ret)", "ret.enc is self.enc", "ret.fed == ''", "ret.emitted == ''"]))
    R.shape("Decoder", decode=dict(signature="input, final=False", returns="str", modifies=["self.fed", "self.emitted"], noalloc=True,
                                   exsures=["True"],
                                   ensures=["self.fed == old(self.fed) + bytes_str(input)", "self.emitted == old(self.emitted) + ret",
                                            "implies(final, self.emitted == decode_all(self.fed, self.enc))"]))
    R.fields_of("DecoderFactory", enc="any")
    R.fields_of("Decoder", enc="any", fed="str", emitted="str")
    # the chunks a (reader-backed) content yields, and its declared charset (ISO-8859-1 when none is declared)
    R.define("content_chunks", ["c"], "ite(fieldof(c._get_bytes, 'buf') is not absent(), listof(fieldof(c._get_bytes, 'buf')), "
                                      "elems(fieldof(c._get_bytes, 'items')))")
    R.define("charset_of", ["c"], "ite('charset' in dictof(astype(c.content_type, 'ContentType').parameters), "
                                  "dictof(astype(c.content_type, 'ContentType').parameters)['charset'], 'ISO-8859-1')")
    TXT = dict(field_tags={"content_type": "ContentType"},
               requires=["all(isinstance(c, bytes) for c in content_chunks(self))"])
    R.contract(CT + "Content._iter_text", props=["C16"], returns="iter", pure=True, exsures=["True"],
               ensures=["sconcat(seq(ret)) == decode_all(bconcat(content_chunks(self)), charset_of(self))",
                        "all(isinstance(t, str) for t in seq(ret))"],
               loops={0: dict(invariant=["sconcat(_out) == decoder.emitted", "decoder.fed == bcp(_seq, _i)",
                                         "decoder.enc is old(charset_of(self))",
                                         "all(isinstance(t, str) for t in _out)"])}, **TXT)
    R.contract(CT + "Content.iter_text", props=["C16"], returns="iter", pure=True,
               exsures=["self.content_type.type != 'text' or True"],
               ensures=["self.content_type.type == 'text'",
                        "sconcat(seq(ret)) == decode_all(bconcat(content_chunks(self)), charset_of(self))"], **TXT)
    # as_text(): the one-shot decoding of the whole byte string -- a function of the concatenation only, so independent of the cut points
    R.contract(CT + "Content.as_text", props=["C16"], returns="str", pure=True, exsures=["True"],
               ensures=["result == decode_all(bconcat(content_chunks(self)), charset_of(self))"], **TXT)


def register_content(R):
    register_text(R)
    register_files(R)
    register_copy(R)
    R.fields_of("ContentType", type="any", subtype="any", parameters="dict")
    # text_content: one chunk, the utf8 encoding of the text, typed text/plain; charset=utf8; non-str is rejected
    R.contract(CT + "text_content", props=["C16"], params={"text": "any"}, pure=True, returns="Content",
               exsures=["not isinstance(text, str)", "subclass_of(cls_of(exc), TypeError)"],
               ensures=["isinstance(text, str)", "not allocated(ret)",
                        "fieldof(ret._get_bytes, 'buf') is absent()",
                        "elems(fieldof(ret._get_bytes, 'items')) == [encoded_utf8(text)]",
                        "astype(ret.content_type, 'ContentType').type == 'text' and astype(ret.content_type, 'ContentType').subtype == 'plain' and "
                        "dictof(astype(ret.content_type, 'ContentType').parameters) == {'charset': 'utf8'}"])
    R.define("encoded_utf8", ["t"], "bytes_of_str(str_encode_(asstr(t), ['utf8']))")
    # Content.iter_bytes: whatever the stored reader returns, evaluated at each call (no caching)
    R.contract(CT + "Content.iter_bytes", props=["C16"], returns="list",
               ensures=["implies(fieldof(self._get_bytes, 'buf') is not absent(), ret is self._get_bytes.buf)",
                        "implies(fieldof(self._get_bytes, 'buf') is absent(), not allocated(ret) and listof(ret) == elems(fieldof(self._get_bytes, 'items')))",
                        "listof(ret) == content_chunks(self)"],
               pure=True)
    # content_from_reader / content_from_stream: lazy unless buffer_now
    R.contract(CT + "content_from_stream", props=["C16"],
               params={"stream": "RStream", "content_type": "any", "chunk_size": "int", "buffer_now": "bool", "seek_offset": "any", "seek_whence": "any"},
               requires=["chunk_size >= 1", "stream.spos >= 0"], frame_hist=True, modifies=["hist(stream)", "stream.spos"], returns="Content",
               context={"P0": "ite(seek_offset is None, stream.spos, seek_pos(stream.spos, len(stream.sdata), seek_offset, seek_whence))"},
               ensures=["not allocated(ret)",
                        "implies(content_type is not None, ret.content_type is content_type)",
                        "implies(content_type is None, typeof_is(ret.content_type, ContentType) and astype(ret.content_type, 'ContentType').type == 'text' and "
                        "astype(ret.content_type, 'ContentType').subtype == 'plain' and "
                        "dictof(astype(ret.content_type, 'ContentType').parameters) == {'charset': 'utf8'})",
                        # buffer_now: the buffered chunks are the bytes from the requested offset to end of file, in legal chunk sizes
                        "implies(buffer_now, bconcat(listof(fieldof(ret._get_bytes, 'buf'))) == bslice(stream.sdata, P0, len(stream.sdata)))",
                        "implies(buffer_now, all(len(asbytes(c)) >= 1 and len(asbytes(c)) <= chunk_size for c in listof(fieldof(ret._get_bytes, 'buf'))))",
                        # lazily: nothing is read (or sought) at construction
                        "implies(not buffer_now, hist(stream) == old(hist(stream)) and stream.spos == old(stream.spos))",
                        # buffer_now: the stream is read to the end now
                        "implies(buffer_now, stream.spos >= len(stream.sdata) and len(hist(stream)) > len(old(hist(stream))))"])


def register_files(R):
    # assumed: open(path, 'rb') gives a fresh stream at position 0 over the file's bytes (the file is not modified meanwhile)
    R.function("file_bytes", ["val"], "str")
    R.shape("RFile", bases=("RStream",),
            __enter__=dict(signature="", returns="RFile", pure=True, noalloc=True, ensures=["ret is self"]),
            __exit__=dict(signature="a, b, c", event=True, returns="any", noalloc=True, ensures=["not truthy(ret)"]))
    R.library("open", signature="file, mode='r'", returns="RFile", pure=True,
              ensures=["not allocated(result)", "result.spos == 0", "bytes_str(result.sdata) == file_bytes(file)", "len(hist(result)) == 0"])
    # content_from_file's reader: opens the file at each call, yields the bytes from the requested offset to end of file
    R.contract(CT + "content_from_file.<reader>", props=["C16"], params={},
               ghost_params={"path": "any", "chunk_size": "int", "seek_offset": "any", "seek_whence": "any"},
               requires=["chunk_size >= 1"], returns="iter", pure=True,
               context={"FB": "file_bytes(path)",
                        "P0": "ite(seek_offset is None, 0, seek_pos(0, len(file_bytes(path)), seek_offset, seek_whence))"},
               ensures=["all(len(asbytes(c)) >= 1 and len(asbytes(c)) <= chunk_size for c in seq(ret))",
                        "bconcat(seq(ret)) == bslice(FB, P0, len(FB))"])
    # a reader callback: each call returns an iterable of byte strings (assumed finite)
    R.shape("ChunkReader", __call__=dict(signature="", event=True, returns="list", ensures=["not allocated(ret)"]))
    R.contract(CT + "content_from_reader", props=["C16"], params={"reader": "ChunkReader", "content_type": "any", "buffer_now": "any"},
               frame_hist=True, modifies=["hist(reader)"], returns="Content",
               ensures=["not allocated(ret)",
                        "implies(content_type is not None, ret.content_type is content_type)",
                        # lazily: the callback is stored, not called
                        "implies(not truthy(buffer_now), fieldof(ret, '_get_bytes') is reader and hist(reader) == old(hist(reader)))",
                        # buffer_now: called exactly once, now; the content is backed by a private buffer
                        "implies(truthy(buffer_now), hist(reader) == snoc(old(hist(reader)), call('__call__', [], {})))",
                        "implies(truthy(buffer_now), not allocated(fieldof(ret._get_bytes, 'buf')))"])
    R.inline_closure_args.add(CT + "content_from_reader")
    # json_content: one chunk, the utf8 encoding of json.dumps(data), typed application/json
    R.function("json_dumps", ["val"], "str")
    R.library("json.dumps", signature="obj", returns="str", pure=True, noalloc=True, exsures=["True"], ensures=["result == json_dumps(obj)"])
    R.contract(CT + "json_content", props=["C16"], params={"json_data": "any"}, pure=True, returns="Content", exsures=["True"],
               ensures=["not allocated(ret)", "fieldof(ret._get_bytes, 'buf') is absent()",
                        "elems(fieldof(ret._get_bytes, 'items')) == [bytes_of_str(str_encode_(json_dumps(json_data), ['utf8']))]",
                        "astype(ret.content_type, 'ContentType').type == 'application' and astype(ret.content_type, 'ContentType').subtype == 'json' and "
                        "dictof(astype(ret.content_type, 'ContentType').parameters) == {}"])
    # Content equality: equality of type and of the joined bytes
    R.function("ct_equal", ["val", "val"], "bool")
    # ContentType.__eq__ compares __dict__ (outside the modelled subset): assumed to be equality of type, subtype and parameters
    R.contract("testtools.content_type:ContentType.__eq__", assumed=True, params={"other": "any"}, returns="bool", pure=True, noalloc=True,
               ensures=["result == ct_equal(self, other)"])
    R.contract(CT + "Content.__eq__", props=["C16"], params={"other": "Content"}, pure=True, returns="bool",
               field_tags={"content_type": "ContentType"},
               requires=["all(isinstance(c, bytes) for c in content_chunks(self))", "all(isinstance(c, bytes) for c in content_chunks(other))"],
               ensures=["result == (ct_equal(self.content_type, other.content_type) and "
                        "bconcat(content_chunks(self)) == bconcat(content_chunks(other)))"])


def register_copy(R):
    # _copy_content applied to a testtools Content whose reader may hand out its own buffer list (the general contract, for content of
    # any provenance, is in specs/testcase.py): the copy's bytes are a SNAPSHOT -- a list created by this call (never the source's own buffer),
    # holding what the source's iter_bytes() gave at the time of the copy; same content type object
    R.contract("testtools.testcase:_copy_content@Content", props=["C16"], params={"content_object": "Content"}, pure=True, returns="Content",
               requires=["content_object.content_type is not None"],       # Content's constructor refuses None
               context={"SRC": "content_object._get_bytes"},
               ensures=["not allocated(ret)", "ret is not content_object",
                        "ret.content_type is content_object.content_type",
                        "fieldof(ret._get_bytes, 'buf') is not absent()",
                        "is_ref(fieldof(ret._get_bytes, 'buf')) and not allocated(fieldof(ret._get_bytes, 'buf'))",
                        "listof(fieldof(ret._get_bytes, 'buf')) == (listof(fieldof(SRC, 'buf')) if fieldof(SRC, 'buf') is not absent() "
                        "else elems(fieldof(SRC, 'items')))"])
