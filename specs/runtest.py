"""C01 / C02 / C03 / C05: testtools/runtest.py (RunTest) against an abstract test case and an extended result.

X  = listof(self._exceptions): every exception user code raised in this run.
The case is an abstract object (ACase): its stage methods are user code (may return anything but the private sentinel,
may raise any BaseException, may only APPEND to the cleanup stack and set force_failure, never touch the result or X).
"""

RT = "testtools.runtest:"
R_ = RT + "RunTest."


def register(R):
    register_core(R)
    register_run(R)
    STAGE = dict(event=True, returns="any", exsures=["prefix_of(old(listof(CASE._cleanups)), listof(CASE._cleanups))"],
                 modifies=["list(CASE._cleanups)", "CASE.force_failure"],
                 ensures=["ret is not CAUGHT", "prefix_of(old(listof(CASE._cleanups)), listof(CASE._cleanups))"])
    # a cleanup / user function called through _run_user: same rules
    R.shape("UserStage", __call__=dict(STAGE))
    R.shape("AMethod")
    R.function("test_method_of", ["val"], "val")
    R.shape("Sentinel")
    R.fields_of("AMethod", __unittest_skip__="maybe any", __unittest_skip_why__="maybe any")
    R.shape("ACase",
            _get_test_method=dict(signature="", returns="AMethod", pure=True, noalloc=True, value="test_method_of(self)"),
            _run_setup=dict(STAGE, signature="result"),
            _run_test_method=dict(STAGE, signature="result"),
            _run_teardown=dict(STAGE, signature="result"),
            # traceback detail + the user's addOnException handlers (which must not raise: documented)
            onException=dict(signature="exc_info, tb_label='traceback'", event=True, returns="any"),
            getDetails=dict(signature="", returns="dict", pure=True, noalloc=True, ensures=["result is self._details_obj"]),
            id=dict(signature="", returns="any", pure=True, noalloc=True))
    R.fields_of("ACase", _cleanups="list[(UserStage,tuple,dict)]", force_failure="maybe any", __unittest_skip__="maybe any",
                __unittest_skip_why__="maybe any", skipException="maybe class", _details_obj="dict", __testtools_tb_locals__="any")
    # an exception handler of the table: exactly one outcome event on the result, determined by (handler, case, exception); no raise
    R.function("handler_event", ["val", "val", "val"], "event")
    R.function("is_outcome", ["event"], "bool")
    R.shape("Handler", __call__=dict(signature="case, result, e", returns="any", modifies=["hist(result)"],
                                     ensures=["hist(result) == snoc(old(hist(result)), handler_event(self, case, e))",
                                              "is_outcome(handler_event(self, case, e))"]))
    R.fields_of("RunTest", case="ACase", handlers="list[(class,Handler)]", exception_caught="Sentinel", _exceptions="list[exc]",
                last_resort="Handler", result="ExtResult")
    R.fields_of("MultipleExceptions", args="tuple[(class,exc,any)]")
    CTX = {"CASE": "self.case", "CAUGHT": "self.exception_caught", "RESULT": "self.result"}
    X = "listof(self._exceptions)"
    X0 = "old(listof(self._exceptions))"
    DISTINCT = ["self.case._cleanups is not self._exceptions", "self.handlers is not self._exceptions", "self.handlers is not self.case._cleanups"]

    R.inline_fn(R_ + "_run_user")
    # ---- _got_user_exception: every constituent is shown to the case (onException) and then recorded in X ------------
    # xl(A, t): the exceptions an exc_info triple t stands for -- its exception itself, or (a MultipleExceptions with constituents) the
    # exceptions its constituents stand for, recursively, in order.  A is the `args` field of all objects (exceptions are not modified
    # meanwhile: the frame condition of every function here covers f:args).
    R.function("xl", ["farr", "val"], "seq")
    R.function("xfl", ["farr", "seq", "int"], "seq")
    R.define("margs_", ["A", "e"], "elems(fsel(A, e))")
    R.define("is_multi_", ["A", "t"], "at(elems(t), 0) is MultipleExceptions and len(margs_(A, at(elems(t), 1))) > 0")
    AT = {"A": "farr", "t": "val"}
    R.axiom("xl_leaf", AT, "implies(not is_multi_(A, t), xl(A, t) == [at(elems(t), 1)])", patterns=["xl(A, t)"])
    R.axiom("xl_multi", AT, "implies(is_multi_(A, t), xl(A, t) == xfl(A, margs_(A, at(elems(t), 1)), len(margs_(A, at(elems(t), 1)))))", patterns=["xl(A, t)"])
    R.axiom("xfl_0", {"A": "farr", "s": "seq"}, "xfl(A, s, 0) == []", patterns=["xfl(A, s, 0)"])
    R.axiom("xfl_step", {"A": "farr", "s": "seq", "k": "int"},
            "implies(0 <= k and k < len(s), xfl(A, s, k + 1) == concat(xfl(A, s, k), xl(A, at(s, k))))", patterns=["xfl(A, s, k + 1)"])
    # by induction over the (finite) nesting: every triple stands for at least one exception
    R.axiom("xl_nonempty", AT, "len(xl(A, t)) > 0", patterns=["xl(A, t)"])
    # ---- _got_user_exception: every constituent is shown to the case (onException) and then recorded in X ------------
    R.contract(R_ + "_got_user_exception", props=["C01", "C05"], params={"exc_info": "(class,exc,any)", "tb_label": "any"}, context=CTX,
               requires=DISTINCT, frame_hist=True,
               modifies=["list(self._exceptions)", "hist(self.case)"], returns="Sentinel",
               ensures=["result is self.exception_caught",
                        "stages(hist(self.case)) == stages(old(hist(self.case)))",
                        # exactly the exceptions the triple stands for are recorded, in order -- nested MultipleExceptions unpacked recursively
                        "%s == %s + xl(FIELD('args'), exc_info)" % (X, X0),
                        "prefix_of(%s, %s)" % (X0, X), "len(%s) > len(%s)" % (X, X0),
                        # an exception that is not a MultipleExceptions with constituents is recorded itself, after onException saw it
                        "implies(not is_multi_(FIELD('args'), exc_info),"
                        " %s == %s + [exc_info[1]] and "
                        " hist(self.case) == snoc(old(hist(self.case)), call('onException', [exc_info, tb_label], {})))" % (X, X0)],
               loops={0: dict(invariant=["%s == %s + xfl(FIELD('args'), _seq, _i)" % (X, X0), "unchanged('f:args')",
                                         "stages(hist(self.case)) == stages(old(hist(self.case)))",
                                         "self._exceptions is old(self._exceptions)", "self.case is old(self.case)",
                                         "self.exception_caught is old(self.exception_caught)"])})

    # ---- _pick_exception: which caught exception decides the outcome ------------------------------------------------------
    R.define("benign_", ["s", "e"], "isinstance(e, _ExpectedFailure) or (fieldof(s.case, 'skipException') is not absent() and "
             "fieldof(s.case, 'skipException') is not None and isinstance(e, astype(fieldof(s.case, 'skipException'), 'class')))")
    SKIP_OK = ("fieldof(self.case, 'skipException') is absent() or fieldof(self.case, 'skipException') is None or "
               "(is_cls(fieldof(self.case, 'skipException')) and subclass_of(fieldof(self.case, 'skipException'), Exception))")
    R.contract(R_ + "_pick_exception", props=["C01", "C03"], context=CTX, requires=["len(%s) > 0" % X, SKIP_OK] + DISTINCT, pure=True, returns="exc",
               ensures=["any(x is result for x in self._exceptions)",
                        # an exception that does not derive from Exception always wins (it will be re-raised)
                        "implies(any(not isinstance(x, Exception) for x in self._exceptions), not isinstance(result, Exception))",
                        # otherwise a failure or error is never displaced by a skip / expected failure
                        "implies(any(not benign_(self, x) for x in self._exceptions), not benign_(self, result))"],
               loops={0: dict(invariant=["all(isinstance(_seq[j], Exception) for j in range(_i))"]),
                      1: dict(invariant=["all(benign_(self, listof(self._exceptions)[k]) for k in range(len(listof(self._exceptions)) - _i, len(listof(self._exceptions))))",
                                         "all(isinstance(x, Exception) for x in self._exceptions)"])})

    # ---- _run_cleanups: pops until empty, continuing after errors ---------------------------------------------------------
    STACK = "listof(self.case._cleanups)"
    R.contract(R_ + "_run_cleanups", props=["C01", "C02"], params={"result": "any"}, context=CTX, requires=DISTINCT, frame_hist=True,
               modifies=["list(self.case._cleanups)", "list(self._exceptions)", "hist(self.case)", "self.case.force_failure", "$hist"],
               returns="any",
               ensures=["len(%s) == 0" % STACK,                         # no cleanup is left registered
                        "prefix_of(%s, %s)" % (X0, X),
                        "(ret is self.exception_caught) == (len(%s) > len(%s))" % (X, X0),     # sentinel iff some cleanup raised
                        "ret is self.exception_caught or ret is None",
                        "stages(hist(self.case)) == stages(old(hist(self.case)))",
                        "hist(self.result) == old(hist(self.result))"],
               loops={0: dict(
                   invariant=["prefix_of(%s, %s)" % (X0, X), "failing == (len(%s) > len(%s))" % (X, X0),
                              "stages(hist(self.case)) == stages(old(hist(self.case)))",
                              "self.case is old(self.case)", "self._exceptions is old(self._exceptions)",
                              "self.case._cleanups is old(self.case._cleanups)", "self.exception_caught is old(self.exception_caught)",
                              "self.result is old(self.result)", "hist(self.result) == old(hist(self.result))"],
                   # one iteration = pop-and-run-top: exactly the LAST entry leaves the stack, exactly it is called, once,
                   # with its own arguments; whatever it registers is pushed on top of the rest
                   body_ensures=[
                       "prefix_of(butlast(iter0(%s)), %s)" % (STACK, STACK),
                       "hist(function) == snoc(iter0(hist(function)), call('__call__', arguments, dictof(keywordArguments)))"
                       " or function is self.case",
                       "function is last(iter0(%s))[0] and arguments is last(iter0(%s))[1] and keywordArguments is last(iter0(%s))[2]" % (STACK, STACK, STACK),
                   ])})


def register_core(R):
    CTX = {"CASE": "self.case", "CAUGHT": "self.exception_caught", "RESULT": "self.result"}
    X = "listof(self._exceptions)"
    X0 = "old(listof(self._exceptions))"
    DISTINCT = ["self.case._cleanups is not self._exceptions", "self.handlers is not self._exceptions", "self.handlers is not self.case._cleanups"]
    SKIP_OK = ("fieldof(self.case, 'skipException') is absent() or fieldof(self.case, 'skipException') is None or "
               "(is_cls(fieldof(self.case, 'skipException')) and subclass_of(fieldof(self.case, 'skipException'), Exception))")
    # stage calls in the case's history, ignoring the onException / lookup calls in between
    R.function("stages", ["hist"], "hist")
    R.axiom("stages_nil", {}, "stages(hnil()) == hnil()")
    R.axiom("stages_snoc", {"h": "hist", "e": "event"},
            "stages(snoc(h, e)) == (snoc(stages(h), e) if (ev_name(e) == '_run_setup' or ev_name(e) == '_run_test_method' or "
            "ev_name(e) == '_run_teardown') else stages(h))")
    R.contract(RT + "_raise_force_fail_error", assumed=False, props=["C03", "C07"], pure=True, exsures=["typeof_is(exc, AssertionError)", "subclass_of(cls_of(exc), AssertionError)"], ensures=["False"])
    HR = "hist(self.result)"
    HR0 = "old(hist(self.result))"
    SKIPPED = "(truthy(ite(fieldof(self.case, '__unittest_skip__') is absent(), False, fieldof(self.case, '__unittest_skip__'))) or " \
              "truthy(ite(fieldof(TM, '__unittest_skip__') is absent(), False, fieldof(TM, '__unittest_skip__'))))"
    # a skip decorator (unittest.skip / testtools.skip, on the class or the method) always records a reason next to the flag ('' is one)
    WHY = "(fieldof(%s, '__unittest_skip__') is absent() or (fieldof(%s, '__unittest_skip_why__') is not absent() and fieldof(%s, '__unittest_skip_why__') is not None))"
    WHY_OK = [WHY % (("self.case",) * 3), WHY % (("test_method_of(self.case)",) * 3)]
    R.contract(R_ + "_run_core", props=["C01", "C02", "C03", "C07"], context=dict(CTX, H0="hist(self.case)"),
               requires=DISTINCT + ["self.case is not self.result"] + WHY_OK, frame_hist=True,
               modifies=["list(self.case._cleanups)", "list(self._exceptions)", "$hist", "self.case.force_failure"],
               ensures=[
                   "prefix_of(%s, %s)" % (X0, X),
                   # exactly one outcome is reported by _run_core itself iff nothing was caught; otherwise none (the handler reports it)
                   "implies(len(%s) == len(%s), is_snoc(%s) and hinit(%s) == %s and "
                   "  (ev_name(hlast(%s)) == 'addSuccess' or ev_name(hlast(%s)) == 'addSkip') and ev_args(hlast(%s))[0] is self.case)" % (X, X0, HR, HR, HR0, HR, HR, HR),
                   "implies(len(%s) > len(%s), %s == %s)" % (X, X0, HR, HR0),
                   # success is reported only when force_failure is unset at the end
                   "implies(len(%s) == len(%s) and ev_name(hlast(%s)) == 'addSuccess', "
                   " not truthy(ite(fieldof(self.case, 'force_failure') is absent(), None, fieldof(self.case, 'force_failure'))))" % (X, X0, HR),
                   # a mismatching expectThat (force_failure set when the stages are over) always leaves the forced AssertionError as the LAST
                   # exception recorded -- also when setUp itself raised (a skip, say) -- so _pick_exception (last non-benign wins) selects a failure
                   "implies(stages(hist(self.case)) != stages(H0) and "
                   " truthy(ite(fieldof(self.case, 'force_failure') is absent(), None, fieldof(self.case, 'force_failure'))), len(%s) > len(%s) and "
                   " subclass_of(cls_of(at(%s, len(%s) - 1)), AssertionError))" % (X, X0, X, X),
                   # stage order: setUp first; test method and tearDown iff setUp returned; then the cleanups: none is left
                   "stages(hist(self.case)) == stages(H0) or len(listof(self.case._cleanups)) == 0",
                   "stages(hist(self.case)) == stages(H0) or "
                   "stages(hist(self.case)) == snoc(stages(H0), call('_run_setup', [self.result], {})) or "
                   "stages(hist(self.case)) == snoc(stages(H0), call('_run_setup', [self.result], {}), call('_run_test_method', [self.result], {}),"
                   " call('_run_teardown', [self.result], {}))",
               ])
    # ---- the bracket ----------------------------------------------------------------------------------------------------
    R.contract(R_ + "_run_prepared_result", props=["C01", "C03"], params={"result": "ExtResult"}, context={"H0": "hist(result)"},
               requires=DISTINCT + WHY_OK + [SKIP_OK, "self.case is not result",
                                    # every class in the handler table derives from Exception (true of the stock table)
                                    "all(is_cls(h[0]) and subclass_of(h[0], Exception) for h in self.handlers)",
                                    # ... and the table has its documented catch-all entry for Exception
                                    "any(h[0] == Exception for h in self.handlers)"],
               frame_hist=True,
               modifies=["self.result", "self._exceptions", "self.case.__testtools_tb_locals__", "list(self.case._cleanups)",
                         "$list", "$hist", "self.case.force_failure"],
               returns="ExtResult",
               loops={0: dict(invariant=["hist(result) == snoc(H0, call('startTest', [self.case], {}))",
                                         "all(not isinstance(e, _seq[j][0]) for j in range(_i))"])},
               # (a) startTest, exactly one outcome, stopTest -- on EVERY exit
               # (b) exceptional exit iff a caught exception does not derive from Exception; that exception is what propagates
               exsures=["is_snoc(hist(result)) and hlast(hist(result)) == call('stopTest', [self.case], {})",
                        "is_snoc(hinit(hist(result))) and is_outcome_ev(hlast(hinit(hist(result))))",
                        "hinit(hinit(hist(result))) == snoc(H0, call('startTest', [self.case], {}))",
                        "any(x is exc for x in self._exceptions)", "not isinstance(exc, Exception)"],
               ensures=["ret is result",
                        "is_snoc(hist(result)) and hlast(hist(result)) == call('stopTest', [self.case], {})",
                        "is_snoc(hinit(hist(result))) and is_outcome_ev(hlast(hinit(hist(result))))",
                        "hinit(hinit(hist(result))) == snoc(H0, call('startTest', [self.case], {}))",
                        "all(isinstance(x, Exception) for x in self._exceptions)"])
    R.define("is_outcome_ev", ["e"], "is_outcome(e) or ev_name(e) == 'addSuccess' or ev_name(e) == 'addSkip'")


def register_run(R):
    # RunTest.run / _run_one: the ExtendedToOriginalDecorator built here is what _run_prepared_result reports to (C08 carries the
    # outcome down to the raw target); with result=None the default result is bracketed by startTestRun/stopTestRun on every exit
    R.contract(R_ + "_run_one", inline=True)
