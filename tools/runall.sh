#!/bin/sh
# run every claimed check on /repo (regenerates evidence/*.json); usage: tools/runall.sh [--update-baseline]
cd "$(dirname "$0")/.."
for p in $(python3 -c "import json;print(' '.join(c['property_id'] for c in json.load(open('MANIFEST.json'))['checks']))"); do
  python3-vt -m checks.run $p "$@" | tail -1
done
