"""Run the repo's pinned suite (guard off) and compare with /root/.vp/BASELINE.json stable_pass.
usage: python3 tools/suite.py [repo_dir]"""
import json, os, subprocess, sys, tempfile
import xml.etree.ElementTree as ET
repo = sys.argv[1] if len(sys.argv) > 1 else "/repo"
base = json.load(open("/root/.vp/BASELINE.json"))
fd, path = tempfile.mkstemp(suffix=".xml"); os.close(fd)
env = dict(os.environ, PYTHONPATH=repo)
env.pop("TESTTOOLS_VERIF", None)
p = subprocess.run(["/venv/bin/python", "-m", "pytest", "-ra", "-q", "-p", "no:cacheprovider", "--timeout=900", "--continue-on-collection-errors", "--junitxml=" + path], cwd=repo, env=env, capture_output=True, text=True)
passed = set()
for tc in ET.parse(path).getroot().iter("testcase"):
    if not any(ch.tag in ("failure", "error", "skipped") for ch in tc):
        passed.add("%s::%s" % (tc.get("classname"), tc.get("name")))
os.unlink(path)
stable = set(base["stable_pass"])
missing = sorted(stable - passed)
print("passed=%d stable=%d stable_now_failing=%d" % (len(passed), len(stable), len(missing)))
for m in missing[:30]:
    print("  REGRESSION", m)
print(p.stdout.strip().splitlines()[-1])
sys.exit(1 if missing else 0)
