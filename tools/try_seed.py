"""Run a property check against a scratch copy of /repo with a seeded change applied.
usage: try_seed.py <seed_id> [prop] [--only substr]"""
import json, os, shutil, subprocess, sys, tempfile
HERE = os.path.dirname(os.path.dirname(os.path.abspath(__file__)))
seed = sys.argv[1]
meta = json.load(open(os.path.join(HERE, "seeded", seed, "meta.json")))
prop = sys.argv[2] if len(sys.argv) > 2 and not sys.argv[2].startswith("--") else meta["breaks_property"]
extra = sys.argv[3:] if len(sys.argv) > 3 else []
d = tempfile.mkdtemp(prefix="sr_", dir="/tmp")
try:
    shutil.copytree("/repo/testtools", os.path.join(d, "testtools"), ignore=shutil.ignore_patterns("__pycache__"))
    p = subprocess.run(["patch", "-p1", "-s", "-i", os.path.join(HERE, "seeded", seed, "patch.diff")], cwd=d, capture_output=True, text=True)
    if p.returncode != 0:
        print("patch failed", p.stdout, p.stderr); sys.exit(3)
    r = subprocess.run(["python3-vt", "-m", "checks.run", prop] + extra, cwd=HERE, env=dict(os.environ, VERIF_REPO=d, VERIF_EVIDENCE_DIR=os.path.join(d, "evidence")), capture_output=True, text=True)
    out = r.stdout.strip().splitlines()
    for ln in out[-6:]:
        print(ln[:400])
    print("exit", r.returncode)
finally:
    shutil.rmtree(d, ignore_errors=True)
