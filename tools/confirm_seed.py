"""Confirm an adversary change in a fresh scratch worktree of /repo:
   usage: confirm_seed.py <seed_id> <property> <patch.diff> <demo.py> "<needs>"
 - patch applies to /repo HEAD, suite (stable_pass) unchanged with it, demo fails with it and passes without it.
 Writes /verif/seeded/<seed_id>/{patch.diff,demo.py,meta.json}."""
import json, os, shutil, subprocess, sys, tempfile
seed, prop, patch, demo, needs = sys.argv[1:6]
HERE = os.path.dirname(os.path.dirname(os.path.abspath(__file__)))
wt = tempfile.mkdtemp(prefix="seedwt_", dir="/tmp")
os.rmdir(wt)
def sh(cmd, **kw):
    return subprocess.run(cmd, shell=True, capture_output=True, text=True, **kw)
head = sh("git -C /repo rev-parse --short HEAD").stdout.strip()
assert sh("git -C /repo worktree add -q --detach %s HEAD" % wt).returncode == 0
try:
    env = dict(os.environ, PYTHONPATH=wt)
    shutil.copy(demo, os.path.join(wt, "_demo.py"))
    demo_in_wt = os.path.join(wt, "_demo.py")
    r0 = sh("/venv/bin/python %s" % demo_in_wt, cwd=wt, env=env)
    ap = sh("git apply %s" % os.path.abspath(patch), cwd=wt)
    assert ap.returncode == 0, ap.stderr
    r1 = sh("/venv/bin/python %s" % demo_in_wt, cwd=wt, env=env)
    su = sh("python3 %s/tools/suite.py %s" % (HERE, wt))
    ok = r0.returncode == 0 and r1.returncode != 0 and su.returncode == 0
    print("demo without change rc=%d, with change rc=%d, suite rc=%d (%s)" % (r0.returncode, r1.returncode, su.returncode, su.stdout.strip().splitlines()[0] if su.stdout else su.stderr[-200:]))
    if ok:
        d = os.path.join(HERE, "seeded", seed)
        os.makedirs(d, exist_ok=True)
        shutil.copy(patch, os.path.join(d, "patch.diff"))
        shutil.copy(demo, os.path.join(d, "demo.py"))
        json.dump(dict(seed=seed, breaks_property=prop, needs_to_manifest=needs, base_commit=head,
                       confirmed=dict(demo_without_change_rc=r0.returncode, demo_with_change_rc=r1.returncode,
                                      suite_with_change=su.stdout.strip().splitlines()[0],
                                      commands=["git -C /repo worktree add --detach <wt> HEAD", "PYTHONPATH=<wt> /venv/bin/python demo.py  (before / after git apply patch.diff)", "python3 tools/suite.py <wt>"]),
                       detected_by=None), open(os.path.join(d, "meta.json"), "w"), indent=1)
        print("kept as seeded/%s" % seed)
    else:
        print("NOT CONFIRMED", r0.stdout[-300:], r0.stderr[-300:], r1.stdout[-200:])
finally:
    sh("git -C /repo worktree remove --force %s" % wt)
    shutil.rmtree(wt, ignore_errors=True)
sys.exit(0 if ok else 1)
