"""Print a python file without docstrings (reading aid), keeping line numbers of defs."""
import ast, sys
src = open(sys.argv[1]).read()
t = ast.parse(src)
for n in ast.walk(t):
    if isinstance(n, (ast.FunctionDef, ast.ClassDef, ast.Module, ast.AsyncFunctionDef)):
        if n.body and isinstance(n.body[0], ast.Expr) and isinstance(getattr(n.body[0], 'value', None), ast.Constant) and isinstance(n.body[0].value.value, str):
            n.body = n.body[1:] or [ast.Pass()]
    if isinstance(n, (ast.FunctionDef, ast.ClassDef)):
        n.name = n.name + "  #L%d" % n.lineno
print(ast.unparse(t).replace("  #L", "  #L"))
