"""Which properties are claimed, at which level, with which trusted base."""

NOT_BUILT = "check not built yet in this round (planned: DESIGN.md section 9); no claim is made"

CLAIMS = {
    "C06": dict(
        text="Every match() of the combinators under contract is proved, for all matcher lists, all inner verdicts and all values, to return None exactly when the declared predicate over the inner verdicts holds, and to modify no object that existed before the call; obligations are generated from the AST of /repo on every run and discharged by z3.",
        note="Inner matchers are abstract objects whose verdict is an uninterpreted function holds(m, x) (pure, deterministic by construction); leaf predicates are uninterpreted relations; VC generator and solvers trusted; see evidence trusted_base for the functions inlined and contracts assumed.",
    ),
    "C18": dict(
        text="StreamResultRouter.status is proved, for every rule table, every keyword payload and every route code string (z3 string theory), to deliver exactly one status event to exactly the sink the statement names, with the payload unchanged except for the consumed leading segment; raising exactly when there is no matching rule and no fallback.",
        note="Sinks are abstract Stream objects (one ghost event per call, no raise); str.split('/')[0] is modelled as the prefix up to the first '/'; VC generator and solvers trusted.",
    ),
    "C11": dict(
        text="status/startTestRun/stopTestRun of CopyStreamResult, StreamTagger, TimestampingStreamResult, StreamFailFast and StreamToQueue are proved, for every target list, payload and tag set (set, frozenset or None), to forward exactly one identical call to each target in order (fold `deliver`), changing only the owned field, and to modify no object that existed before the call (frame obligations cover the caller's argument objects).",
        note="Targets are abstract Stream/queue/callback objects (one ghost event per call, no raise); list(map(methodcaller(..), targets)) is given the built-in meaning 'one event per element in order'; fields other than test_id/test_status are passed by keyword (precondition len(args) <= 2); datetime.now is an assumed library contract (returns a value that is not None).",
    ),
}

NOT_APPLICABLE = {p: NOT_BUILT for p in ["C%02d" % i for i in range(1, 21)]}
