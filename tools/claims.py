"""Which properties are claimed, at which level, with which trusted base."""

NOT_BUILT = "check not built yet in this round (planned: DESIGN.md section 9); no claim is made"

CLAIMS = {
    "C06": dict(
        text="Every match() of the combinators under contract is proved, for all matcher lists, all inner verdicts and all values, to return None exactly when the declared predicate over the inner verdicts holds, and to modify no object that existed before the call; obligations are generated from the AST of /repo on every run and discharged by z3.",
        note="Inner matchers are abstract objects whose verdict is an uninterpreted function holds(m, x) (pure, deterministic by construction); leaf predicates are uninterpreted relations; VC generator and solvers trusted; see evidence trusted_base for the functions inlined and contracts assumed.",
    ),
    "C18": dict(
        text="StreamResultRouter.status is proved, for every rule table, every keyword payload and every route code string (z3 string theory), to deliver exactly one status event to exactly the sink the statement names, with the payload unchanged except for the consumed leading segment; raising exactly when there is no matching rule and no fallback.",
        note="Sinks are abstract Stream objects (one ghost event per call, no raise); str.split('/')[0] is modelled as the prefix up to the first '/'; VC generator and solvers trusted.",
    ),
    "C11": dict(
        text="status/startTestRun/stopTestRun of CopyStreamResult, StreamTagger, TimestampingStreamResult, StreamFailFast and StreamToQueue are proved, for every target list, payload and tag set (set, frozenset or None), to forward exactly one identical call to each target in order (fold `deliver`), changing only the owned field, and to modify no object that existed before the call (frame obligations cover the caller's argument objects).",
        note="Targets are abstract Stream/queue/callback objects (one ghost event per call, no raise); list(map(methodcaller(..), targets)) is given the built-in meaning 'one event per element in order'; fields other than test_id/test_status are passed by keyword (precondition len(args) <= 2); datetime.now is an assumed library contract (returns a value that is not None).",
    ),
    "C10": dict(
        text="_StreamToTestRecord.status is proved per event, for every in-progress table and payload, to ignore events without a test id, to create or update exactly the record of (test id, route code) with the last status, latest tags, first/last timestamps and the chunk appended to the named attachment, and on a final status to call on_test exactly once with that record and remove it; stopTestRun is proved by a loop invariant (counting function over the ghost callback history) to report every remaining record exactly once and leave the table empty; StreamSummary._gather_test puts every reported test into exactly the list its status names and counts it, wasSuccessful is false iff errors/failures are non-empty; StreamToDict / StreamSummary / StreamToExtendedDecorator hand every call to their hook exactly once (dropping 'exists' in the latter).",
        note="Representation invariant of the in-progress table (distinct keys hold distinct records, a record's details dict is its own object) is a precondition, established by the contracts of startTestRun/status (@new allocates a new record); _make_content_type and _details_to_str are assumed total functions; on_test is an abstract callback (one ghost event per call, no raise); 'every history' follows by induction over events from the per-event contracts (written argument, DESIGN.md).",
    ),
}

NOT_APPLICABLE = {p: NOT_BUILT for p in ["C%02d" % i for i in range(1, 21)]}
