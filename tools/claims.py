"""Which properties are claimed, at which level, with which trusted base."""

NOT_BUILT = "check not built yet in this round (planned: DESIGN.md section 9); no claim is made"

CLAIMS = {
    "C06": dict(
        text="Every match() of the combinators under contract is proved, for all matcher lists, all inner verdicts and all values, to return None exactly when the declared predicate over the inner verdicts holds, and to modify no object that existed before the call; obligations are generated from the AST of /repo on every run and discharged by z3.",
        note="Inner matchers are abstract objects whose verdict is an uninterpreted function holds(m, x) (pure, deterministic by construction); leaf predicates are uninterpreted relations; VC generator and solvers trusted; see evidence trusted_base for the functions inlined and contracts assumed.",
    ),
}

NOT_APPLICABLE = {p: NOT_BUILT for p in ["C%02d" % i for i in range(1, 21)]}
