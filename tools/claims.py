"""Which properties are claimed, at which level, with which trusted base."""

NOT_BUILT = "check not built yet in this round (planned: DESIGN.md section 9); no claim is made"

CLAIMS = {
    "C06": dict(
        text="Every match() of the combinators under contract is proved, for all matcher lists, all inner verdicts and all values, to return None exactly when the declared predicate over the inner verdicts holds, and to modify no object that existed before the call; obligations are generated from the AST of /repo on every run and discharged by z3.",
        note="Inner matchers are abstract objects whose verdict is an uninterpreted function holds(m, x) (pure, deterministic by construction); leaf predicates are uninterpreted relations; VC generator and solvers trusted; see evidence trusted_base for the functions inlined and contracts assumed.",
    ),
    "C18": dict(
        text="StreamResultRouter.status is proved, for every rule table, every keyword payload and every route code string (z3 string theory), to deliver exactly one status event to exactly the sink the statement names, with the payload unchanged except for the consumed leading segment; raising exactly when there is no matching rule and no fallback.",
        note="Sinks are abstract Stream objects (one ghost event per call, no raise); str.split('/')[0] is modelled as the prefix up to the first '/'; VC generator and solvers trusted.",
    ),
}

NOT_APPLICABLE = {p: NOT_BUILT for p in ["C%02d" % i for i in range(1, 21)]}
