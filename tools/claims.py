"""Which properties are claimed, at which level, with which trusted base."""

NOT_BUILT = "check not built yet in this round (planned: DESIGN.md section 9); no claim is made"

CLAIMS = {
    "C06": dict(
        text="Every match() of the combinators under contract is proved, for all matcher lists, all inner verdicts and all values, to return None exactly when the declared predicate over the inner verdicts holds, and to modify no object that existed before the call; obligations are generated from the AST of /repo on every run and discharged by z3.",
        note="Inner matchers are abstract objects whose verdict is an uninterpreted function holds(m, x) (pure, deterministic by construction); leaf predicates are uninterpreted relations; VC generator and solvers trusted; see evidence trusted_base for the functions inlined and contracts assumed.",
    ),
    "C18": dict(
        text="StreamResultRouter.status is proved, for every rule table, every keyword payload and every route code string (z3 string theory), to deliver exactly one status event to exactly the sink the statement names, with the payload unchanged except for the consumed leading segment; raising exactly when there is no matching rule and no fallback.",
        note="Sinks are abstract Stream objects (one ghost event per call, no raise); str.split('/')[0] is modelled as the prefix up to the first '/'; VC generator and solvers trusted.",
    ),
    "C11": dict(
        text="status/startTestRun/stopTestRun of CopyStreamResult, StreamTagger, TimestampingStreamResult, StreamFailFast and StreamToQueue are proved, for every target list, payload and tag set (set, frozenset or None), to forward exactly one identical call to each target in order (fold `deliver`), changing only the owned field, and to modify no object that existed before the call (frame obligations cover the caller's argument objects).",
        note="Targets are abstract Stream/queue/callback objects (one ghost event per call, no raise); list(map(methodcaller(..), targets)) is given the built-in meaning 'one event per element in order'; fields other than test_id/test_status are passed by keyword (precondition len(args) <= 2); datetime.now is an assumed library contract (returns a value that is not None).",
    ),
    "C10": dict(
        text="_StreamToTestRecord.status is proved per event, for every in-progress table and payload, to ignore events without a test id, to create or update exactly the record of (test id, route code) with the last status, latest tags, first/last timestamps and the chunk appended to the named attachment, and on a final status to call on_test exactly once with that record and remove it; stopTestRun is proved by a loop invariant (counting function over the ghost callback history) to report every remaining record exactly once and leave the table empty; StreamSummary._gather_test puts every reported test into exactly the list its status names and counts it, wasSuccessful is false iff errors/failures are non-empty; StreamToDict / StreamSummary / StreamToExtendedDecorator hand every call to their hook exactly once (dropping 'exists' in the latter).",
        note="Representation invariant of the in-progress table (distinct keys hold distinct records, a record's details dict is its own object) is a precondition, established by the contracts of startTestRun/status (@new allocates a new record); _make_content_type and _details_to_str are assumed total functions; on_test is an abstract callback (one ghost event per call, no raise); 'every history' follows by induction over events from the per-event contracts (written argument, DESIGN.md).",
    ),
    "C08": dict(
        text="Every method of ExtendedToOriginalDecorator is proved, for every capability vector of the wrapped target (which optional methods exist, which accept details=), to deliver exactly the one documented call (details= when accepted, else the synthetic string exception / reason / degraded outcome; unexpected success never becomes a pass), followed by the failfast stop step; MultiTestResult._dispatch and every public method deliver one identical call to each wrapped result in order (fold); TestResultDecorator forwards one identical call; Tagger.startTest sends startTest then tags; TestByTestResult calls on_test exactly once, at stopTest, with start/stop time, the tags current before the pop, and the status word and details of the outcome.",
        note="Targets are abstract objects whose calls are ghost events; assumption: a target raises TypeError only because it does not accept details=, and for no other reason; _details_to_str / traceback rendering are assumed total text functions ('reason text contains the detail text' is not decided); MultiTestResult.startTestRun (failfast property dispatch during the inherited reset) and TestByTestResult.addSkip are not under contract; stacks of adapters compose by substitution of contracts (written argument).",
    ),
    "C12": dict(
        text="Per-thread obligations of ThreadsafeForwardingResult are proved for every method, every buffered tag state and every point at which the target raises: O1 every call on the target except wasSuccessful is made while the semaphore is held (precondition of the target shape, discharged at every call site), O2 every method releases the semaphore on every normal and exceptional exit, O3 no acquire while held, O4 the target receives one contiguous block time(start) startTest time(now) [tags(global)] [tags(test)] outcome stopTest with that test's own start time and tag buffers, O5 the per-test buffer is emptied; _merge_tags and its algebra lemma are proved.",
        category="proof",
        note="'For all interleavings' is obtained from O1-O4 plus the ASSUMED mutual exclusion of threading.Semaphore(1) by a written composition argument (DESIGN.md C12), not by the solver; thread scheduling itself is outside contract-based verification; the inherited TestResult.startTestRun contract is applied to the subclass instance.",
    ),
    "C17": dict(
        text="TagContext (copy-on-create, copy-on-read, change_tags algebra) and the tag methods of TestResult, ExtendedToOriginalDecorator, MultiTestResult, TestByTestResult and ThreadsafeForwardingResult are proved to implement a stack of tag sets: startTestRun installs an empty run-level context, startTest pushes a copy, stopTest pops only a context that startTest pushed, tags changes the top only, current_tags returns a fresh copy; ThreadsafeForwardingResult buffers tag changes per test / per run, replays them inside the test's block and forgets them at startTestRun; Tagger applies its tags inside the test.",
        note="The statement 'current_tags equals added minus removed with test-local changes discarded' follows from the per-method stack contracts by induction over the history (written argument); a target has tags() iff it has current_tags (precondition; true of all flavours in the quantifier); PlaceHolder.run and ExtendedToStreamDecorator are covered under C09.",
    ),
    "C01": dict(
        text="RunTest is proved against an abstract test case and an extended result: _run_prepared_result delivers startTest, exactly one outcome event and stopTest on EVERY exit; it exits exceptionally iff some caught exception does not derive from Exception, and then that very exception propagates (after stopTest); _run_core reports exactly one outcome itself iff nothing was caught; _got_user_exception records every constituent (MultipleExceptions unpacked, an empty one recorded itself); _run_cleanups empties the stack whatever raises; _pick_exception lets a non-Exception win.",
        note="User stages (setUp/test/tearDown/cleanups) are abstract callables that may return or raise anything but may only append to the cleanup stack, set force_failure, and never touch the result or the exception list; the handler table holds Exception subclasses and its documented catch-all; handlers emit exactly one outcome and do not raise (proved for the stock _report_* under C03/C05); the result is an ExtendedToOriginalDecorator (C08 carries the bracket to every raw target flavour); termination and asynchronous exceptions are not covered.",
    ),
    "C03": dict(
        text="Outcome soundness is proved on RunTest: addSuccess is emitted only when no exception was caught and force_failure is unset; the handler is the first entry of the table whose class matches the picked exception (loop invariant over the table); the picked exception is never a skip / expected failure when any caught exception is a failure or error, and never an Exception when a non-Exception was caught.",
        note="Same model of user code as C01; skipException is an Exception subclass (precondition); the stock _report_* handlers' events are covered under C05/C01 contracts on TestCase.",
    ),
}

NOT_APPLICABLE = {p: NOT_BUILT for p in ["C%02d" % i for i in range(1, 21)]}
