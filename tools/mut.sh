#!/bin/sh
# usage: tools/mut.sh <file-under-testtools> <sed-expr> <dev-substring>   -- run dev.py against a scratch copy with one edit
d=$(mktemp -d /tmp/mut_XXXX)
cp -r /repo/testtools $d/testtools
sed -i "$2" $d/testtools/$1
diff -r /repo/testtools $d/testtools | head -8
VERIF_REPO=$d python3-vt /verif/tools/dev.py "$3" 2>&1 | grep -v "^  ok" | cut -c1-300
rm -rf $d
