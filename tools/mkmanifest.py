"""Regenerate /verif/MANIFEST.json from the table below (keeps it schema-valid)."""
import json
import os
import sys

HERE = os.path.dirname(os.path.dirname(os.path.abspath(__file__)))
sys.path.insert(0, HERE)
from tools.claims import CLAIMS, NOT_APPLICABLE  # noqa: E402

props = [json.loads(l)["id"] for l in open(os.path.join(HERE, "properties.jsonl"))]
checks = []
for pid in props:
    c = CLAIMS.get(pid)
    if c is None:
        continue
    checks.append(dict(
        property_id=pid,
        quick_cmd="python3-vt -m checks.run %s --tier quick" % pid,
        thorough_cmd="python3-vt -m checks.run %s --tier thorough" % pid,
        evidence_file="evidence/%s.json" % pid,
        replay_cmd_template="python3-vt -m checks.run %s --replay {path}" % pid,
        engine="pyvc",
        level_claimed=dict(category=c.get("category", "proof"), text=c["text"], design_ref=c.get("design_ref", "DESIGN.md section 5 (%s)" % pid)),
        level_note=c["note"],
        technique=c.get("technique", "contract-based deductive verification: VCs generated from the real AST of /repo against sidecar contracts, discharged by z3 (cvc5 second back end)"),
    ))
na = [dict(property_id=p, reason=NOT_APPLICABLE[p]) for p in props if p not in CLAIMS]
man = dict(
    version=1,
    setup_cmd="python3-vt -m compileall -q pyvc checks specs tools replay && python3-vt -m checks.selftest",
    hooks=dict(
        guard="TESTTOOLS_VERIF",
        enable="no hooks: contracts are sidecar files under /verif/specs, the AST of /repo is read from disk on every run",
        baseline_off_cmd="cd /repo && /venv/bin/python -m pytest -ra -q -p no:cacheprovider --timeout=900 --continue-on-collection-errors",
        source_commits=[],
        add_only=True,
    ),
    engines=[dict(name="pyvc", path="pyvc/", serves_properties=sorted(CLAIMS),
                  kind_free_text="verification-condition generator over the real Python AST (path-wise symbolic execution, Boogie-style heap, ghost call histories, loop invariants, modular contracts) + z3/cvc5")],
    checks=checks,
    notes="Exit codes of every check: 0 held, 1 VIOLATION, 2 undecided, 3 checker fault. Known findings: known_findings.json. See DESIGN.md.",
    not_applicable=na,
)
json.dump(man, open(os.path.join(HERE, "MANIFEST.json"), "w"), indent=1)
print("wrote MANIFEST.json: %d checks, %d not_applicable" % (len(checks), len(na)))
