"""Regenerate /verif/MANIFEST.json from the table below (keeps it schema-valid)."""
import json
import os
import sys

HERE = os.path.dirname(os.path.dirname(os.path.abspath(__file__)))
sys.path.insert(0, HERE)
from tools.claims import CLAIMS, NOT_APPLICABLE  # noqa: E402

props = [json.loads(l)["id"] for l in open(os.path.join(HERE, "properties.jsonl"))]
BOUNDED = {"C01", "C02", "C03", "C04", "C05", "C06", "C07", "C08", "C09", "C10", "C11", "C14", "C15", "C16", "C17", "C18", "C19", "C20"}   # = checks.run.BOUNDED_ALWAYS
BASE_T = ("contract-based deductive verification of the real code: sidecar contracts (pre/postconditions, loop invariants, frame conditions, "
          "ghost call histories, lemmas) on the functions of /repo; verification conditions generated from the AST of /repo on every run by "
          "/verif/pyvc and discharged function by function (callers against callee contracts) by z3 5.1 through a cascade of weakenings, cvc5 "
          "for pure string lemmas; a refuted obligation, or one that was discharged on the pinned tree (baseline/<id>.json) and no longer is, "
          "is the VIOLATION")
STANDIN_T = ("; alongside, the bounded stand-in replay/%s.py (enumeration of small scenarios on the real code with an oracle from the "
             "property statement, 20 s quick / 120 s thorough) runs -- labelled bounded in the evidence (coverage.bounded_checks), never "
             "counted in obligations/discharged -- and supplies the failing input replayed for a violation")
checks = []
for pid in props:
    c = CLAIMS.get(pid)
    if c is None:
        continue
    checks.append(dict(
        property_id=pid,
        quick_cmd="python3-vt -m checks.run %s --tier quick" % pid,
        thorough_cmd="python3-vt -m checks.run %s --tier thorough" % pid,
        evidence_file="evidence/%s.json" % pid,
        replay_cmd_template="python3-vt -m checks.run %s --replay {path}" % pid,
        engine="pyvc",
        level_claimed=dict(category=c.get("category", "proof"), text=c["text"], design_ref=c.get("design_ref", "DESIGN.md section 5 (%s)" % pid)),
        level_note=c["note"],
        technique=c.get("technique", BASE_T + (STANDIN_T % pid if pid in BOUNDED else "; no bounded stand-in is run for this property (its harness needs real threads)")),
    ))
na = [dict(property_id=p, reason=NOT_APPLICABLE[p]) for p in props if p not in CLAIMS]
man = dict(
    version=1,
    setup_cmd="python3-vt -m compileall -q pyvc checks specs tools replay && python3-vt -m checks.selftest",
    hooks=dict(
        guard="TESTTOOLS_VERIF",
        enable="no hooks: contracts are sidecar files under /verif/specs, the AST of /repo is read from disk on every run",
        baseline_off_cmd="cd /repo && /venv/bin/python -m pytest -ra -q -p no:cacheprovider --timeout=900 --continue-on-collection-errors",
        source_commits=[],
        add_only=True,
    ),
    engines=[dict(name="pyvc", path="pyvc/", serves_properties=sorted(CLAIMS),
                  kind_free_text="verification-condition generator over the real Python AST (path-wise symbolic execution, Boogie-style heap, ghost call histories, loop invariants, modular contracts) + z3/cvc5")],
    checks=checks,
    notes="Exit codes of every check: 0 held, 1 VIOLATION, 2 undecided, 3 checker fault. Known findings: known_findings.json. See DESIGN.md.",
    not_applicable=na,
)
json.dump(man, open(os.path.join(HERE, "MANIFEST.json"), "w"), indent=1)
print("wrote MANIFEST.json: %d checks, %d not_applicable" % (len(checks), len(na)))
