"""Harmless-edit corpus: behaviour-preserving edits applied to a scratch copy of /repo; the affected checks must NOT print a
VIOLATION (exit 0, or 2 naming the construct).  usage: python3 tools/harmless_edits.py"""
import os, shutil, subprocess, sys, tempfile
HERE = os.path.dirname(os.path.dirname(os.path.abspath(__file__)))
EDITS = [
    ("C01", "testtools/runtest.py", "    def _run_cleanups(self, result):", "    # a comment line inserted here\n\n    def _run_cleanups(self, result):"),
    ("C01", "testtools/runtest.py", "        self.case = case\n        self.handlers = handlers or []", "        self.handlers = handlers or []\n        self.case = case"),
    ("C19", "testtools/testsuite.py",
     "        yield test_suite_or_case\n    else:\n        for test in suite:\n            yield from iterate_tests(test)",
     "        yield test_suite_or_case\n        return\n    for test in suite:\n        yield from iterate_tests(test)"),
    ("C16", "testtools/content.py", "    chunk = stream.read(chunk_size)\n    while chunk:\n        yield chunk\n        chunk = stream.read(chunk_size)",
     "    while True:\n        chunk = stream.read(chunk_size)\n        if not chunk:\n            break\n        yield chunk"),
    ("C11", "testtools/testresult/real.py", "class CopyStreamResult(StreamResult):", "# note\nclass CopyStreamResult(StreamResult):"),
    # a renamed local that no contract mentions: must still verify (exit 0)
    ("C12", "testtools/testresult/real.py", "test_tags", "pending_tags", "all"),
    # a renamed local that a loop invariant mentions by name: undecided (exit 2, naming the unknown name), never a VIOLATION
    ("C15", "testtools/twistedsupport/_spinner.py", "junk", "leftovers", "in:_clean"),
    # two independent statements swapped
    ("C12", "testtools/testresult/real.py",
     "        test_start, self._test_start = self._test_start, None\n        test_tags, self._test_tags = self._test_tags, (set(), set())",
     "        test_tags, self._test_tags = self._test_tags, (set(), set())\n        test_start, self._test_start = self._test_start, None"),
]
bad = 0
for prop, path, old, new, *mode in EDITS:
    d = tempfile.mkdtemp(prefix="he_", dir="/tmp")
    try:
        shutil.copytree("/repo/testtools", os.path.join(d, "testtools"), ignore=shutil.ignore_patterns("__pycache__"))
        p = os.path.join(d, path)
        s = open(p).read()
        if old not in s:
            print("SKIP (text not found)", prop, path)
            continue
        if mode and mode[0] == "all":
            import re
            s2 = re.sub(r"\b%s\b" % re.escape(old), new, s)
        elif mode and mode[0].startswith("in:"):
            import re
            fn = mode[0][3:]
            a = s.index("    def %s(" % fn)
            b = s.index("\n    def ", a + 1)
            s2 = s[:a] + re.sub(r"\b%s\b" % re.escape(old), new, s[a:b]) + s[b:]
        else:
            s2 = s.replace(old, new, 1)
        open(p, "w").write(s2)
        r = subprocess.run(["python3-vt", "-m", "checks.run", prop], cwd=HERE, capture_output=True, text=True,
                           env=dict(os.environ, VERIF_REPO=d, VERIF_EVIDENCE_DIR=os.path.join(d, "ev")))
        viol = [ln for ln in r.stdout.splitlines() if ln.startswith("VIOLATION")]
        print(prop, path, "exit", r.returncode, "VIOLATION lines:", len(viol))
        if viol or r.returncode == 1:
            bad += 1
            print("   ", viol[:2])
    finally:
        shutil.rmtree(d, ignore_errors=True)
sys.exit(1 if bad else 0)
