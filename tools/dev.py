"""dev helper: verify targets matching a substring and print results"""
import sys, time
sys.path.insert(0, "/verif")
from pyvc.loader import Repo
from pyvc.spec import Registry
from pyvc.verify import Verifier, discharge, to_smt2, to_smt2_ground, to_smt2_sliced, discharge_smt2, discharge_singles
from pyvc.symex import Unsupported
import specs

repo = Repo()
R = specs.load_all(Registry())
pat = sys.argv[1] if len(sys.argv) > 1 else ""
for tgt, c in R.contracts.items():
    if c.assumed or c.inline or pat not in tgt:
        continue
    t0 = time.time()
    v = Verifier(repo, R)
    try:
        obls = v.verify_target(c)
    except Unsupported as e:
        print("UNSUPPORTED", e)
        continue
    bg = v.background()
    print("== %s: %d paths %s, %d obligations (symex %.2fs)" % (tgt, v.npaths, v.exit_kinds, len(obls), time.time() - t0))
    for o in obls:
        r = discharge_smt2(o.name, o.kind, o.line, to_smt2_ground(o), timeout_ms=2000, use_cvc5=False, retries=0, inproc=True)
        if r.status != "proved":
            r = discharge_smt2(o.name, o.kind, o.line, to_smt2(o, []), timeout_ms=5000, use_cvc5=False, retries=0)
            r.backend = "z3 (no background)"
        if r.status != "proved":
            sl = to_smt2_sliced(o, bg)
            if sl is not None:
                r = discharge_smt2(o.name, o.kind, o.line, sl, timeout_ms=5000, use_cvc5=False, retries=0)
                r.backend = "z3 (sliced)"
            if r.status != "proved":
                r1 = discharge_singles(o.name, o.kind, o.line, to_smt2(o, []))
                r = r1 if r1 is not None else discharge(o, bg, timeout_ms=10000)
                if r.status == "unknown" and getattr(o, "alt", None):
                    from pyvc.symex import Obligation as _Ob
                    o2 = _Ob(o.name, list(o.assumptions) + list(o.alt), o.goal, o.kind, o.line, o.extra)
                    for bgx in ([], bg):
                        ra = discharge(o2, bgx, timeout_ms=8000)
                        if ra.status == "proved":
                            r = ra
                            r.backend = "z3 (alt)"
                            break
        else:
            r.backend = "z3 (qf)"
        flag = {"proved": "ok ", "refuted": "FAIL", "unknown": "??? "}[r.status]
        print("  %s %-70s %.3fs %s" % (flag, o.name[len(tgt)+1:], r.time_s, r.backend))
        if r.status != "proved":
            print("       ", r.detail[:300], str(o.extra)[:300])
            if r.model: print("       ", r.model)
