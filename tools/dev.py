"""dev helper: verify targets matching a substring and print results"""
import sys, time
sys.path.insert(0, "/verif")
from pyvc.loader import Repo
from pyvc.spec import Registry
from pyvc.verify import Verifier, discharge
from pyvc.symex import Unsupported
import specs

repo = Repo()
R = specs.load_all(Registry())
pat = sys.argv[1] if len(sys.argv) > 1 else ""
for tgt, c in R.contracts.items():
    if c.assumed or c.inline or pat not in tgt:
        continue
    t0 = time.time()
    v = Verifier(repo, R)
    try:
        obls = v.verify_target(c)
    except Unsupported as e:
        print("UNSUPPORTED", e)
        continue
    bg = v.background()
    print("== %s: %d paths %s, %d obligations (symex %.2fs)" % (tgt, v.npaths, v.exit_kinds, len(obls), time.time() - t0))
    for o in obls:
        r = discharge(o, bg, timeout_ms=10000)
        flag = {"proved": "ok ", "refuted": "FAIL", "unknown": "??? "}[r.status]
        print("  %s %-70s %.3fs %s" % (flag, o.name[len(tgt)+1:], r.time_s, r.backend))
        if r.status != "proved":
            print("       ", r.detail[:300])
            if r.model: print("       ", r.model)
