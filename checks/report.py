"""Verdicts, baseline comparison, known findings, evidence files."""
import hashlib
import json
import os
import subprocess
import sys
import time

HERE = os.path.dirname(os.path.dirname(os.path.abspath(__file__)))
EVIDENCE_DIR = os.environ.get("VERIF_EVIDENCE_DIR") or os.path.join(HERE, "evidence")
BASELINE_DIR = os.path.join(HERE, "baseline")
REPLAY_DIR = os.path.join(HERE, "out", "replay")
BASELINE_DIR_RO = BASELINE_DIR
FINDINGS = os.path.join(HERE, "known_findings.json")
VENV_PY = "/venv/bin/python"

GLOBAL_ASSUMPTIONS = [
    "the VC generator /verif/pyvc (encoding of Python semantics, DESIGN.md 2.2-2.5) and the solvers z3 5.1 / cvc5 are trusted",
    "attribute lookup follows the static MRO of the classes as written (no monkey-patching of verified classes)",
    "Python ints are mathematical integers (exact for Python); strings are sequences of code points",
    "formatting (%, format, f-strings, repr, join) is an uninterpreted total function of its arguments",
    "no asynchronous exception arrives between two statements; termination is not proved (partial correctness)",
    "field type tags in /verif/specs are trusted typing assumptions on heap reads, also on reads made while a postcondition is evaluated: "
    "a clause about an object whose stored shape contradicts its tag can be vacuously proved unless simplification or a 1 s "
    "quantifier-free check sees the contradiction (DESIGN.md 11.2, known soundness limit)",
    "== on values of statically unknown type is structural/identity equality",
    "dict and set keys are compared by value identity: hashing, __hash__/__eq__ of key objects and unhashable keys are not modelled",
    "threads are not modelled: every function is verified as sequential code; recursion goes through the function's own contract",
    "a comprehension whose element expression constructs an object or has a fresh result is over-approximated (length/domain, class of the new objects; values unknown)",
    "module-level tables and constants built from literals, frozenset/tuple/namedtuple or a repo class constructor are not mutated at run time; "
    "functions with unmodelled decorators, module-level objects built by external constructors and class constants overridden on instances are refused (undecided), not assumed",
    "obligations get instances of their own assumptions added before they are sent to the solver (DESIGN.md 11.1): consequences, not new assumptions",
]


def stable_key(name):
    return name.split("@L")[0]


def load_findings():
    if not os.path.exists(FINDINGS):
        return {"findings": [], "fixed": []}
    return json.load(open(FINDINGS))


def write_evidence(prop, data):
    os.makedirs(EVIDENCE_DIR, exist_ok=True)
    path = os.path.join(EVIDENCE_DIR, "%s.json" % prop)
    tmp = path + ".tmp"
    with open(tmp, "w") as fh:
        json.dump(data, fh, indent=1, sort_keys=True)
    os.replace(tmp, path)
    return path


def fault(prop, tier, seed, msg, t0):
    print("CHECKER-FAULT property=%s %s" % (prop, msg))
    write_evidence(prop, dict(property_id=prop, tier=tier, seed=seed, level="proof",
                              coverage=dict(evaluations=1, distinct_nontrivial=0, obligations=0, discharged=0,
                                            checker_cmd="python3-vt -m checks.run %s" % prop, trusted_base=[],
                                            explanation="checker fault: " + msg),
                              assumptions=GLOBAL_ASSUMPTIONS, wall_s=round(time.time() - t0, 3), violations=0))
    return 3


def replay(prop, path):
    """re-run a recorded violation: re-runs the property check and, where a concrete scenario was recorded, the scenario"""
    data = json.load(open(path))
    print(json.dumps({k: data[k] for k in data if k in ("property", "obligation", "status", "scenario", "observed", "required")}, indent=1))
    scen = data.get("scenario")
    if scen and os.path.exists(os.path.join(HERE, "replay", "%s.py" % prop)):
        p = subprocess.run([VENV_PY, os.path.join(HERE, "replay", "%s.py" % prop), "--scenario", json.dumps(scen)], capture_output=True, text=True)
        print(p.stdout[-3000:])
        return 1 if p.returncode == 1 else 0
    return 1


_REPLAY_CACHE = {}


def try_replay(prop, res, target):
    """ask the property's replay harness (real code under /venv/bin/python) for a failing input near the counter-model"""
    harness = os.path.join(HERE, "replay", "%s.py" % prop)
    if not os.path.exists(harness):
        return None
    req = dict(target=target, obligation=res.get("name"), model=res.get("model"), witness=res.get("witness"), path=res.get("path"))
    key = (prop, target)
    if key in _REPLAY_CACHE:
        return _REPLAY_CACHE[key]
    _REPLAY_CACHE[key] = None
    try:
        env = dict(os.environ, PYTHONPATH=os.environ.get("VERIF_REPO", "/repo"))
        p = subprocess.run([VENV_PY, harness, "--budget", "45", "--from-obligation", json.dumps(req)], capture_output=True, text=True,
                           timeout=180, env=env, cwd="/tmp")
    except Exception as e:
        return None
    if p.returncode == 1:
        try:
            out = json.loads(p.stdout.strip().splitlines()[-1])
        except Exception:
            out = dict(scenario=None, observed=p.stdout[-2000:], required=None)
        _REPLAY_CACHE[key] = out
        return out
    return None


def finish(prop, tier, seed, R, outs, t0, update_baseline=False, extra_items=None, skipped=0, bounded=None):
    findings = load_findings()
    known = {f["id"]: f for f in findings.get("findings", []) if f.get("property") == prop}
    base_path = os.path.join(BASELINE_DIR, "%s.json" % prop)
    baseline = json.load(open(base_path)) if os.path.exists(base_path) else {"proved": []}
    base_proved = set(baseline.get("proved", []))

    n_obl = n_proved = 0
    by_backend = {}
    solver_time = 0.0
    slowest = []
    functions = []
    inlined, used = set(), set()
    violations, undecided, faults, known_hit = [], [], [], {}
    samples = []
    proved_keys = set()
    failed_keys = set()
    targets_seen = 0
    for o in outs:
        targets_seen += 1
        if o.get("error"):
            (faults if o.get("kind_err") == "fault" else undecided).append(dict(target=o["target"], why=o["error"]))
            continue
        if o.get("func"):
            f = dict(o["func"])
            f.update(paths=o.get("paths"), exits=o.get("exits"), obligations=len(o["results"]))
            functions.append(f)
        inlined.update(o.get("inlined", []))
        used.update(o.get("used", []))
        can = o.get("canary")
        if can and can.get("status") == "contradictory":
            faults.append(dict(target=o["target"], why="vacuity canary: requires/typing assumptions are contradictory"))
        if o["kind"] == "contract" and o.get("exits") and (o["exits"].get("normal", 0) + o["exits"].get("raise", 0)) == 0 \
                and all(r["status"] == "proved" for r in o["results"]) and not skipped:
            faults.append(dict(target=o["target"], why="no path reaches an exit (vacuous)"))
        for r in o["results"]:
            n_obl += 1
            solver_time += r["time_s"]
            slowest.append((r["time_s"], r["name"]))
            key = stable_key(r["name"])
            if r["status"] == "proved":
                n_proved += 1
                by_backend[r["backend"]] = by_backend.get(r["backend"], 0) + 1
                proved_keys.add(key)
                if r.get("seed2") and r["seed2"] != "proved":
                    undecided.append(dict(target=o["target"], why="unstable verdict across seeds: %s" % r["name"]))
                if len(samples) < 6 and r["kind"] in ("post", "inv-preserved", "lemma", "expost"):
                    samples.append(dict(obligation=r["name"], verdict="proved", backend=r["backend"], time_s=r["time_s"], formula_chars=r.get("size")))
                continue
            failed_keys.add(key)
            if r.get("known_finding"):
                known_hit.setdefault(r["known_finding"], []).append(r["name"])
                continue
            if r["status"] == "refuted" or key in base_proved:
                violations.append(dict(target=o["target"], res=r))
            else:
                undecided.append(dict(target=o["target"], why="solver %s on %s: %s" % (r["status"], r["name"], r.get("detail", "")[:200])))
    for it in (extra_items or []):
        pass
    proved_keys -= failed_keys

    # expected obligations that disappeared entirely (contract target vanished) are undecided, reported
    missing = sorted(k for k in base_proved if k not in proved_keys and k not in failed_keys) if not skipped else []
    wall = round(time.time() - t0, 3)
    rc = 0
    lines = []
    for fid, names in sorted(known_hit.items()):
        f = known.get(fid, {})
        lines.append("KNOWN-FINDING: property=%s %s [%s; %d obligation(s)]" % (prop, f.get("what", fid), fid, len(names)))
    viol_records = []
    if violations:
        os.makedirs(REPLAY_DIR, exist_ok=True)
        for k, vv in enumerate(violations):
            r = vv["res"]
            scen = try_replay(prop, r, vv["target"])
            path = os.path.join("out", "replay", "%s_%d.json" % (prop, k))
            rec = dict(property=prop, obligation=r["name"], target=vv["target"], status=r["status"], backend=r["backend"],
                       solver_output=r.get("detail"), model=r.get("model"), goal=r.get("goal"), path=r.get("path"), note=r.get("note"),
                       baseline_proved=stable_key(r["name"]) in base_proved)
            if scen:
                rec.update(scenario=scen.get("scenario"), observed=scen.get("observed"), required=scen.get("required"))
            with open(os.path.join(HERE, path), "w") as fh:
                json.dump(rec, fh, indent=1)
            lines.append("VIOLATION property=%s replay=%s obligation=%s%s" % (
                prop, path, r["name"], "" if scen else " no-failing-input-found"))
            viol_records.append(rec)
        rc = 1
    if bounded and bounded.get("exit") == 1:
        os.makedirs(REPLAY_DIR, exist_ok=True)
        path = os.path.join("out", "replay", "%s_b.json" % prop)
        fl = bounded.get("failing") or {}
        rec = dict(property=prop, obligation="(bounded stand-in) replay/%s.py" % prop, target="replay harness", status="failing-input",
                   scenario=fl.get("scenario"), observed=fl.get("observed"), required=fl.get("required"), baseline_proved=None)
        with open(os.path.join(HERE, path), "w") as fh:
            json.dump(rec, fh, indent=1)
        lines.append("VIOLATION property=%s replay=%s obligation=bounded-stand-in(replay/%s.py)" % (prop, path, prop))
        viol_records.append(rec)
        _REPLAY_CACHE[(prop, "*")] = fl
        rc = 1
    if undecided and not violations and not viol_records and base_proved and not update_baseline:
        # the proof no longer goes through (restructured code, missing invariant, solver limit) for a function that verified on
        # the unchanged tree: undecided, unless the property's replay harness finds a concrete failing input on the real code
        for u in undecided[:3]:
            if not any(k.startswith(u["target"].split("@")[0]) for k in base_proved):
                continue
            scen = try_replay(prop, dict(name=u["why"][:200]), u["target"])
            if scen:
                os.makedirs(REPLAY_DIR, exist_ok=True)
                path = os.path.join("out", "replay", "%s_u%d.json" % (prop, len(viol_records)))
                rec = dict(property=prop, obligation="(undecided) " + u["why"][:300], target=u["target"], status="undecided-then-replayed",
                           scenario=scen.get("scenario"), observed=scen.get("observed"), required=scen.get("required"), baseline_proved=True)
                with open(os.path.join(HERE, path), "w") as fh:
                    json.dump(rec, fh, indent=1)
                lines.append("VIOLATION property=%s replay=%s obligation=%s" % (prop, path, u["target"]))
                viol_records.append(rec)
                rc = 1
                break
    if faults:
        for f in faults:
            lines.append("CHECKER-FAULT property=%s target=%s %s" % (prop, f["target"], f["why"][:400]))
        rc = max(rc, 3) if rc != 1 else 1
    elif undecided and rc == 0:
        for u in undecided:
            lines.append("UNDECIDED property=%s target=%s %s" % (prop, u["target"], u["why"][:400]))
        rc = 2
    if n_obl == 0 and rc == 0:
        lines.append("CHECKER-FAULT property=%s zero obligations generated" % prop)
        rc = 3
    if missing and rc == 0 and not update_baseline:
        lines.append("UNDECIDED property=%s %d baseline obligation(s) no longer generated, e.g. %s" % (prop, len(missing), missing[0]))
        rc = 2

    trusted = []
    for t in sorted(used):
        c = R.contracts.get(t)
        if t.startswith("lib:"):
            trusted.append("assumed library contract %s" % t[4:])
        elif t.startswith("shape:"):
            trusted.append("assumed shape contract %s (abstract user/peer object)" % t[6:])
        elif c is not None and c.assumed:
            trusted.append("assumed contract of repo function %s (used at call sites, body not verified)" % t)
    for t in sorted(inlined):
        trusted.append("inlined (no separate contract) %s" % t)
    for name, vars_, expr in R.axioms:
        trusted.append("axiom %s" % name)
    slowest.sort(reverse=True)
    evidence = dict(
        property_id=prop, tier=tier, seed=seed, level="proof",
        coverage=dict(
            obligations=n_obl, discharged=n_proved,
            checker_cmd="python3-vt -m checks.run %s --tier %s" % (prop, tier),
            trusted_base=trusted,
            functions_under_contract=functions,
            by_backend=by_backend,
            solver_time_s=round(solver_time, 3),
            slowest=[dict(time_s=t, obligation=n) for t, n in slowest[:5]],
            samples=samples or [dict(note="no proved obligation to sample")],
            known_findings_hit=known_hit,
            undecided=undecided,
            faults=faults,
            violations=[dict(obligation=v["obligation"], status=v["status"]) for v in viol_records],
            baseline_missing=missing[:20],
            not_run_after_early_stop=skipped,
            bounded_checks=[bounded] if bounded else [],
            targets=targets_seen,
            evaluations=max(n_obl, 1), distinct_nontrivial=len(proved_keys | failed_keys),
            rule="one evaluation = one verification condition generated from the AST of /repo and sent to a solver; distinct = distinct stable obligation names",
        ),
        assumptions=GLOBAL_ASSUMPTIONS,
        wall_s=wall, violations=len(viol_records),
    )
    write_evidence(prop, evidence)
    if update_baseline:
        os.makedirs(BASELINE_DIR, exist_ok=True)
        with open(base_path, "w") as fh:
            json.dump(dict(property=prop, proved=sorted(proved_keys), note="obligation keys discharged on the pinned tree; regenerate with --update-baseline"), fh, indent=1)
    for ln in lines:
        print(ln)
    print("SUMMARY property=%s tier=%s targets=%d obligations=%d discharged=%d known_findings=%d violations=%d undecided=%d faults=%d wall=%.1fs exit=%d" % (
        prop, tier, targets_seen, n_obl, n_proved, len(known_hit), len(viol_records), len(undecided), len(faults), wall, rc))
    return rc
