"""Engine self-test run by setup_cmd: the spec files load, the repo parses, z3 answers."""
import os
import sys

HERE = os.path.dirname(os.path.dirname(os.path.abspath(__file__)))
sys.path.insert(0, HERE)


def main():
    import z3
    from pyvc.loader import Repo
    from pyvc.spec import Registry
    import specs
    repo = Repo()
    R = specs.load_all(Registry())
    missing = [t for t, c in R.contracts.items() if not c.assumed and repo.find_function(t.split("@")[0]) is None]
    s = z3.Solver()
    x = z3.Int("x")
    s.add(x > 1, x < 2)
    assert s.check() == z3.unsat
    print("selftest: %d modules, %d contracts, %d shapes, z3 %s" % (len(repo.modules), len(R.contracts), len(R.shapes), z3.get_version_string()))
    if missing:
        print("selftest: contract targets not found in /repo: %s" % missing)
        return 2
    # soundness smoke test of the whole pipeline on the real code: a correct contract must be proved, two deliberately WRONG
    # contracts on the same functions must be refuted or left undecided -- never proved
    from pyvc.spec import Contract
    from pyvc.verify import Verifier, discharge
    probes = [
        ("testtools.helpers:map_values", dict(params={"function": "TotalFn", "dictionary": "dict"}, pure=True, returns="dict",
                                              ensures=["forall(lambda vk: kwget(dictof(ret), vk) == ite(vk in dictof(dictionary), fn1(function, kwget(dictof(dictionary), vk)), absent()))"]), True),
        ("testtools.helpers:map_values", dict(params={"function": "TotalFn", "dictionary": "dict"}, pure=True, returns="dict",
                                              ensures=["forall(lambda vk: kwget(dictof(ret), vk) == kwget(dictof(dictionary), vk))"]), False),
        ("testtools.helpers:dict_subtract", dict(params={"a": "dict", "b": "dict"}, pure=True, returns="dict",
                                                 ensures=["forall(lambda vk: kwget(dictof(ret), vk) == kwget(dictof(a), vk))"]), False),
    ]
    for target, kw, expect_proved in probes:
        c = Contract(target, **kw)
        v = Verifier(repo, R)
        obls = v.verify_target(c)
        bg = v.background()
        res = []
        to = 20000 if expect_proved else 3000
        for o in obls:
            r = discharge(o, [], timeout_ms=to)          # assumptions only (a weakening), then with the background axioms
            if r.status != "proved":
                r = discharge(o, bg, timeout_ms=to)
            res.append(r)
        all_proved = bool(res) and all(r.status == "proved" for r in res)
        if expect_proved and not all_proved and not any(r.status == "refuted" for r in res):
            print("selftest: WARNING the valid probe on %s was not discharged within the budget (machine load?)" % target)
            continue
        if all_proved != expect_proved:
            print("selftest: FAILED probe on %s: expected %s, got %s" % (target, "proved" if expect_proved else "not proved",
                                                                          [(r.name.split("/", 1)[-1], r.status) for r in res if r.status != "proved"] or "all proved"))
            return 3
    print("selftest: soundness probes ok (1 valid contract proved, 2 wrong contracts not proved)")
    return 0


if __name__ == "__main__":
    sys.exit(main())
