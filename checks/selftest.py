"""Engine self-test run by setup_cmd: the spec files load, the repo parses, z3 answers."""
import os
import sys

HERE = os.path.dirname(os.path.dirname(os.path.abspath(__file__)))
sys.path.insert(0, HERE)


def main():
    import z3
    from pyvc.loader import Repo
    from pyvc.spec import Registry
    import specs
    repo = Repo()
    R = specs.load_all(Registry())
    missing = [t for t, c in R.contracts.items() if not c.assumed and repo.find_function(t.split("@")[0]) is None]
    s = z3.Solver()
    x = z3.Int("x")
    s.add(x > 1, x < 2)
    assert s.check() == z3.unsat
    print("selftest: %d modules, %d contracts, %d shapes, z3 %s" % (len(repo.modules), len(R.contracts), len(R.shapes), z3.get_version_string()))
    if missing:
        print("selftest: contract targets not found in /repo: %s" % missing)
        return 2
    return 0


if __name__ == "__main__":
    sys.exit(main())
