"""Property check driver.

    python3-vt -m checks.run C06 [--tier quick|thorough] [--update-baseline] [--replay PATH] [--jobs N]

exit 0: every obligation of the property discharged (known findings excepted, printed as KNOWN-FINDING)
exit 1: a named obligation was refuted / no longer discharges -> VIOLATION property=<id> replay=<path>
exit 2: undecided (unsupported construct, missing invariant, solver unknown on an obligation without baseline)
exit 3: checker fault (vacuity canary, audit failure, crash)
"""
import argparse
import json
import multiprocessing as mp
import os
import sys
import time
import traceback

HERE = os.path.dirname(os.path.dirname(os.path.abspath(__file__)))
sys.path.insert(0, HERE)
os.chdir(HERE)

import z3  # noqa: E402
from pyvc.loader import Repo  # noqa: E402
from pyvc.spec import Registry, parse_expr  # noqa: E402
from pyvc.symex import Unsupported, SpecError, Obligation  # noqa: E402
from pyvc.symex import has_quantifier  # noqa: E402
from pyvc.verify import Verifier, discharge, Result, to_smt2, to_smt2_ground, to_smt2_sliced, discharge_smt2, discharge_singles, run_cvc5_text  # noqa: E402
import specs  # noqa: E402

EVIDENCE_DIR = os.path.join(HERE, "evidence")
BASELINE_DIR = os.path.join(HERE, "baseline")
REPLAY_DIR = os.path.join(HERE, "out", "replay")
FINDINGS = os.path.join(HERE, "known_findings.json")


def stable_key(name):
    """obligation name without line number / ordinal: robust to harmless edits"""
    base = name.split("@L")[0]
    return base


def load_findings():
    if not os.path.exists(FINDINGS):
        return []
    return json.load(open(FINDINGS)).get("findings", [])


_G = {}
EARLY_STOP = {"skipped": 0}
# properties whose replay harness is single-threaded and deterministic: run as a bounded stand-in on every check
# C12/C13 harnesses use real threads and the OS scheduler: not run as stand-ins (a verdict must not depend on scheduling)
BOUNDED_ALWAYS = {"C01", "C02", "C03", "C04", "C05", "C06", "C07", "C08", "C09", "C10", "C11", "C14", "C15", "C16", "C17", "C18", "C19", "C20"}


def _init_worker(tier, seed):
    _G["repo"] = Repo()
    _G["reg"] = specs.load_all(Registry())
    _G["tier"] = tier
    _G["seed"] = seed
    _G["findings"] = load_findings()


def verify_one(target):
    """worker, phase 1: symbolic execution of one contract target -> obligations as SMT-LIB2 text"""
    repo, R = _G["repo"], _G["reg"]
    c = R.contracts[target]
    out = dict(target=target, results=[], error=None, kind="contract", obls=[])
    t0 = time.time()
    try:
        v = Verifier(repo, R)
        v.finding_specs = [f for f in _G["findings"] if f.get("target") == target]
        obls = v.verify_target(c)
        bg = v.background()
        out["paths"] = v.npaths
        out["exits"] = v.exit_kinds
        out["func"] = v.func_info
        out["inlined"] = sorted(v.inlined)
        out["used"] = sorted(v.used_contracts)
        for o in obls:
            text = to_smt2(o, bg)
            item = dict(name=o.name, kind=o.kind, line=o.line, smt2=text, path=o.extra.get("path"), note=o.extra.get("note"),
                        goal=o.goal.sexpr()[:1500], size=len(text), excl={}, ground=to_smt2_ground(o))
            if any(has_quantifier(a) for a in o.assumptions) or has_quantifier(o.goal):
                # further weakenings, tried in this order after the quantifier-free one: all assumptions without background axioms;
                # only the assumptions connected to the goal (with background)
                item["nobg"] = to_smt2(o, [])
                sl = to_smt2_sliced(o, bg)
                if sl is not None:
                    item["sliced"] = sl
                if getattr(o, "alt", None):
                    from pyvc.symex import Obligation as _Ob
                    o2 = _Ob(o.name, list(o.assumptions) + list(o.alt), o.goal, o.kind, o.line, o.extra)
                    item["alt_nobg"] = to_smt2(o2, [])
                    item["alt"] = to_smt2(o2, bg)
            for f in v.finding_specs:
                if f.get("kind") and f["kind"] != o.kind:
                    continue
                sig = o.extra.get("sigs", {}).get(f["id"])
                if sig is not None:
                    item["excl"][f["id"]] = to_smt2(o, bg, [z3.Not(sig)])
            out["obls"].append(item)
        out["canary"] = v.canary(c)
        out["symex_s"] = round(time.time() - t0, 3)
    except Unsupported as e:
        out["error"] = "unsupported: %s" % e
        out["kind_err"] = "undecided"
    except SpecError as e:
        out["error"] = "spec error: %s" % e
        out["kind_err"] = "fault"
    except Exception as e:
        out["error"] = "crash: %s\n%s" % (e, traceback.format_exc()[-1500:])
        out["kind_err"] = "fault"
    out["wall_s"] = round(time.time() - t0, 3)
    return out


def cascade(item, seed, timeout):
    """the discharge cascade for one obligation: weakest problem first (a proof of a weakening is a proof of the obligation)"""
    r = None
    if item.get("ground"):
        # quantifier-free assumptions only, no background: keeps ground obligations away from the quantified axioms, where z3 wanders
        rg = discharge_smt2(item["name"], item["kind"], item["line"], item["ground"], timeout_ms=3000, use_cvc5=False, seed=seed, retries=0, inproc=True)
        if rg.status == "proved":
            rg.backend = "z3 (quantifier-free weakening)"
            r = rg
    for key, label in (("nobg", "z3 (assumptions only, no background axioms)"), ("sliced", "z3 (assumptions connected to the goal)")):
        if r is None and item.get(key):
            rw = discharge_smt2(item["name"], item["kind"], item["line"], item[key], timeout_ms=8000, use_cvc5=False, seed=seed, retries=0)
            if rw.status == "proved":
                rw.backend = label
                r = rw
    if r is None and item.get("nobg"):
        r = discharge_singles(item["name"], item["kind"], item["line"], item["nobg"], seed=seed)
    if r is None:
        r = discharge_smt2(item["name"], item["kind"], item["line"], item["smt2"], timeout_ms=timeout, seed=seed, retries=0 if item.get("alt") else 2)
    if r.status == "unknown" and item.get("alt"):
        # the same problem with further instances of its own assumptions (at the literal indexes 0, 1, 2) added
        for key, to in (("alt_nobg", 8000), ("alt", timeout)):
            ra = discharge_smt2(item["name"], item["kind"], item["line"], item[key], timeout_ms=to, use_cvc5=False, seed=seed, retries=0)
            if ra.status == "proved":
                ra.backend = "z3 (with instances of the assumptions at literal indexes)"
                return ra
    return r


def discharge_one(item):
    """worker, phase 2: one obligation"""
    tier, seed = _G["tier"], _G["seed"]
    timeout = 12000 if tier == "quick" else 60000
    r = cascade(item, seed, timeout)
    d = r.to_json()
    d["size"] = item["size"]
    if r.status != "proved":
        for fid, smt2 in item.get("excl", {}).items():
            r2 = discharge_smt2(item["name"], item["kind"], item["line"], smt2, timeout_ms=timeout, seed=seed)
            if r2.status == "proved":
                d["known_finding"] = fid
                break
        d["path"], d["note"], d["goal"] = item.get("path"), item.get("note"), item.get("goal")
    elif tier == "thorough":
        # stability: the whole cascade once more with another seed must reach the same verdict
        r3 = cascade(item, seed + 7, timeout)
        d["seed2"] = r3.status
        if "Val" not in item["smt2"]:
            st, t2 = run_cvc5_text(item["smt2"], timeout)      # cvc5 cannot parse the nested datatype of values: pure problems only
            d["cvc5"] = st
    return d


def verify_lemma(idx):
    repo, R = _G["repo"], _G["reg"]
    lem = R.lemmas[idx]
    out = dict(target="lemma:" + lem["name"], results=[], error=None, kind="lemma")
    t0 = time.time()
    try:
        v = Verifier(repo, R)
        v.setup_path()
        v.target_name = "lemma:" + lem["name"]
        goal = z3.simplify(v.axiom_term(lem["vars"], lem["goal"], lem["assumes"]))
        bg = v.background() if lem.get("background", True) else []
        # negated universally quantified goal: skolemised by the solver
        o = Obligation("lemma:%s/lemma" % lem["name"], [], goal, "lemma", 0, {})
        text = to_smt2(o, bg)
        timeout = 10000 if _G["tier"] == "quick" else 60000
        r = None
        if "Val" not in text:
            # pure string/integer lemma: cvc5 --strings-exp first (z3's sequence solver is unstable on these)
            st, t2 = run_cvc5_text(text, timeout)
            if st == "unsat":
                r = Result(o.name, "proved", "cvc5", t2, "lemma", 0)
        if r is None:
            r = discharge_smt2(o.name, "lemma", 0, text, timeout_ms=timeout, seed=_G["seed"])
        d = r.to_json()
        d["size"] = len(text)
        out["results"].append(d)
    except Exception as e:
        out["error"] = "crash: %s\n%s" % (e, traceback.format_exc()[-1500:])
        out["kind_err"] = "fault"
    out["wall_s"] = round(time.time() - t0, 3)
    return out


def main(argv=None):
    ap = argparse.ArgumentParser()
    ap.add_argument("prop")
    ap.add_argument("--tier", default=os.environ.get("VERIF_TIER", "quick"))
    ap.add_argument("--update-baseline", action="store_true")
    ap.add_argument("--replay")
    ap.add_argument("--jobs", type=int, default=min(16, os.cpu_count() or 4))
    ap.add_argument("--only")
    args = ap.parse_args(argv)
    prop = args.prop
    tier = args.tier if args.tier in ("quick", "thorough") else "quick"
    seed = int(os.environ.get("VERIF_SEED", "0") or 0)
    t0 = time.time()
    from checks import report
    if args.replay:
        return report.replay(prop, args.replay)
    try:
        R = specs.load_all(Registry())
    except Exception:
        traceback.print_exc()
        return report.fault(prop, tier, seed, "spec files failed to load", t0)
    targets = [t for t, c in R.contracts.items() if prop in c.props and not c.assumed and not c.inline]
    if args.only:
        targets = [t for t in targets if args.only in t]
    lemmas = [i for i, l in enumerate(R.lemmas) if prop in l["props"]]
    # bounded stand-in (labelled, never counted as proved): the property's replay harness enumerates small scenarios on the real
    # code while the proof obligations are discharged; only for the deterministic single-threaded harnesses
    harness_proc = None
    harness_path = os.path.join(HERE, "replay", "%s.py" % prop)
    if prop in BOUNDED_ALWAYS and os.path.exists(harness_path) and not args.only:
        import subprocess
        budget = "20" if tier == "quick" else "120"
        env = dict(os.environ, PYTHONPATH=os.environ.get("VERIF_REPO", "/repo"), VERIF_SEED=str(seed), PYTHONDONTWRITEBYTECODE="1",
                   VERIF_NO_REAL="1")      # Twisted harnesses: virtual-time reactor only (no wall-clock scenarios)
        harness_proc = (subprocess.Popen(["/venv/bin/python", harness_path, "--budget", budget], stdout=subprocess.PIPE,
                                         stderr=subprocess.STDOUT, text=True, env=env, cwd="/tmp"), budget, time.time())
    outs = []
    try:
        with mp.get_context("fork").Pool(args.jobs, initializer=_init_worker, initargs=(tier, seed)) as pool:
            jobs = [pool.apply_async(verify_one, (t,)) for t in targets]
            jobs += [pool.apply_async(verify_lemma, (i,)) for i in lemmas]
            for j in jobs:
                outs.append(j.get(timeout=3600))
            # phase 2: every obligation is one task
            flat = [(o, it) for o in outs for it in o.pop("obls", [])]
            flat.sort(key=lambda p: -p[1]["size"])
            # quick tier: once a handful of obligations have failed the verdict is settled; do not grind through
            # hundreds of 10 s timeouts (thorough runs everything)
            limit = 6 if tier == "quick" else 10 ** 9
            failed = 0
            skipped = 0
            by_name = {it["name"]: o for o, it in flat}
            done_names = set()
            for d in pool.imap_unordered(discharge_one, [it for _, it in flat], chunksize=1):
                by_name[d["name"]]["results"].append(d)
                done_names.add(d["name"])
                if d["status"] != "proved" and not d.get("known_finding"):
                    failed += 1
                    if failed >= limit:
                        pool.terminate()
                        skipped = len(flat) - len(done_names)
                        break
            EARLY_STOP["skipped"] = skipped
            for o in outs:
                o["results"].sort(key=lambda d: int(d["name"].rsplit("#", 1)[1]) if "#" in d["name"] else 0)
    except Exception:
        traceback.print_exc()
        return report.fault(prop, tier, seed, "worker pool failed", t0)
    # mechanical scans over the class table (side conditions of the contracts)
    from pyvc.loader import Repo as _Repo
    scan_repo = None
    for name, props, fn in R.scans:
        if prop not in props:
            continue
        if scan_repo is None:
            scan_repo = _Repo()
        ts = time.time()
        try:
            items = fn(scan_repo)
        except Exception as e:
            outs.append(dict(target="scan:" + name, results=[], error="crash: %s" % e, kind_err="fault", kind="scan"))
            continue
        res = []
        for label, ok, detail in items:
            res.append(dict(name="scan:%s/%s" % (name, label), status="proved" if ok else "refuted", backend="ast-scan",
                            time_s=0.0, kind="scan", line=0, detail=detail, model=None, witness={}, size=len(detail)))
        outs.append(dict(target="scan:" + name, results=res, error=None, kind="scan", wall_s=round(time.time() - ts, 3)))
    bounded = None
    if harness_proc is not None:
        proc, budget, th = harness_proc
        try:
            out_text, _ = proc.communicate(timeout=int(budget) * 3 + 60)
            rc_h = proc.returncode
        except Exception:
            proc.kill()
            out_text, rc_h = "harness timed out", 2
        lines_h = [l for l in (out_text or "").strip().splitlines() if l.strip()]
        bounded = dict(tool="replay/%s.py (enumeration of small scenarios on the real code, oracle from the statement)" % prop,
                       bound="budget %s s, seed %d" % (budget, seed), wall_s=round(time.time() - th, 1), exit=rc_h,
                       summary=lines_h[-1][:300] if lines_h else "")
        if rc_h == 1:
            try:
                bounded["failing"] = json.loads(lines_h[-1])
            except Exception:
                bounded["failing"] = dict(scenario=None, observed=(out_text or "")[-1500:], required=None)
    return report.finish(prop, tier, seed, R, outs, t0, update_baseline=args.update_baseline, skipped=EARLY_STOP["skipped"], bounded=bounded)


def _main_with_scratch():
    """every temporary file of a run (solver inputs, harness scratch directories) lives in one directory that is removed at the end,
    also when worker processes were stopped early"""
    import shutil
    import tempfile
    work = tempfile.mkdtemp(prefix="verif_run_")
    os.environ["TMPDIR"] = work
    tempfile.tempdir = work
    try:
        return main()
    finally:
        shutil.rmtree(work, ignore_errors=True)


if __name__ == "__main__":
    sys.exit(_main_with_scratch())
