"""Replay / counterexample search for C17: tags are scoped.

ORACLE (written from the property statement, not from the code).  A tiny
reference model keeps a run-level tag set and, while a test is open, a
test-local copy of it.  startTestRun empties everything; startTest opens the
copy; tags(new, gone) adds/removes on the copy if a test is open, else on the
run-level set; stopTest throws the copy away (and is a no-op when no test is
open: the startTest-less addSkip + stopTest pair of unittest 3.12.1).  A
Tagger is "tags(new, gone) right after every startTest"; a PlaceHolder run
with tags T is a test whose tags are (current | T) and which leaves the
run-level tags as they were.  Checked against the real code:
 1. after EVERY call, reporter.current_tags == model tags (reporter = the
    outermost object of the adapter stack);
 2. for every leaf result below the stack, the tags in force at each outcome
    (rebuilt by the same model from the leaf's event log - doubles
    .ExtendedTestResult._events - and, for a real TestResult leaf, read from
    its current_tags inside the outcome call; for TestByTestResult the tags
    handed to on_test) == the reporter's model tags at that test's outcome;
 3. test_tags of each final status event seen by a doubles.StreamResult placed
    behind ExtendedToStreamDecorator == the same per-outcome tags.
Any exception escaping a library call of a well-formed history is a violation.

ENUMERATION.  Scenario = {"stack": [adapters, outermost first], "leaf": kind,
"history": [ops]}.  Adapters: etod, multi, deco, tagger (or ["tagger", new,
gone]), tfr, stream (= ExtendedToStreamDecorator -> [doubles.StreamResult,
StreamToExtendedDecorator -> inner]).  Leaves: plain (TestResult), text, probe
(logging TestResult subclass), ext / py27 (doubles), tbt (TestByTestResult).
Ops: ["run"], ["tags", new, gone], ["start", id], ["add", id, kind],
["stop", id], ["ph", id, tags, kind] (PlaceHolder(...).run(reporter)).
Phase 1: exhaustive two-test histories (run-level change, test with a local
change | bare skip | PlaceHolder, run-level change or new run, second test)
x all stacks of depth 0..2.  Phase 2: seeded random histories (0..4 tests,
several runs, alphabet a,b,c) over random stacks of depth 0..3 (VERIF_SEED).
Phases 3 and 4: the same two again, now with tags() calls between a test's
outcome and its stopTest (kept last so that they cannot mask the rest).
Not covered on purpose: bare skip sent straight into doubles.ExtendedTestResult
or TestByTestResult (they fail for reasons unrelated to tags), Taggers below a
buffering layer (order of tagger vs replayed tags is unspecified).
"""

import argparse
import io
import itertools
import json
import os
import random
import sys
import threading
import time

KINDS = {"success": "addSuccess", "failure": "addFailure", "error": "addError", "skip": "addSkip",
         "xfail": "addExpectedFailure", "uxsuccess": "addUnexpectedSuccess"}
ADAPTERS = ["etod", "multi", "deco", "tagger", "tfr", "stream"]
PASS_THROUGH = ("etod", "deco", "tagger")
FINAL = ("success", "fail", "skip", "xfail", "uxsuccess")


class Unsupported(Exception):
    pass


class Violation(Exception):
    def __init__(self, observed, required):
        Exception.__init__(self, observed)
        self.observed, self.required = observed, required


class Model:
    """The property statement, executable."""

    def __init__(self):
        self.run, self.local = set(), None

    def start_run(self):
        self.run, self.local = set(), None

    def start(self):
        self.local = set(self.run)

    def stop(self):
        self.local = None

    def tags(self, new, gone):
        target = self.run if self.local is None else self.local
        target.update(new)
        target.difference_update(gone)

    def current(self):
        return set(self.run if self.local is None else self.local)


def name(token):
    return token if isinstance(token, str) else token[0]


def tagger_args(token):
    return (["T"], ["a"]) if isinstance(token, str) else (token[1], token[2])


def check_supported(sc):
    stack, leaf, hist = [name(t) for t in sc["stack"]], sc["leaf"], sc["history"]
    if leaf not in ("plain", "text", "probe", "ext", "py27", "tbt") or any(a not in ADAPTERS for a in stack):
        raise Unsupported("unknown adapter or leaf")
    if not stack and leaf in ("ext", "py27"):
        raise Unsupported("doubles are instruments, not reporters")
    if leaf == "py27" and stack[-1] in ("deco", "tagger"):
        raise Unsupported("TestResultDecorator needs a full-API target")
    for i, a in enumerate(stack):
        if a == "tagger" and any(b not in PASS_THROUGH for b in stack[:i]):
            raise Unsupported("tagger below a buffering layer")
    open_test, bare = None, False
    for n, op in enumerate(hist):
        k = op[0]
        if n == 0 and k != "run":
            raise Unsupported("history must begin with startTestRun")
        if k in ("run", "ph", "start") and open_test is not None:
            raise Unsupported("malformed history at step %d" % n)
        if k == "tags" and set(op[1]) & set(op[2]):
            raise Unsupported("new and gone must be disjoint")
        if k == "start":
            open_test = op[1]
        elif k == "add":
            if op[2] not in KINDS:
                raise Unsupported("unknown outcome")
            if open_test is None:
                if op[2] != "skip":
                    raise Unsupported("only skip may come without startTest")
                open_test, bare = op[1], True
        elif k == "stop":
            if open_test != op[1]:
                raise Unsupported("malformed history at step %d" % n)
            open_test = None
        elif k not in ("run", "tags", "ph"):
            raise Unsupported("unknown op")
    if open_test is not None:
        raise Unsupported("unfinished test")
    # every leaf instance (multi adds one at its own level) needs a layer above
    # it that supplies the missing startTest
    above = [stack] + [stack[:i] for i, a in enumerate(stack) if a == "multi"]
    if bare and leaf in ("ext", "tbt") and not all({"tfr", "stream"} & set(s) for s in above):
        raise Unsupported("bare skip straight into a result that cannot take it")


def make_leaf(kind, obs):
    import testtools
    from testtools.testresult import doubles
    from testtools.testresult.real import TestByTestResult

    class Probe(testtools.TestResult):
        def __init__(self):
            testtools.TestResult.__init__(self)
            self.log, self.seen = [], []

        def startTestRun(self):
            self.log.append(("startTestRun",))
            testtools.TestResult.startTestRun(self)

        def startTest(self, test):
            self.log.append(("startTest", test))
            testtools.TestResult.startTest(self, test)

        def stopTest(self, test):
            self.log.append(("stopTest", test))
            testtools.TestResult.stopTest(self, test)

        def tags(self, new, gone):
            self.log.append(("tags", set(new), set(gone)))
            testtools.TestResult.tags(self, new, gone)

    def outcome(meth):
        def add(self, test, *args, **kwargs):
            self.log.append((meth, test))
            self.seen.append((test.id(), sorted(self.current_tags)))
            return getattr(testtools.TestResult, meth)(self, test, *args, **kwargs)
        return add
    for meth in KINDS.values():
        setattr(Probe, meth, outcome(meth))

    if kind == "plain":
        return testtools.TestResult()
    if kind == "text":
        return testtools.TextTestResult(io.StringIO())
    if kind == "tbt":
        calls = []
        obs.append(("tbt", calls))
        return TestByTestResult(lambda test, tags, **kw: calls.append((test.id(), sorted(tags))))
    leaf = {"probe": Probe, "ext": doubles.ExtendedTestResult, "py27": doubles.Python27TestResult}[kind]()
    if kind != "py27":
        obs.append((kind, leaf))
    return leaf


def build(stack, leaf, obs):
    from testtools.testresult import doubles, real
    if not stack:
        return make_leaf(leaf, obs)
    head, inner = stack[0], build(stack[1:], leaf, obs)
    kind = name(head)
    if kind == "etod":
        return real.ExtendedToOriginalDecorator(inner)
    if kind == "multi":
        return real.MultiTestResult(inner, make_leaf(leaf, obs))
    if kind == "deco":
        return real.TestResultDecorator(inner)
    if kind == "tagger":
        new, gone = tagger_args(head)
        return real.Tagger(inner, set(new), set(gone))
    if kind == "tfr":
        return real.ThreadsafeForwardingResult(inner, threading.Semaphore(1))
    stream = doubles.StreamResult()
    obs.append(("stream", stream))
    return real.ExtendedToStreamDecorator(
        real.CopyStreamResult([stream, real.StreamToExtendedDecorator(inner)]))


def rebuild(log):
    """Tags in force at each outcome of an event log, by the model."""
    m, out = Model(), []
    for ev in log:
        if ev[0] == "startTestRun":
            m.start_run()
        elif ev[0] == "startTest":
            m.start()
        elif ev[0] == "stopTest":
            m.stop()
        elif ev[0] == "tags":
            m.tags(ev[1], ev[2])
        elif ev[0] in KINDS.values():
            out.append((ev[1].id(), sorted(m.current())))
    return out


def run_scenario(sc):
    """Raise Violation if the real code breaks the property on sc."""
    from testtools import PlaceHolder
    from testtools.content import text_content
    check_supported(sc)
    obs = []
    rep = build(sc["stack"], sc["leaf"], obs)
    taggers = [tagger_args(t) for t in sc["stack"] if name(t) == "tagger"]
    model, expected, fuzzy, tests = Model(), [], set(), {}
    in_run, last_add = False, None

    def details():
        return {"note": text_content("x")}

    def model_start():
        model.start()
        for new, gone in taggers:
            model.tags(new, gone)

    for n, op in enumerate(sc["history"]):
        k = op[0]
        test = tests.setdefault(op[1], PlaceHolder(op[1])) if k in ("start", "add", "stop") else None
        try:
            if k == "run":
                if in_run:
                    rep.stopTestRun()
                rep.startTestRun()
            elif k == "tags":
                rep.tags(set(op[1]), set(op[2]))
            elif k == "start":
                rep.startTest(test)
            elif k == "stop":
                rep.stopTest(test)
            elif k == "add" and op[2] == "skip":
                rep.addSkip(test, "why")
            elif k == "add":
                getattr(rep, KINDS[op[2]])(test, details=details())
            else:
                PlaceHolder(op[1], outcome=KINDS[op[3]], details=details(), tags=set(op[2])).run(rep)
        except Exception as e:
            raise Violation("step %d %s raised %r" % (n, json.dumps(op), e),
                            "well-formed calls are accepted and current_tags stays defined")
        if k == "run":
            model.start_run()
            in_run = True
        elif k == "tags":
            model.tags(op[1], op[2])
            if last_add is not None:
                fuzzy.add(last_add)  # changed between outcome and stopTest
        elif k == "start":
            model_start()
        elif k == "add":
            expected.append((op[1], sorted(model.current())))
            last_add = op[1]
        elif k == "stop":
            model.stop()
            last_add = None
        else:
            before = set(model.run)
            model.tags(op[2], ())
            model_start()
            expected.append((op[1], sorted(model.current())))
            model.stop()
            model.run = before
        try:
            got = set(rep.current_tags)
        except Exception as e:
            raise Violation("current_tags after step %d %s raised %r" % (n, json.dumps(op), e),
                            "current_tags == %s" % sorted(model.current()))
        if got != model.current():
            raise Violation("reporter current_tags after step %d %s is %s" % (n, json.dumps(op), sorted(got)),
                            "current_tags == %s (added minus removed since startTestRun, "
                            "test-local changes dropped at stopTest)" % sorted(model.current()))
    try:
        rep.stopTestRun()
    except Exception as e:
        raise Violation("stopTestRun raised %r" % (e,), "well-formed calls are accepted")
    for kind, what in obs:
        if kind == "stream":
            seen = [(e.test_id, sorted(e.test_tags or ())) for e in what._events
                    if e[0] == "status" and e.test_status in FINAL]
        elif kind == "tbt":
            seen = [(i, t if i not in fuzzy else dict(expected).get(i)) for i, t in what]
        elif kind == "probe":
            seen = what.seen
            if rebuild(what.log) != expected:
                seen = rebuild(what.log)
        else:
            seen = rebuild(what._events)
        if [list(x) for x in seen] != [list(x) for x in expected]:
            raise Violation("%s observer saw (test, tags) at outcomes: %s" % (kind, json.dumps(seen)),
                            "tags current in the reporter at each outcome: %s" % json.dumps(expected))


# ---------------------------------------------------------------- enumeration

def stacks(max_depth):
    out = []
    for depth in range(max_depth + 1):
        for stack in itertools.product(ADAPTERS, repeat=depth):
            for leaf in ("plain", "text", "probe", "tbt") if depth == 0 else \
                    ("probe", "ext", "py27", "tbt") if depth == 1 else ("probe", "ext"):
                out.append((list(stack), leaf))
    return out


def test_ops(tid, shape, kind):
    if shape == "bare":
        return [["add", tid, "skip"], ["stop", tid]]
    if shape[0] == "ph":
        return [["ph", tid, shape[1], kind]]
    ops = [["start", tid]]
    if shape[1]:
        ops.append(["tags"] + shape[1])
    ops.append(["add", tid, kind])
    if shape[2]:
        ops.append(["tags"] + shape[2])
    return ops + [["stop", tid]]


def small_histories(post):
    kinds = itertools.cycle(sorted(KINDS))
    if post:
        g0s, g1s = [None, [["a"], []]], [None]
        shapes1 = [("n", pre, po) for pre in (None, [["b"], []])
                   for po in ([["x"], []], [[], ["a"]], [["x"], ["a"]])]
        shapes2 = [("n", None, None)]
    else:
        g0s = [None, [["a"], []], [["a", "b"], []]]
        g1s = [None, [[], ["a"]], [["b"], ["a"]], "run"]
        shapes1 = shapes2 = [("n", p, None) for p in (None, [["a"], []], [[], ["a"]], [["c"], ["a"]])] \
            + ["bare", ("ph", ["a", "p"])]
    for g0, s1, g1, s2 in itertools.product(g0s, shapes1, g1s, shapes2):
        h = [["run"]] + ([["tags"] + g0] if g0 else []) + test_ops("t0", s1, next(kinds))
        h += [["run"]] if g1 == "run" else [["tags"] + g1] if g1 else []
        yield h + test_ops("t1", s2, next(kinds))


def random_scenario(rng, post):
    def change():
        new = [t for t in "abc" if rng.random() < 0.4]
        return ["tags", new, [t for t in "abc" if t not in new and rng.random() < 0.3]]
    stack = [rng.choice(ADAPTERS) for _ in range(rng.randint(0, 3))]
    stack = [["tagger", ["T", "b"], ["a", "c"]] if a == "tagger" and rng.random() < 0.5 else a for a in stack]
    leaf = rng.choice(["plain", "text", "probe", "tbt"] if not stack else ["probe", "ext", "py27", "tbt"])
    h = [["run"]]
    for i in range(rng.randint(0, 4)):
        if rng.random() < 0.15:
            h.append(["run"])
        h += [change() for _ in range(rng.choice([0, 1, 1, 2]))]
        tid, kind = "t%d" % i, rng.choice(sorted(KINDS))
        shape = rng.choice(["n", "n", "n", "bare", "ph"])
        if shape == "n":
            h.append(["start", tid])
            h += [change() for _ in range(rng.choice([0, 1, 1, 2]))]
            h.append(["add", tid, kind])
            h += [change()] if post and rng.random() < 0.3 else []
            h.append(["stop", tid])
        else:
            h += test_ops(tid, "bare" if shape == "bare" else ("ph", change()[1]), kind)
    h += [change()] if rng.random() < 0.5 else []
    return {"stack": stack, "leaf": leaf, "history": h}


def scenarios(seed):
    """(phase share of the budget, iterator of scenarios)."""
    def product(post, depth):
        for h in small_histories(post):
            for stack, leaf in stacks(depth):
                yield {"stack": stack, "leaf": leaf, "history": h}

    def rand(post, count):
        rng = random.Random(seed + post)
        for _ in range(count):
            yield random_scenario(rng, post)
    return [(0.5, product(False, 2)), (0.75, rand(0, 4000)), (0.85, product(True, 2)), (1.0, rand(1, 2000))]


def priority(target):
    table = {"ThreadsafeForwardingResult": "tfr", "_merge_tags": "tfr", "MultiTestResult": "multi",
             "ExtendedToStreamDecorator": "stream", "StreamToExtendedDecorator": "stream",
             "_StreamToTestRecord": "stream", "_TestRecord": "stream", "PlaceHolder": "ph", "Tagger": "tagger",
             "ExtendedToOriginalDecorator": "etod", "TestResultDecorator": "deco",
             "TestByTestResult": "tbt", "TextTestResult": "text"}
    for cls, token in table.items():
        if cls in (target or ""):
            return token
    return None


def relevant(sc, token):
    return token in [name(t) for t in sc["stack"]] or token == sc["leaf"] or \
        (token in ("ph", "stream") and any(op[0] == "ph" for op in sc["history"]))


def report(sc, v):
    print(json.dumps({"scenario": sc, "observed": v.observed, "required": v.required}))
    return 1


def main(argv):
    ap = argparse.ArgumentParser()
    ap.add_argument("--budget", type=float, default=60.0)
    ap.add_argument("--from-obligation")
    ap.add_argument("--scenario")
    args = ap.parse_args(argv)
    if args.scenario:
        sc = json.loads(args.scenario)
        try:
            run_scenario(sc)
        except Violation as v:
            return report(sc, v)
        print("scenario holds")
        return 0
    token = None
    if args.from_obligation:
        try:
            token = priority(json.loads(args.from_obligation).get("target"))
        except Exception:
            token = None
    t0, count, skipped = time.time(), 0, 0
    for share, gen in scenarios(int(os.environ.get("VERIF_SEED", "0"))):
        deadline = t0 + args.budget * share
        passes = [lambda s: relevant(s, token), lambda s: not relevant(s, token)] if token else [lambda s: True]
        gen = list(gen) if token else gen
        for keep in passes:
            for sc in gen:
                if not keep(sc):
                    continue
                if time.time() > deadline:
                    break
                try:
                    run_scenario(sc)
                    count += 1
                except Unsupported:
                    skipped += 1
                except Violation as v:
                    print("violation after %d scenarios, %.1fs" % (count, time.time() - t0))
                    return report(sc, v)
    print("C17: %d scenarios hold (%d combinations not applicable), %.1fs" % (count, skipped, time.time() - t0))
    return 0


if __name__ == "__main__":
    try:
        code = main(sys.argv[1:])
    except SystemExit:
        raise
    except BaseException:
        import traceback
        traceback.print_exc()
        code = 2
    sys.exit(code)
