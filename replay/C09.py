#!/usr/bin/env python
"""C09 replay / counterexample search: TestResult -> StreamResult -> TestResult round trip.

A scenario is a well-formed TestResult history (JSON): startTestRun (explicit, or
implied by the first startTest), then per test optional run-level tags(), time(),
startTest, optional test-local tags(), time(), one outcome (details, exc_info or skip
reason), stopTest; finally stopTestRun.  It is fed to ExtendedToStreamDecorator whose
events go both to a doubles.StreamResult log and to StreamToExtendedDecorator wrapping
a doubles.ExtendedTestResult (or Python27TestResult) log.

ORACLE (from the property statement only, judged on the two event logs):
 stream: startTestRun, then per test in order: one 'inprogress' status event (same id,
   no file, the supplied start time), then only file events for that id: per detail one
   event per chunk, same bytes in chunk order (a chunk-less detail: nothing or one b""),
   eof False on all but the last and True on the last, mime type naming the detail's
   type/subtype, the supplied outcome time; a skip reason travels as its utf8 bytes, an
   exc_info as a 'traceback' file containing the message; then exactly one final status
   event (success/fail/skip/xfail/uxsuccess; error and failure are both 'fail') with the
   tags current at the outcome and the outcome time; then stopTestRun.
 final log: startTestRun, per test in order exactly one startTest/outcome/stopTest
   bracket with the same id and outcome method (error -> addFailure), the tags in force
   at the outcome (tags events replayed with test scoping) equal to the reporter's, the
   last time() before startTest / before the outcome equal to the supplied ones, every
   detail whose bytes are non-empty present with identical bytes and equal type, subtype
   and parameters, no invented details, the skip reason text preserved; stopTestRun.
 Any exception or hang inside testtools is a violation.  Harness errors exit 2.

ENUMERATION: exhaustive small families (chunk lists of length 0..3 over {b"", b"a",
binary} x 6 outcomes; 0..3 details x 4 chunk shapes x non-ASCII names; 14 content types
x text/binary x chunkings; outcome x {no details, {}, details, exc_info, reason} x final
result kind x explicit/implicit startTestRun; run-level/test-local tag changes over two
tests; supplied/absent times over two tests; all outcome sequences of 0..3 tests), then
seeded random histories (VERIF_SEED) of 0..6 tests with 0..4 details of 0..5 chunks.
"""

import argparse
import datetime
import itertools
import json
import os
import random
import signal
import sys
import time
import traceback

BASE = datetime.datetime(2000, 1, 1, tzinfo=datetime.timezone.utc)
# kind -> (reporter method, stream status, replayed method)
OUTCOMES = {
    "success": ("addSuccess", "success", "addSuccess"),
    "error": ("addError", "fail", "addFailure"),
    "failure": ("addFailure", "fail", "addFailure"),
    "skip": ("addSkip", "skip", "addSkip"),
    "xfail": ("addExpectedFailure", "xfail", "addExpectedFailure"),
    "uxsuccess": ("addUnexpectedSuccess", "uxsuccess", "addUnexpectedSuccess"),
}
NEEDS_PAYLOAD = ("error", "failure", "xfail")
BIN = ["application", "octet-stream", {}]
CTYPES = [
    BIN,
    ["text", "plain", {"charset": "utf8"}],
    ["text", "plain", {}],
    ["text", "plain", {"charset": "UTF-8"}],
    ["text", "plain", {"charset": "iso-8859-1"}],
    ["text", "x-traceback", {"charset": "utf8", "language": "python"}],
    ["application", "json", {}],
    ["application", "x-subunit", {"version": "2"}],
    ["image", "png", {"a": "1", "b": "two", "c-d": "E.f_g"}],
    ["application", "vnd.x+json", {"profile": "x y"}],
    ["text", "html", {"charset": "utf-16", "q": "0.8"}],
    ["multipart", "mixed", {"boundary": "----=_Part_1.2"}],
    ["application", "x-tar", {"level9": "A=b;c"}],
    ["text", "csv", {"header": "present", "charset": "us-ascii"}],
]
NAMES = ["a", "naïve", "日本", "reason", "traceback", "log file.txt"]
IDS = ["t", "pkg.mod.Case.test_x", "tést.☃", "a b", ""]
REASONS = ["", "r", "rêásøn ☃", "two\nlines"]


class Violation(Exception):
    def __init__(self, observed, required):
        Exception.__init__(self, observed)
        self.observed, self.required = observed, required


class Hang(BaseException):
    pass


# ---------------------------------------------------------------- scenario builders
def D(name, ctype, chunks):
    return [name, ctype, [c.hex() for c in chunks or []]]


def T(outcome="success", id="t", details=None, exc=None, reason=None, pre_tags=None,
      local_tags=None, t_start=None, t_end=None):
    if outcome in NEEDS_PAYLOAD and details is None and exc is None:
        details = []
    return dict(id=id, outcome=outcome, details=details, exc=exc, reason=reason,
                pre_tags=pre_tags, local_tags=local_tags, t_start=t_start, t_end=t_end)


def enc(ct, text):
    """Bytes that are a valid payload for content type ct (text types hold text in their charset)."""
    return text.encode(ct[2].get("charset", "iso-8859-1") if ct[0] == "text" else "utf8", "replace")


def skip_safe(kind, details):
    """On a skip the detail name 'reason' is reserved for the (text) skip reason."""
    return [["reason." if kind == "skip" and d[0] == "reason" else d[0]] + d[1:] for d in details]


def S(tests, final="extended", explicit_start=True):
    return dict(final=final, explicit_start=explicit_start, tests=list(tests))


# ---------------------------------------------------------------- running a scenario
def _ts(value):
    if isinstance(value, datetime.datetime) and value.tzinfo is not None:
        return (value - BASE).total_seconds()
    return None if value is None else repr(value)


def _ctype(ct):
    return [ct.type, ct.subtype, dict(ct.parameters)]


def _payload(p):
    if p is None or isinstance(p, str):
        return p
    if isinstance(p, dict):
        return {k: {"type": _ctype(v.content_type), "bytes": b"".join(v.iter_bytes()).hex()}
                for k, v in p.items()}
    if isinstance(p, tuple) and len(p) == 3:
        return {"exc_info": str(p[1])}
    return {"unknown": repr(p)}


def run(sc):
    """Drive the real converters; return (stream log, final log) in JSON-able form."""
    from testtools import PlaceHolder
    from testtools.content import Content
    from testtools.content_type import ContentType
    from testtools.testresult import doubles
    from testtools.testresult.real import ExtendedToStreamDecorator, StreamToExtendedDecorator

    class Tee:  # forwards startTestRun / stopTestRun / status to every target
        def __init__(self, *targets):
            self.targets = targets

        def __getattr__(self, name):
            return lambda *args, **kwargs: [getattr(t, name)(*args, **kwargs) for t in self.targets]

    mid = doubles.StreamResult()
    final = (doubles.Python27TestResult if sc["final"] == "py27" else doubles.ExtendedTestResult)()
    rep = ExtendedToStreamDecorator(Tee(mid, StreamToExtendedDecorator(final)))
    tests = sc["tests"]
    first = tests[0] if tests else None
    if (sc["explicit_start"] or first is None or first["pre_tags"]
            or first["t_start"] is not None):
        rep.startTestRun()
    for t in tests:
        case = PlaceHolder(t["id"])
        if t["pre_tags"]:
            rep.tags(set(t["pre_tags"][0]), set(t["pre_tags"][1]))
        if t["t_start"] is not None:
            rep.time(BASE + datetime.timedelta(seconds=t["t_start"]))
        rep.startTest(case)
        if t["local_tags"]:
            rep.tags(set(t["local_tags"][0]), set(t["local_tags"][1]))
        if t["t_end"] is not None:
            rep.time(BASE + datetime.timedelta(seconds=t["t_end"]))
        kwargs = {}
        if t["details"] is not None:
            kwargs["details"] = {
                name: Content(ContentType(ct[0], ct[1], dict(ct[2])),
                              lambda chunks=chunks: iter([bytes.fromhex(c) for c in chunks]))
                for name, ct, chunks in t["details"]}
        method = getattr(rep, OUTCOMES[t["outcome"]][0])
        if t["exc"] is not None:
            try:
                raise ValueError(t["exc"])
            except ValueError:
                method(case, sys.exc_info())
        elif t["reason"] is not None:
            method(case, t["reason"])
        else:
            method(case, **kwargs)
        rep.stopTest(case)
    rep.stopTestRun()
    stream = []
    for e in mid._events:
        if e[0] != "status":
            stream.append(e[0])
            continue
        d = e._asdict()
        d.pop("name")
        d["file_bytes"] = None if d["file_bytes"] is None else bytes(d["file_bytes"]).hex()
        d["test_tags"] = None if d["test_tags"] is None else sorted(d["test_tags"])
        d["timestamp"] = _ts(d["timestamp"])
        stream.append(d)
    log = []
    for e in final._events:
        if e[0] == "time":
            log.append(["time", _ts(e[1])])
        elif e[0] == "tags":
            log.append(["tags", sorted(e[1]), sorted(e[2])])
        elif e[0] in ("startTest", "stopTest"):
            log.append([e[0], e[1].id()])
        elif e[0].startswith("add"):
            log.append([e[0], e[1].id(), _payload(e[2] if len(e) > 2 else None)])
        else:
            log.append([str(x) for x in e])
    return stream, log


# ---------------------------------------------------------------- the oracle
def expectations(sc):
    """What the history itself says: per test the times and tags in force."""
    out, run_tags, now = [], set(), None
    for t in sc["tests"]:
        if t["pre_tags"]:
            run_tags = (run_tags | set(t["pre_tags"][0])) - set(t["pre_tags"][1])
        now = t["t_start"] if t["t_start"] is not None else now
        start, tags = now, set(run_tags)
        if t["local_tags"]:
            tags = (tags | set(t["local_tags"][0])) - set(t["local_tags"][1])
        now = t["t_end"] if t["t_end"] is not None else now
        out.append(dict(start=start, end=now, tags=sorted(tags)))
    return out


def need(cond, observed, required):
    if not cond:
        raise Violation(observed, required)


def check_stream(sc, stream):
    need(stream[:1] == ["startTestRun"] and stream[-1:] == ["stopTestRun"] and len(stream) >= 2
         and all(isinstance(e, dict) for e in stream[1:-1]),
         {"stream": stream[:1] + stream[-1:]}, "stream is startTestRun, status events, stopTestRun")
    body, pos = stream[1:-1], 0
    for n, (t, x) in enumerate(zip(sc["tests"], expectations(sc))):
        where = "test #%d (%r): " % (n, t["id"])
        need(pos < len(body), "stream ended before " + where, where + "an 'inprogress' event")
        e = body[pos]
        need(e["test_id"] == t["id"] and e["test_status"] == "inprogress" and e["file_name"] is None
             and (x["start"] is None or e["timestamp"] == x["start"]), {"event": e},
             where + "first an 'inprogress' event at startTest with timestamp %r" % x["start"])
        pos += 1
        files = {}
        while pos < len(body) and body[pos]["test_status"] is None:
            e = body[pos]
            need(e["test_id"] == t["id"] and e["file_name"] is not None and e["file_bytes"] is not None
                 and (x["end"] is None or e["timestamp"] == x["end"]), {"event": e},
                 where + "file events for this test id carrying the outcome time %r" % x["end"])
            files.setdefault(e["file_name"], []).append(e)
            pos += 1
        for name, ct, chunks in t["details"] or []:
            got = files.pop(name, [])
            want = chunks if chunks else ([e["file_bytes"] for e in got] if len(got) <= 1 else None)
            need([e["file_bytes"] for e in got] == want
                 and [e["eof"] for e in got] == [False] * (len(got) - 1) + [True] * bool(got)
                 and all(str(e["mime_type"]).startswith("%s/%s" % (ct[0], ct[1])) for e in got)
                 and b"".join(bytes.fromhex(e["file_bytes"]) for e in got) == b"".join(map(bytes.fromhex, chunks)),
                 {"detail": name, "events": got},
                 where + "one file event per chunk %r of type %s/%s, eof exactly on the last" % (chunks, ct[0], ct[1]))
        for name, text in (("reason", t["reason"]), ("traceback", t["exc"])):
            if text is None:
                continue
            got = files.pop(name, [])
            data = b"".join(bytes.fromhex(e["file_bytes"]) for e in got)
            ok = data == text.encode("utf8") if name == "reason" else text.encode("utf8") in data
            need(got and ok and [e["eof"] for e in got] == [False] * (len(got) - 1) + [True],
                 {"detail": name, "events": got}, where + "a %r file carrying %r, eof exactly on its last event" % (name, text))
        need(not files, {"unexpected file events": files}, where + "file events only for the supplied details")
        need(pos < len(body), "stream ended before final status of " + where, where + "exactly one final status event")
        e = body[pos]
        need(e["test_id"] == t["id"] and e["test_status"] == OUTCOMES[t["outcome"]][1] and e["file_name"] is None
             and (e["test_tags"] or []) == x["tags"] and (x["end"] is None or e["timestamp"] == x["end"]), {"event": e},
             where + "after the file events one final status %r with tags %r and timestamp %r"
             % (OUTCOMES[t["outcome"]][1], x["tags"], x["end"]))
        pos += 1
    need(pos == len(body), {"extra events": body[pos:]}, "no stream events beyond those of the reported tests")


def check_final(sc, log):
    extended = sc["final"] != "py27"
    need(log[:1] == [["startTestRun"]] and log[-1:] == [["stopTestRun"]] and len(log) >= 2,
         {"final log": log[:1] + log[-1:]}, "final log starts with startTestRun and ends with stopTestRun")
    body, pos, run_tags, now = log[1:-1], 0, set(), None
    for n, (t, x) in enumerate(zip(sc["tests"], expectations(sc))):
        where = "test #%d (%r): " % (n, t["id"])
        bracket = where + "one startTest/%s/stopTest bracket for this id" % OUTCOMES[t["outcome"]][2]
        tags = None
        for stage in ("startTest", OUTCOMES[t["outcome"]][2], "stopTest"):
            while pos < len(body) and body[pos][0] in ("time", "tags") and extended:
                if body[pos][0] == "time":
                    now = body[pos][1]
                else:
                    target = run_tags if tags is None else tags
                    target |= set(body[pos][1])
                    target -= set(body[pos][2])
                pos += 1
            need(pos < len(body) and body[pos][:2] == [stage, t["id"]],
                 {"final log event": body[pos] if pos < len(body) else None, "position": pos}, bracket)
            if stage == "startTest":
                tags = set(run_tags)
                need(not extended or x["start"] is None or now == x["start"], {"time before startTest": now},
                     where + "startTest at the supplied time %r" % x["start"])
            elif stage != "stopTest":
                need(not extended or x["end"] is None or now == x["end"], {"time before outcome": now},
                     where + "outcome at the supplied time %r" % x["end"])
                need(not extended or sorted(tags) == x["tags"], {"tags at outcome": sorted(tags)},
                     where + "outcome reported under tags %r" % x["tags"])
                check_payload(t, body[pos][2], extended, where)
            pos += 1
    rest = [e for e in body[pos:] if e[0] not in ("time", "tags")]
    need(not rest, {"extra events": rest}, "no test events beyond those of the reported tests")


def check_payload(t, got, extended, where):
    supplied = {name: (ct, b"".join(map(bytes.fromhex, chunks)).hex()) for name, ct, chunks in t["details"] or []}
    reason = t["reason"]
    if reason is None and t["outcome"] == "skip" and "reason" in supplied:
        try:
            reason = bytes.fromhex(supplied["reason"][1]).decode(supplied["reason"][0][2].get("charset", "latin-1"))
        except (UnicodeDecodeError, LookupError):
            reason = None
    if extended and isinstance(got, str):  # a bare reason string is as good as a reason detail
        need(t["reason"] is not None and got == t["reason"] and not supplied, {"payload": got},
             where + "the supplied details / skip reason %r" % t["reason"])
        return
    if not extended:  # Python 2.7 style result: only reason strings and exc_info tuples are observable
        if t["outcome"] == "skip" and reason is not None:
            need(got == reason, {"skip reason": got}, where + "skip reason %r" % reason)
        if t["exc"] is not None:
            need(isinstance(got, dict) and t["exc"] in got.get("exc_info", ""), {"error": got},
                 where + "an error mentioning %r" % t["exc"])
        return
    got = dict(got or {})
    need("exc_info" not in got and "unknown" not in got, {"payload": got}, where + "details passed to an extended result")
    for name, (ct, data) in supplied.items():
        have = got.pop(name, None)
        need(have == {"type": ct, "bytes": data} or (data == "" and (have is None or have["bytes"] == "")),
             {"detail": name, "got": have}, where + "detail %r with bytes %s and content type %r" % (name, data, ct))
    if t["reason"] is not None:
        have = got.pop("reason", None)
        text = None if have is None else bytes.fromhex(have["bytes"]).decode("utf8", "replace")
        need(text == t["reason"] or (have is None and t["reason"] == ""), {"reason detail": have},
             where + "skip reason %r" % t["reason"])
    if t["exc"] is not None:
        have = got.pop("traceback", None)
        need(have is not None and have["type"][:2] == ["text", "x-traceback"]
             and t["exc"] in bytes.fromhex(have["bytes"]).decode(have["type"][2].get("charset", "utf8"), "replace"),
             {"traceback detail": have}, where + "a text/x-traceback detail mentioning %r" % t["exc"])
    need(not got, {"invented details": got}, where + "only the supplied details")


def judge(sc):
    """Return None if the property holds on sc, else (observed, required)."""
    def alarm(*_):
        raise Hang()
    old = signal.signal(signal.SIGALRM, alarm)
    signal.setitimer(signal.ITIMER_REAL, 10)
    try:
        stream, log = run(sc)
    except Hang:
        return "testtools did not finish the conversion within 10s", "the conversion terminates"
    except Exception:
        return ({"exception": traceback.format_exc().splitlines()[-6:]},
                "a well-formed history converts without raising")
    finally:
        signal.setitimer(signal.ITIMER_REAL, 0)
        signal.signal(signal.SIGALRM, old)
    try:
        check_stream(sc, stream)
        check_final(sc, log)
    except Violation as v:
        return v.observed, v.required
    return None


# ---------------------------------------------------------------- enumeration
def fam_chunks():
    alphabet = [b"", b"a", b"\xff\x00\n"]
    for n in range(4):
        for chunks in itertools.product(alphabet, repeat=n):
            for kind in OUTCOMES:
                yield S([T(kind, details=[D("détail", BIN, chunks)])])


def fam_details():
    shapes = [[], [""], ["x"], ["x", "", "yéz"]]
    for k in range(4):
        for combo in itertools.product(range(4), repeat=k):
            for kind in ("success", "failure", "skip"):
                yield S([T(kind, id=IDS[k], details=skip_safe(kind, [
                    D(NAMES[(i + k) % len(NAMES)], ct, [enc(ct, piece) for piece in shapes[c]])
                    for i, c in enumerate(combo) for ct in [CTYPES[(i + c + k) % len(CTYPES)]]]))])


def fam_ctypes():
    for ct in CTYPES:
        for data in (enc(ct, "héllo ☃\n"), enc(ct, "") if ct[0] == "text" else bytes(range(256))):
            for chunks in ([data], [data[:3], data[3:]]):
                for kind in ("success", "error"):
                    yield S([T(kind, details=[D("f", ct, chunks), D("g", BIN, [b"z"])])])


def fam_outcomes():
    one = [D("nøte", CTYPES[1], [b"some ", b"text"])]
    for final, explicit, kind in itertools.product(("extended", "py27"), (True, False), OUTCOMES):
        payloads = [dict(details=[]), dict(details=one)]
        if kind in NEEDS_PAYLOAD:
            payloads += [dict(exc=m) for m in ("boom", "bøom ☃")]
        elif kind == "skip":
            payloads += [dict(reason=r) for r in REASONS]
            payloads += [dict(details=[D("reason", CTYPES[1], [r.encode("utf8")])]) for r in REASONS[1:]]
        else:
            payloads.append(dict(details=None))
        for p in payloads:
            yield S([T(kind, id="tést", **p), T("success", id="after")], final, explicit)


def fam_tags():
    pre1 = [None, [["g"], []], [["g", "hé"], []]]
    loc1 = [None, [["l"], []], [[], ["g"]], [["l"], ["g"]]]
    pre2 = [None, [[], ["g"]], [["k"], []]]
    loc2 = [None, [["m"], []]]
    for a, b, c, d in itertools.product(pre1, loc1, pre2, loc2):
        for k1, k2 in (("success", "failure"), ("skip", "xfail"), ("error", "uxsuccess")):
            yield S([T(k1, id="one", pre_tags=a, local_tags=b), T(k2, id="two", pre_tags=c, local_tags=d)])


def fam_times():
    for s1, e1, s2, e2 in itertools.product((None, 5), (None, 7, 5), (None, 9, 1), (None, 11)):
        for explicit, (k1, k2) in itertools.product((True, False), (("success", "skip"), ("failure", "success"))):
            yield S([T(k1, id="one", t_start=s1, t_end=e1, reason="r" if k1 == "skip" else None),
                     T(k2, id="two", t_start=s2, t_end=e2, reason="r" if k2 == "skip" else None)],
                    explicit_start=explicit)


def fam_histories():
    yield S([], explicit_start=True)
    yield S([], "py27")
    for n in range(1, 4):
        for kinds in itertools.product(OUTCOMES, repeat=n):
            for same_id in (False, True):
                yield S([T(k, id="same" if same_id else "t%d" % i,
                           details=[D("d%d" % i, CTYPES[i], [b"%d" % i, b"-", k.encode()])])
                         for i, k in enumerate(kinds)], "py27" if n < 3 and same_id else "extended")


def fam_random(rng, count):
    for _ in range(count):
        tests, has_tags = [], False
        for i in range(rng.randint(0, 6)):
            kind = rng.choice(list(OUTCOMES))
            kw = dict(id=rng.choice(IDS + ["t%d" % i]))
            via = rng.random()
            if kind in NEEDS_PAYLOAD and via < 0.3:
                kw["exc"] = rng.choice(["boom", "bøom ☃", "x" * 40])
            elif kind == "skip" and via < 0.5:
                kw["reason"] = rng.choice(REASONS + ["%d réason" % i])
            elif kind in NEEDS_PAYLOAD or via < 0.9:
                names = rng.sample(NAMES + ["f%d" % j for j in range(4)], rng.randint(0, 4))
                kw["details"] = skip_safe(kind, [D(name, rng.choice(CTYPES), None) for name in names])
                for d in kw["details"]:
                    if d[1][0] == "text":  # valid text, cut anywhere (also inside a character)
                        data = enc(d[1], "".join(rng.choice("ab é☃\n") for _ in range(rng.randint(0, 12))))
                        cuts = sorted(rng.randint(0, len(data)) for _ in range(rng.randint(0, 5)))
                        chunks = [data[a:b] for a, b in zip(cuts, cuts[1:] + [len(data)])]
                        chunks = chunks and [data[:cuts[0]] + chunks[0]] + chunks[1:]
                    else:
                        chunks = [b"" if rng.random() < 0.3 else bytes(rng.randrange(256) for _ in range(rng.randint(1, 6)))
                                  for _ in range(rng.randint(0, 5))]
                    d[2] = [c.hex() for c in chunks]
            for key in ("pre_tags", "local_tags"):
                if rng.random() < 0.4:
                    pool = ["a", "b", "cç", "d"]
                    rng.shuffle(pool)
                    cut = rng.randint(0, 3)
                    kw[key] = [sorted(pool[:cut]), sorted(pool[cut:rng.randint(cut, 4)])]
            for key in ("t_start", "t_end"):
                if rng.random() < 0.4:
                    kw[key] = rng.choice([rng.randint(0, 100), rng.randint(0, 4000) / 4])
            tests.append(T(kind, **kw))
        yield S(tests, "py27" if rng.random() < 0.15 else "extended", rng.random() < 0.6)


FAMILIES = [
    ("chunks", ("_convert", "iter_bytes", "got_file"), fam_chunks),
    ("details", ("_convert", "got_file", "_update_case", "to_test_case"), fam_details),
    ("ctypes", ("content_type", "ContentType", "_make_content_type"), fam_ctypes),
    ("outcomes", ("add", "_check_args", "_handle_tests", "PlaceHolder", "startTestRun"), fam_outcomes),
    ("tags", ("tags", "Tag", "startTest", "stopTest", "PlaceHolder.run"), fam_tags),
    ("times", ("time", "_now", "got_timestamp", "PlaceHolder.run", "startTest"), fam_times),
    ("histories", ("status", "_ensure_key", "StreamToExtendedDecorator", "_StreamToTestRecord"), fam_histories),
]


def main():
    ap = argparse.ArgumentParser(description=__doc__.splitlines()[0])
    ap.add_argument("--budget", type=float, default=60.0)
    ap.add_argument("--from-obligation", default=None)
    ap.add_argument("--scenario", default=None)
    args = ap.parse_args()

    def report(sc, verdict):
        print(json.dumps({"scenario": sc, "observed": verdict[0], "required": verdict[1]}, default=repr))
        return 1

    if args.scenario is not None:
        sc = json.loads(args.scenario)
        sc = S([T(**t) for t in sc.get("tests", [])], sc.get("final", "extended"), sc.get("explicit_start", True))
        verdict = judge(sc)
        if verdict:
            return report(sc, verdict)
        print("C09: scenario satisfies the property")
        return 0
    target = ""
    if args.from_obligation:
        try:
            target = str(json.loads(args.from_obligation).get("target", ""))
        except (ValueError, AttributeError):
            target = ""
    method = target.split(":")[-1]
    families = sorted(FAMILIES, key=lambda f: not any(k in method for k in f[1]) if method else 0)
    rng = random.Random(int(os.environ.get("VERIF_SEED", "0") or 0))
    deadline = time.monotonic() + args.budget
    count = 0
    for name, _, gen in families + [("random", (), lambda: fam_random(rng, 4000))]:
        for sc in gen():
            if time.monotonic() > deadline:
                print("C09: budget used up after %d scenarios (in family %s), no violation" % (count, name))
                return 0
            count += 1
            verdict = judge(sc)
            if verdict:
                print("C09: violation in family %s after %d scenarios" % (name, count))
                return report(sc, verdict)
    print("C09: %d scenarios, no violation" % count)
    return 0


if __name__ == "__main__":
    try:
        code = main()
    except SystemExit:
        raise
    except BaseException:
        traceback.print_exc()
        code = 2
    sys.exit(code)
