#!/usr/bin/env python
"""Replay / counterexample search for C10: stream consumers account for every
test exactly once (StreamToDict, StreamSummary, StreamToExtendedDecorator).

ORACLE (written from the property statement, observable behaviour only).
A scenario is a list of status() events fed between startTestRun/stopTestRun to
the three consumers (the same objects are driven through `runs` consecutive
runs, so nothing may leak from one run to the next).  A reference model
computes which tests must be reported: events without a test id are ignored;
per (test id, route code) a record is opened by the first event, takes the last
non-None status ('unknown' if none), the latest non-None tags, each attachment's
chunks concatenated in arrival order, is reported by the event carrying a final
status (a later event with the same key opens a NEW test) and every record
still open at stopTestRun is reported there as incomplete.  Required:
 * StreamToDict: on_test is called exactly for the model's reports, during the
   status() call that carries the final status (in arrival order) or during
   stopTestRun (any order), with id, status, tags, attachments (bytes and
   content type of the mime type given for that file) and [first, last]
   timestamps.  Where the statement is ambiguous the oracle accepts every
   reading: first = first event's / first non-None timestamp, last = reporting
   event's / last non-None timestamp, None for incomplete tests; attachments
   that only ever received empty chunks may be present-and-empty or absent.
 * StreamToExtendedDecorator over doubles.ExtendedTestResult: one
   startTest..stopTest block per reported test ('exists' events cannot be
   expressed in that API and are judged as dropped), exactly one outcome in it,
   named by the status (incomplete -> addFailure/addError), with the details,
   the tags in force at the outcome and the time() calls before startTest
   (first) and before the outcome (last).
 * StreamSummary: testsRun == number of reported tests whose status is not
   'exists' (also after every single event); fail/incomplete land in
   errors|failures, skip in skipped, xfail in expectedFailures, uxsuccess in
   unexpectedSuccesses, success nowhere, each exactly once (the stored cases
   are re-run into a double and judged like the decorator blocks); any fail or
   incomplete test makes wasSuccessful() False.
 * No consumer call raises.

ENUMERATION.  Exhaustive: all sequences of length <= 3 over 17 atom events (two
ids, two routes, every status, tags, two files, empty/non-empty chunks, three
mime types, timestamps present/absent, id-less events; 5219 scenarios), then
length 4 over a 9-atom core (6561).  Then seeded-random (VERIF_SEED) sequences
of length 4..14 over the full product alphabet until the budget is spent.
Deliberately outside the alphabet: a 'reason' attachment that is not text/*
(StreamSummary needs the skip reason as text), status 'unknown' as input.
"""

import argparse
import datetime
import itertools
import json
import os
import random
import sys
import time

FINAL = ("exists", "success", "fail", "skip", "xfail", "uxsuccess")
OUTCOMES = {
    "success": {"addSuccess"}, "skip": {"addSkip"}, "fail": {"addFailure", "addError"},
    "xfail": {"addExpectedFailure"}, "uxsuccess": {"addUnexpectedSuccess"},
    "inprogress": {"addFailure", "addError"}, "unknown": {"addFailure", "addError"},
}
TEXT = "text/plain; charset=utf8"
_T0 = datetime.datetime(2000, 1, 1, tzinfo=datetime.timezone.utc)


class Violation(Exception):
    def __init__(self, observed, required):
        Exception.__init__(self, observed)
        self.observed, self.required = observed, required


def stamp(n):
    return None if n is None else _T0 + datetime.timedelta(seconds=n)


def unstamp(t):
    return int((t - _T0).total_seconds()) if isinstance(t, datetime.datetime) else t


def parse_mime(m):
    if m is None:
        return ("application", "octet-stream", ())
    parts = [p.strip() for p in m.split(";")]
    main, sub = parts[0].split("/")
    params = tuple(sorted(tuple(x.strip() for x in p.split("=", 1)) for p in parts[1:] if p))
    return (main, sub, params)


def call_kwargs(e):
    tags = e.get("tags")
    return dict(
        test_id=e.get("id"), test_status=e.get("status"),
        test_tags=None if tags is None else set(tags),
        file_name=e.get("file"),
        file_bytes=e.get("bytes", "").encode("latin-1") if e.get("file") is not None else None,
        mime_type=e.get("mime"), route_code=e.get("route"), timestamp=stamp(e.get("ts")),
        eof=bool(e.get("eof", False)))       # the consumers take every chunk in arrival order, whatever the eof flags say


# ---------------------------------------------------------------- the model
def model(events, drop_exists=False):
    """Reports required by the property: list of records with 'at' = index of
    the reporting event (len(events) for the stopTestRun flush)."""
    open_, reports = {}, []
    for i, e in enumerate(events):
        if e.get("id") is None or (drop_exists and e.get("status") == "exists"):
            continue
        key = (e["id"], e.get("route"))
        t = stamp(e.get("ts"))
        rec = open_.setdefault(key, dict(id=e["id"], route=e.get("route"), status="unknown",
                                         tags=set(), files={}, ts=[], hung=False))
        rec["ts"].append(t)
        if e.get("status") is not None:
            rec["status"] = e["status"]
        if e.get("tags") is not None:
            rec["tags"] = set(e["tags"])
        if e.get("file") is not None:
            f = rec["files"].setdefault(e["file"], dict(data=b"", mimes=set()))
            f["data"] += e.get("bytes", "").encode("latin-1")
            f["mimes"].add(parse_mime(e.get("mime")))
        if e.get("status") in FINAL:
            rec["at"] = i
            reports.append(open_.pop(key))
    for rec in open_.values():
        rec["at"], rec["hung"] = len(events), True
        reports.append(rec)
    for rec in reports:
        known = [t for t in rec["ts"] if t is not None] or [None]
        rec["first"] = {rec["ts"][0], known[0]}
        rec["last"] = {rec["ts"][-1], known[-1]} | ({None} if rec["hung"] else set())
    return reports


def fits(exp, obs):
    if obs["id"] != exp["id"] or obs["tags"] != exp["tags"]:
        return False
    if "status" in obs and obs["status"] != exp["status"]:
        return False
    if "outcomes" in obs and (len(obs["outcomes"]) != 1 or obs["outcomes"][0] not in OUTCOMES[exp["status"]]):
        return False
    if obs["first"] not in exp["first"] or obs["last"] not in exp["last"]:
        return False
    want = {n: f for n, f in exp["files"].items() if f["data"]}
    got = {n: f for n, f in obs["files"].items() if f[0]}
    if set(want) != set(got):
        return False
    return all(got[n][0] == want[n]["data"] and got[n][1] in want[n]["mimes"] for n in want)


def match(exps, obss):
    """Every expected record fits a distinct observed one, nothing is left."""
    if len(exps) != len(obss):
        return False
    if not exps:
        return True
    return any(fits(exps[0], o) and match(exps[1:], obss[:j] + obss[j + 1:])
               for j, o in enumerate(obss))


def show(rec):
    out = dict(id=rec["id"], tags=sorted(rec["tags"]))
    if "route" in rec:
        out["route"] = rec["route"]
    for k in ("at", "status", "outcomes"):
        if k in rec:
            out[k] = rec[k]
    if "hung" in rec:   # expected record
        out["first_in"] = sorted(map(repr, map(unstamp, rec["first"])))
        out["last_in"] = sorted(map(repr, map(unstamp, rec["last"])))
        out["files"] = {n: [f["data"].decode("latin-1"), sorted(map(repr, f["mimes"]))]
                        for n, f in rec["files"].items()}
        if rec["hung"]:
            out["incomplete"] = True
    else:
        out["first"], out["last"] = unstamp(rec["first"]), unstamp(rec["last"])
        out["files"] = {n: [f[0].decode("latin-1"), repr(f[1])] for n, f in rec["files"].items()}
    return out


def require(ok, who, run, observed, required):
    if not ok:
        raise Violation({"consumer": who, "run": run, "got": observed}, required)


# ------------------------------------------------- observation extraction
def files_of(details):
    out = {}
    for name, content in (details or {}).items():
        ct = content.content_type
        out[name] = (b"".join(content.iter_bytes()),
                     (ct.type, ct.subtype, tuple(sorted(dict(ct.parameters).items()))))
    return out


def obs_from_dict(at, d):
    return dict(at=at, id=d["id"], status=d["status"], tags=set(d["tags"] or ()),
                first=d["timestamps"][0], last=d["timestamps"][1], files=files_of(d["details"]))


def parse_log(log, marks=None):
    """Split an ExtendedTestResult event log into per-test observations."""
    out, run_tags, cur, pending = [], set(), None, None
    for pos, ev in enumerate(log):
        name = ev[0]
        if name == "tags":
            # tags in force at the outcome: later changes do not count
            target = run_tags if cur is None else (set() if cur["outcomes"] else cur["tags"])
            target.update(ev[1])
            target.difference_update(ev[2])
        elif name == "time":
            if cur is None:
                pending = ev[1]
            elif not cur["outcomes"]:
                cur["last"] = ev[1]
        elif name == "startTest" or (name.startswith("add") and cur is None):
            at = None if marks is None else sum(1 for m in marks if m <= pos)
            cur = dict(at=at, id=ev[1].id(), tags=set(run_tags), first=pending, last=None,
                       outcomes=[] if name == "startTest" else ["no startTest"], files={})
            out.append(cur)
            pending = None
        if name.startswith("add"):
            cur["outcomes"].append(name)
            cur["files"] = files_of(ev[2] if len(ev) > 2 and isinstance(ev[2], dict) else {})
        elif name == "stopTest":
            cur, pending = None, None
    if cur is not None:
        cur["outcomes"].append("no stopTest")
    return out


# ------------------------------------------------------------ one scenario
def check(scn):
    """Raise Violation if the scenario violates C10 on the imported testtools."""
    from testtools import StreamSummary, StreamToDict, StreamToExtendedDecorator
    from testtools.testresult.doubles import ExtendedTestResult

    events = scn["events"]
    n = len(events)
    exp_all, exp_ext = model(events), model(events, drop_exists=True)
    counted = [r for r in exp_all if r["status"] != "exists"]
    pos = [-1]
    dict_calls = []
    try:
        to_dict = StreamToDict(lambda d: dict_calls.append((pos[0], d)))
        summary = StreamSummary()
        double = ExtendedTestResult()
        ext = StreamToExtendedDecorator(double)
    except Exception as e:
        raise Violation({"raised": repr(e), "during": "construction"}, "consumers can be built")

    for run in range(1, scn.get("runs", 1) + 1):
        del dict_calls[:]
        log_start, marks, runs_trace = len(double._events), [], []
        stage = "startTestRun"
        try:
            pos[0] = -1
            for c in (to_dict, summary, ext):
                c.startTestRun()
            for i, e in enumerate(events):
                stage, pos[0] = "status #%d %r" % (i, e), i
                for c in (to_dict, summary, ext):
                    c.status(**call_kwargs(e))
                marks.append(len(double._events) - log_start)
                runs_trace.append(summary.testsRun)
            stage, pos[0] = "stopTestRun", n
            for c in (to_dict, summary, ext):
                c.stopTestRun()
            stage = "wasSuccessful"
            successful = summary.wasSuccessful()
            stage = "reading the reported data"
            got_dict = [obs_from_dict(at, d) for at, d in dict_calls]
            got_ext = parse_log(double._events[log_start:], marks)
            buckets = {
                "errors|failures": [c for c, _ in list(summary.errors) + list(summary.failures)],
                "skipped": [c for c, _ in summary.skipped],
                "expectedFailures": [c for c, _ in summary.expectedFailures],
                "unexpectedSuccesses": list(summary.unexpectedSuccesses),
            }
            got_sum = {}
            for name, cases in buckets.items():
                got_sum[name] = []
                for case in cases:
                    probe = ExtendedTestResult()
                    case.run(probe)
                    got_sum[name].extend(parse_log(probe._events))
            tests_run = summary.testsRun
        except Exception as e:
            raise Violation({"run": run, "raised": repr(e), "during": stage},
                            "no consumer call raises; every test is reported")

        # StreamToDict and StreamToExtendedDecorator: reports, when, and what.
        for who, exp, got in (("StreamToDict", exp_all, got_dict),
                              ("StreamToExtendedDecorator", exp_ext, got_ext)):
            for at in range(n + 1):
                e_grp = [r for r in exp if r["at"] == at]
                g_grp = [o for o in got if o["at"] == at]
                when = "status event #%d" % at if at < n else "stopTestRun"
                require(match(e_grp, g_grp), who, run,
                        {"reported during " + when: [show(o) for o in g_grp],
                         "all reports": [show(o) for o in got]},
                        {"reported during " + when: [show(r) for r in e_grp]})
        # StreamSummary.
        want_trace = [sum(1 for r in counted if r["at"] <= i) for i in range(n)]
        require(runs_trace == want_trace and tests_run == len(counted), "StreamSummary", run,
                {"testsRun after each event": runs_trace, "final testsRun": tests_run},
                {"testsRun after each event": want_trace, "final testsRun": len(counted)})
        want_sum = {
            "errors|failures": [r for r in counted if r["hung"] or r["status"] == "fail"],
            "skipped": [r for r in counted if not r["hung"] and r["status"] == "skip"],
            "expectedFailures": [r for r in counted if not r["hung"] and r["status"] == "xfail"],
            "unexpectedSuccesses": [r for r in counted if not r["hung"] and r["status"] == "uxsuccess"],
        }
        for name in want_sum:
            require(match(want_sum[name], got_sum[name]), "StreamSummary." + name, run,
                    {k: [show(o) for o in v] for k, v in got_sum.items()},
                    {name: [show(r) for r in want_sum[name]]})
        if want_sum["errors|failures"]:
            require(successful is False, "StreamSummary.wasSuccessful", run, successful,
                    "False: a failed or incomplete test was reported")


# ------------------------------------------------------------- enumeration
def ev(**kw):
    return kw


ATOMS = [
    ev(id="a", status="inprogress", ts=1, tags=["x"]),
    ev(id="a", file="f", bytes="p", mime=TEXT, ts=2),
    ev(id="a", file="f", bytes="q"),
    ev(id="a", file="f", bytes="", mime=TEXT),
    ev(id="a", file="g", bytes="r", mime="image/png", tags=["y"]),
    ev(id="a", status="success", ts=3),
    ev(id="a", status="fail", tags=[]),
    ev(id="a", status="skip"),
    ev(id="a", status="exists", tags=["x"]),
    ev(id="a", status="xfail", file="f", bytes="s", ts=4),
    ev(id="a", status="uxsuccess"),
    ev(id="a", route="0", status="inprogress", ts=2),
    ev(id="a", route="0", status="success", file="f", bytes="t"),
    ev(id="b", status="inprogress"),
    ev(id="b", status="fail", ts=3),
    ev(status="fail", file="f", bytes="z", tags=["x"], ts=5),
    ev(file="g", bytes="z"),
]
CORE = [ATOMS[i] for i in (0, 1, 2, 5, 6, 8, 11, 12, 13)]

FEATURES = {
    "file": lambda e: "file" in e, "ts": lambda e: e.get("ts") is not None,
    "route": lambda e: e.get("route") is not None or e.get("id") == "b",
    "final": lambda e: e.get("status") in FINAL, "hung": lambda e: e.get("status") not in FINAL,
    "tags": lambda e: e.get("tags") is not None,
}
KEYWORDS = [("got_file", "file"), ("content_type", "file"), ("transform", "file"),
            ("got_timestamp", "ts"), ("stopTestRun", "hung"), ("_ensure_key", "route"),
            ("create", "route"), ("to_test_case", "final"), ("StreamSummary", "final"),
            ("StreamToExtendedDecorator", "final"), ("_update_case", "tags"), ("set", "tags")]


def focus_of(hint):
    target = str((hint or {}).get("target", "")) if isinstance(hint, dict) else ""
    for word, feature in KEYWORDS:
        if word in target.split(":")[-1]:
            return FEATURES[feature]
    return None


def random_event(rng):
    e = {}
    if rng.random() < 0.9:
        e["id"] = rng.choice("abc")
    if rng.random() < 0.4:
        e["route"] = rng.choice(["0", "1"])
    status = rng.choice([None, None, None, "inprogress", "inprogress"] + list(FINAL))
    if status is not None:
        e["status"] = status
    if rng.random() < 0.4:
        e["tags"] = rng.choice([[], ["x"], ["y"], ["x", "y"]])
    if rng.random() < 0.5:
        e["file"] = rng.choice(["f", "g", "traceback", "reason"])
        e["bytes"] = rng.choice(["", "", "p", "q", "rs"])
        mime = TEXT if e["file"] == "reason" else rng.choice([None, TEXT, "image/png", "text/x-log"])
        if mime is not None:
            e["mime"] = mime
        if rng.random() < 0.3:
            e["eof"] = True
    if rng.random() < 0.6:
        e["ts"] = rng.randrange(1, 8)
    return e


def scenarios(focus, rng):
    score = (lambda evs: -sum(1 for e in evs if focus(e))) if focus else None
    for flags in itertools.product((False, True), repeat=3):
        yield {"events": [dict(id="a", file="f", bytes=b, eof=fl) for b, fl in zip(("first ", "second ", "third"), flags)]
                         + [dict(id="a", status="success")], "runs": 1}
    for alphabet, lengths in ((ATOMS, (1, 2, 3)), (CORE, (4,))):
        for length in lengths:
            seqs = itertools.product(alphabet, repeat=length)
            for evs in (sorted(seqs, key=score) if score else seqs):
                yield {"events": [dict(e) for e in evs], "runs": 2 if length < 3 else 1}
    while True:
        cands = [[random_event(rng) for _ in range(rng.randrange(4, 15))]
                 for _ in range(3 if focus else 1)]
        yield {"events": min(cands, key=score) if score else cands[0], "runs": rng.choice([1, 1, 2])}


def load_json(text):
    if text is None:
        return None
    try:
        return json.loads(text)
    except ValueError:
        if os.path.exists(text):
            with open(text) as f:
                return json.load(f)
        raise


def report(scn, v):
    js = lambda o: sorted(o) if isinstance(o, (set, frozenset)) else repr(o)
    print(json.dumps({"scenario": scn, "observed": v.observed, "required": v.required}, default=js))
    return 1


def main():
    ap = argparse.ArgumentParser(description=__doc__.splitlines()[0])
    ap.add_argument("--budget", type=float, default=60.0)
    ap.add_argument("--from-obligation", default=None)
    ap.add_argument("--scenario", default=None)
    args = ap.parse_args()
    import testtools
    print("C10 harness: testtools from %s" % os.path.dirname(testtools.__file__))
    if args.scenario is not None:
        scn = load_json(args.scenario)
        try:
            check(scn)
        except Violation as v:
            return report(scn, v)
        print("scenario satisfies C10")
        return 0
    try:
        hint = load_json(args.from_obligation)
    except Exception:
        hint = None
    rng = random.Random(int(os.environ.get("VERIF_SEED", "0") or 0))
    deadline = time.monotonic() + max(args.budget, 0.0) * 0.95
    count = 0
    for scn in scenarios(focus_of(hint), rng):
        if time.monotonic() >= deadline:
            break
        try:
            check(scn)
        except Violation as v:
            print("violation after %d scenarios" % count)
            return report(scn, v)
        count += 1
    print("no violation in %d scenarios" % count)
    return 0


if __name__ == "__main__":
    try:
        code = main()
    except SystemExit:
        raise
    except BaseException:
        import traceback
        traceback.print_exc()
        code = 2
    sys.stdout.flush()
    sys.exit(code)
