#!/usr/bin/env python
"""Replay / counterexample search for C13: concurrent suites run every test
once, deliver every event, and terminate.

Each scenario builds 1..4 instrumented sub-suites ("workers"), hands them to
testtools.ConcurrentTestSuite ("cts") or ConcurrentStreamTestSuite ("stream")
through make_tests, and forces one interleaving with a token scheduler: the
list `order` names which worker may perform its next action (one result call,
or one whole test when grain == "test"; the last action of a worker is leaving
run(), normally or by raising).  Extra instrumentation: `hold` makes the
caller's result pause inside startTest while the next scheduled worker tries to
report (tests mutual exclusion), `lag` makes one worker linger before leaving
run() until run() has returned or 30ms passed (tests that run() waits), and
`fault` makes make_tests raise after k sub-suites or the caller's stream result
raise at its n-th status call (RuntimeError or KeyboardInterrupt).

ORACLE (from the property statement, observable behaviour only)
 * no fault: run() returns without raising; every worker's run() was entered
   exactly once, each in a distinct thread that is not the caller's; when run()
   returns every worker has left run() and no worker thread is alive.
 * the caller's log, projected on the tests of one worker, is exactly what that
   worker emitted, in its order, nothing twice, nothing foreign (under a fault:
   a prefix of it).  Stream events carry the worker's route code and a datetime
   timestamp.  The cts log never shows activity of a test between startTest and
   stopTest of another.
 * a worker whose run() raises yields exactly one errored 'broken-runner...'
   test (stream: status 'fail', with that worker's route code) mentioning the
   exception, and run() still returns normally.
 * fault: run() raises the injected exception object itself, and at that moment
   the result given to every worker already started has shouldStop true.

ENUMERATION: exhaustive single workers (0..2 tests, all outcome tuples, raising
or not); all event-level interleavings of 2 workers x 0..1 tests; all test-level
interleavings of 3..4 small workers; make_tests faults after k=0..4 and
result faults at every event index for 1..3 workers; hold and lag scenarios;
then seeded random scenarios (1..4 workers x 0..3 tests) until the budget ends.
"""
import argparse
import datetime
import itertools
import json
import os
import random
import sys
import threading
import time
import unittest

import testtools
from testtools.testresult import doubles

STEP_T, HOLD_T, LAG_T, RUN_T = 2.0, 0.02, 0.03, 10.0
OUTCOMES = ["success", "failure", "error", "skip", "xfail", "uxsuccess"]
ADD = {"success": "addSuccess", "failure": "addFailure", "error": "addError", "skip": "addSkip",
       "xfail": "addExpectedFailure", "uxsuccess": "addUnexpectedSuccess"}
STATUS = {"success": "success", "failure": "fail", "error": "fail", "skip": "skip",
          "xfail": "xfail", "uxsuccess": "uxsuccess"}
EXCS = {"RuntimeError": RuntimeError, "KeyboardInterrupt": KeyboardInterrupt}
threading.excepthook = lambda args: None  # worker crashes are judged from the logs


class Violation(Exception):
    def __init__(self, observed, required):
        Exception.__init__(self, observed)
        self.observed, self.required = observed, required


class Sched:
    """Token passing: order[pos] is the only worker allowed to act; falls back
    to free running (sound, just unforced) if anything takes longer than STEP_T."""

    def __init__(self, order):
        self.order, self.pos, self.free = list(order), 0, False
        self.cv, self.tl = threading.Condition(), threading.local()

    def step(self, w, fn):
        with self.cv:
            mine = lambda: self.free or self.pos >= len(self.order) or self.order[self.pos] == w
            if not self.cv.wait_for(mine, STEP_T):
                self.release()
        self.tl.in_step, self.tl.early = True, False
        try:
            return fn()
        finally:
            self.tl.in_step = False
            if not self.tl.early:
                with self.cv:
                    self.pos += 1
                    self.cv.notify_all()

    def hold(self):
        """Called inside the caller's result: pass the token on and give the
        next worker HOLD_T to complete an action while we are still inside."""
        if not getattr(self.tl, "in_step", False) or self.tl.early:
            return
        self.tl.early = True
        with self.cv:
            self.pos += 1
            mark = self.pos
            self.cv.notify_all()
            self.cv.wait_for(lambda: self.free or self.pos > mark, HOLD_T)

    def release(self):
        with self.cv:
            self.free = True
            self.cv.notify_all()


def exc_info(msg):
    try:
        raise AssertionError(msg)
    except AssertionError:
        return sys.exc_info()


class Worker:
    def __init__(self, idx, spec, sc, env):
        self.idx, self.env, self.cts = idx, env, sc["suite"] == "cts"
        self.tests, self.raises = list(spec.get("tests", [])), spec.get("raises")
        self.api, self.route = spec.get("api", "ext"), spec.get("route")
        self.grain = sc.get("grain", "event")
        self.n_run = len(self.tests) if self.raises is None else min(self.raises, len(self.tests))
        self.ids = ["w%d.t%d" % (idx, j) for j in range(len(self.tests))]
        self.cases = [testtools.PlaceHolder(i) for i in self.ids]
        self.boom = "boom-w%d" % idx
        self.runs, self.result, self.finished = [], None, False
        self.entered = threading.Event()

    def actions(self, r, j):
        t, tid, out = self.cases[j], self.ids[j], self.tests[j]
        if not self.cts and self.api == "stream":
            return [lambda: r.status(test_id=tid, test_status="inprogress"),
                    lambda: r.status(test_id=tid, file_name="log", file_bytes=tid.encode(), mime_type="text/plain"),
                    lambda: r.status(test_id=tid, test_status=STATUS[out])]
        args = {"success": (), "uxsuccess": (), "skip": ("why-" + tid,)}.get(out)
        if args is None:
            args = (exc_info(tid),)
        return [lambda: r.startTest(t), lambda: getattr(r, ADD[out])(t, *args), lambda: r.stopTest(t)]

    def run(self, result):
        env = self.env
        self.runs.append(threading.current_thread())
        self.result = result
        self.entered.set()
        for j in range(self.n_run):
            acts = self.actions(result, j)
            if self.grain == "test":
                env.sched.step(self.idx, lambda: [a() for a in acts])
            else:
                for a in acts:
                    env.sched.step(self.idx, a)
        env.sched.step(self.idx, lambda: None)
        if env.fault:
            env.released.wait(RUN_T)
        if env.lag == self.idx:
            env.run_returned.wait(LAG_T)
        self.finished = True
        if self.raises is not None:
            raise RuntimeError(self.boom)


class Env:
    pass


def text_of(payload):
    if isinstance(payload, dict):
        return "".join(c.as_text() for c in payload.values())
    if isinstance(payload, tuple) and len(payload) == 3:
        return repr(payload[1])
    return repr(payload)


def check_seq(w, got, want, exact, what):
    want = want if exact else want[:len(got)]
    if got != want:
        raise Violation("%s of worker %d in the caller's log: %r" % (what, w.idx, got),
                        "exactly the events that worker emitted, each once, in its order%s: %r"
                        % ("" if exact else " (a prefix, run aborted)", want))


def check_broken(texts, workers, exact):
    raising = [w for w in workers if w.raises is not None and w.runs]
    if exact and len(texts) != len(raising):
        raise Violation("%d broken-runner error(s) reported, %d worker(s) raised from run()" % (len(texts), len(raising)),
                        "each sub-suite whose run() raises is reported as exactly one errored 'broken-runner' test")
    for w in raising if exact else []:
        if sum(w.boom in t for t in texts) != 1:
            raise Violation("exception %r of worker %d appears in %d broken-runner reports: %r"
                            % (w.boom, w.idx, sum(w.boom in t for t in texts), texts),
                            "the broken-runner error of a worker carries that worker's exception, once")


def check_cts(log, workers, exact):
    owner = dict((i, w) for w in workers for i in w.ids)
    per, broken, current = dict((w.idx, []) for w in workers), [], None
    for ev in log:
        name = ev[0]
        if not (name in ("startTest", "stopTest") or name.startswith("add")):
            continue
        tid = ev[1].id()
        if name == "startTest":
            if current is not None:
                raise Violation("startTest(%s) arrived while test %s was still open" % (tid, current),
                                "the caller's result sees one test at a time")
            current = tid
        elif current != tid:
            raise Violation("%s(%s) arrived while the open test was %r" % (name, tid, current),
                            "the caller's result sees one test at a time (startTest, outcome, stopTest contiguous)")
        if name == "stopTest":
            current = None
        if tid in owner:
            per[owner[tid].idx].append([name, tid])
        elif tid.startswith("broken-runner"):
            if name.startswith("add"):
                if name != "addError":
                    raise Violation("broken-runner reported with %s" % name, "a broken runner is reported as an error")
                broken.append(text_of(ev[2]))
        else:
            raise Violation("event %s for unknown test %r" % (name, tid), "only events emitted by the workers are delivered")
    for w in workers:
        want = [[n, w.ids[j]] for j in range(w.n_run) for n in ("startTest", ADD[w.tests[j]], "stopTest")]
        check_seq(w, per[w.idx], want, exact, "events")
    check_broken(broken, workers, exact)


def check_stream(log, workers, exact):
    owner = dict((i, w) for w in workers for i in w.ids)
    per, broken_text, broken_routes = dict((w.idx, []) for w in workers), {}, []
    for ev in log:
        if ev[0] != "status":
            continue
        tid = ev.test_id
        if not isinstance(ev.timestamp, datetime.datetime):
            raise Violation("status event for %r has timestamp %r" % (tid, ev.timestamp), "every stream event carries a timestamp")
        if tid in owner:
            w = owner[tid]
            if ev.route_code != w.route:
                raise Violation("event for %r has route code %r" % (tid, ev.route_code),
                                "events carry their worker's route code %r" % (w.route,))
            if w.api == "stream":
                per[w.idx].append([tid, ev.test_status, ev.file_name, ev.file_bytes and ev.file_bytes.decode()])
            elif ev.test_status is not None:
                per[w.idx].append([tid, ev.test_status])
        elif isinstance(tid, str) and tid.startswith("broken-runner"):
            key = (tid, ev.route_code)
            broken_text[key] = broken_text.get(key, "") + (ev.file_bytes or b"").decode("utf8", "replace")
            if ev.test_status not in (None, "inprogress"):
                if ev.test_status != "fail":
                    raise Violation("broken-runner reported with status %r" % ev.test_status, "a broken runner is reported as an error")
                broken_routes.append(ev.route_code)
        else:
            raise Violation("status event for unknown test %r" % (tid,), "only events emitted by the workers are delivered")
    for w in workers:
        if w.api == "stream":
            want = [e for j in range(w.n_run) for e in ([w.ids[j], "inprogress", None, None],
                    [w.ids[j], None, "log", w.ids[j]], [w.ids[j], STATUS[w.tests[j]], None, None])]
        else:
            want = [e for j in range(w.n_run) for e in ([w.ids[j], "inprogress"], [w.ids[j], STATUS[w.tests[j]]])]
        check_seq(w, per[w.idx], want, exact, "status events")
    if exact:
        want_routes = sorted(repr(w.route) for w in workers if w.raises is not None and w.runs)
        if sorted(map(repr, broken_routes)) != want_routes:
            raise Violation("broken-runner failures arrived with route codes %r" % (broken_routes,),
                            "one errored broken-runner test per raising worker, with its route code: %s" % want_routes)
    check_broken(list(broken_text.values()) if broken_routes else [], workers, exact)


def run_scenario(sc):
    """Run one scenario; raise Violation if the property is violated."""
    cts, fault = sc["suite"] == "cts", sc.get("fault")
    env = Env()
    env.sched, env.fault, env.lag = Sched(sc.get("order", [])), fault, sc.get("lag")
    env.released, env.run_returned = threading.Event(), threading.Event()
    workers = [Worker(i, spec, sc, env) for i, spec in enumerate(sc["workers"])]
    injected = EXCS[fault["exc"]]("injected") if fault else None
    n_yield = fault["after"] if fault and fault["kind"] == "make_tests" else len(workers)
    yielded = workers[:n_yield]

    def wait_entered():
        for w in yielded:
            w.entered.wait(STEP_T)

    def make_tests(*_):
        for w in yielded:
            yield w if cts else (w, w.route)
        if fault and fault["kind"] == "make_tests":
            wait_entered()
            raise injected

    class CallerResult(doubles.ExtendedTestResult):
        def startTest(self, test):
            doubles.ExtendedTestResult.startTest(self, test)
            if sc.get("hold"):
                env.sched.hold()

    class CallerStream(doubles.StreamResult):
        calls = 0

        def status(self, *a, **k):
            n, self.calls = self.calls, self.calls + 1
            if fault and fault["kind"] == "result" and n == fault["at"]:
                wait_entered()
                raise injected
            doubles.StreamResult.status(self, *a, **k)

    if cts:
        result, suite = CallerResult(), testtools.ConcurrentTestSuite(unittest.TestSuite(), make_tests)
    else:
        result, suite = CallerStream(), testtools.ConcurrentStreamTestSuite(make_tests)
    out = {}

    def runner():
        try:
            suite.run(result)
            out["raised"] = None
        except BaseException as e:
            out["raised"] = e
        out["finished"] = [w.idx for w in workers if w.finished]
        out["alive"] = [w.idx for w in workers if any(t.is_alive() for t in w.runs)]
        out["stop"] = {}
        for w in yielded if fault else []:
            try:
                out["stop"][w.idx] = None if w.result is None else bool(w.result.shouldStop)
            except Exception as e:
                out["stop"][w.idx] = repr(e)
        env.run_returned.set()
        env.released.set()

    caller = threading.Thread(target=runner, daemon=True)
    caller.start()
    caller.join(RUN_T)
    env.released.set()
    env.sched.release()
    caller.join(RUN_T)
    for w in workers:
        for t in w.runs:
            t.join(RUN_T)
    if caller.is_alive():
        raise Violation("run() had not returned after %.0fs and releasing all workers; workers that left run(): %r of %d"
                        % (RUN_T, [w.idx for w in workers if w.finished], len(yielded)),
                        "run() terminates once every sub-suite has finished")
    log = list(result._events)
    if fault:
        if out["raised"] is not injected:
            raise Violation("run() %s" % ("returned normally" if out["raised"] is None else "raised %r" % out["raised"]),
                            "the exception aborting run() (%s from %s) propagates to the caller" % (fault["exc"], fault["kind"]))
        bad = dict((i, s) for i, s in out["stop"].items() if s is not True)
        if bad:
            raise Violation("when run() raised, shouldStop of the results given to started workers was %r "
                            "(None: worker was never run)" % bad,
                            "every worker already started is told to stop when run() is aborted")
    else:
        if out["raised"] is not None:
            raise Violation("run() raised %r" % out["raised"], "run() returns normally; broken runners are reported as errors")
        counts = [len(w.runs) for w in workers]
        if counts != [1] * len(workers):
            raise Violation("run() entered per sub-suite: %r" % counts, "each sub-suite is run exactly once")
        threads = [w.runs[0] for w in workers]
        if len(set(map(id, threads))) != len(threads) or caller in threads:
            raise Violation("sub-suites shared a thread or ran in the caller's thread", "each sub-suite runs in its own thread")
        if len(out["finished"]) != len(workers) or out["alive"]:
            raise Violation("when run() returned, workers that had left run(): %r of %d; worker threads alive: %r"
                            % (out["finished"], len(workers), out["alive"]),
                            "run() returns only after all sub-suites have finished")
    (check_cts if cts else check_stream)(log, workers, exact=not fault)


# ---------------------------------------------------------------- enumeration
VARIANTS = [("cts", "ext"), ("stream", "ext"), ("stream", "stream")]


def build(variant, tests, raises=None, grain="event", order="rr", none_route=False, **extra):
    """tests: list of outcome lists; raises: {worker: after_n_tests}."""
    suite, api = variant
    raises = raises or {}
    ws = [{"tests": list(t), "raises": raises.get(i), "api": api,
           "route": None if none_route and i == 0 else "r%d" % i} for i, t in enumerate(tests)]
    sc = {"suite": suite, "grain": grain, "workers": ws, "order": order}
    sc.update(extra)
    if order == "rr":
        sc["order"] = round_robin(counts(sc))
    return sc


def counts(sc):
    per = 3 if sc["grain"] == "event" else 1
    n = [min(len(w["tests"]), len(w["tests"]) if w["raises"] is None else w["raises"]) * per + 1 for w in sc["workers"]]
    f = sc.get("fault")
    return n[:f["after"]] if f and f["kind"] == "make_tests" else n


def round_robin(n):
    return [i for k in range(max(n or [0])) for i in range(len(n)) if k < n[i]]


def interleavings(n):
    if not any(n):
        yield []
        return
    for i in range(len(n)):
        if n[i]:
            for rest in interleavings(n[:i] + [n[i] - 1] + n[i + 1:]):
                yield [i] + rest


def outs(k, shift=0):
    return [OUTCOMES[(shift + j) % len(OUTCOMES)] for j in range(k)]


def phase_single():
    for v in VARIANTS:
        for n in range(3):
            for o in itertools.product(OUTCOMES, repeat=n):
                for r in (None, 0, n):
                    yield build(v, [o], {0: r} if r is not None else None, none_route=(n == 1))
        yield build(v, [outs(3)])
        yield build(v, [outs(3, 3)], {0: 3})


def phase_pairs():
    for shift, (a, b) in enumerate(itertools.product(range(2), repeat=2)):
        for raises in (None, {0: a}, {1: 0}):
            for v in VARIANTS:
                base = build(v, [outs(a, shift), outs(b, shift + 2)], raises)
                for order in interleavings(counts(base)):
                    yield dict(base, order=order)


def phase_multi():
    for sizes, raises in (([1, 1, 1], None), ([2, 1, 0], {1: 1}), ([1, 0, 1, 0], {3: 0}), ([2, 2], {0: 1})):
        for v in VARIANTS:
            base = build(v, [outs(k, i) for i, k in enumerate(sizes)], raises, grain="test")
            for order in interleavings(counts(base)):
                yield dict(base, order=order)


def phase_faults():
    for exc in sorted(EXCS):
        for v in VARIANTS:
            for k in range(5):
                f = {"kind": "make_tests", "after": k, "exc": exc}
                yield build(v, [outs(1 + i % 2, i) for i in range(min(k + 1, 4))], grain="test", fault=f)
        for v in VARIANTS[1:]:
            for nw in (1, 2, 3):
                for nt in (1, 2):
                    for at in range(2 * nw * nt):
                        f = {"kind": "result", "at": at, "exc": exc}
                        yield build(v, [outs(nt, i) for i in range(nw)], fault=f)


def phase_hold_lag():
    for nw in (2, 3, 4):
        for nt in (1, 2):
            for grain in ("event", "test"):
                yield build(VARIANTS[0], [outs(nt, i) for i in range(nw)], grain=grain, hold=True)
        for v in VARIANTS:
            for lag in range(nw):
                yield build(v, [outs(1, i) for i in range(nw)], lag=lag)
                yield build(v, [outs(i % 3, i) for i in range(nw)], {lag: 0}, grain="test", lag=lag)


def phase_random(rng):
    while True:
        v = rng.choice(VARIANTS)
        nw = rng.randint(1, 4)
        tests = [[rng.choice(OUTCOMES) for _ in range(rng.randint(0, 3))] for _ in range(nw)]
        extra, raises = {}, {}
        kind = rng.random()
        if kind < 0.2:
            extra["fault"] = {"kind": "make_tests", "after": rng.randint(0, nw), "exc": rng.choice(sorted(EXCS))}
        elif kind < 0.4 and v[0] == "stream" and sum(map(len, tests)):
            extra["fault"] = {"kind": "result", "at": rng.randrange(2 * sum(map(len, tests))), "exc": rng.choice(sorted(EXCS))}
        else:
            raises = dict((i, rng.randint(0, len(tests[i]))) for i in range(nw) if rng.random() < 0.25)
            if rng.random() < 0.15:
                extra["lag"] = rng.randrange(nw)
            if v[0] == "cts" and rng.random() < 0.1:
                extra["hold"] = True
        sc = build(v, tests, raises, grain=rng.choice(["event", "test"]), none_route=rng.random() < 0.1, **extra)
        sc["order"] = [i for i, k in enumerate(counts(sc)) for _ in range(k)]
        rng.shuffle(sc["order"])
        yield sc


def mixed(seed):
    phases = [phase_single(), phase_pairs(), phase_multi(), phase_faults(), phase_hold_lag(),
              phase_random(random.Random(seed))]
    while phases:
        for p in list(phases):
            try:
                yield next(p)
            except StopIteration:
                phases.remove(p)


def scenarios(seed, target):
    stream_hint = any(s in target for s in ("Stream", "ToQueue"))
    cts_hint = (not stream_hint) and any(s in target for s in ("ConcurrentTestSuite", "Threadsafe"))
    if not (stream_hint or cts_hint):
        return mixed(seed)
    pref = "stream" if stream_hint else "cts"
    first = (s for s in mixed(seed) if s["suite"] == pref)
    other = (s for s in mixed(seed) if s["suite"] != pref)
    return (s for group in zip(first, first, first, other) for s in group)


def judge(sc):
    try:
        run_scenario(sc)
    except Violation as v:
        return {"scenario": sc, "observed": v.observed, "required": v.required}
    return None


def main(argv):
    ap = argparse.ArgumentParser()
    ap.add_argument("--budget", type=float, default=60.0)
    ap.add_argument("--from-obligation")
    ap.add_argument("--scenario")
    args = ap.parse_args(argv)
    print("testtools from %s" % os.path.dirname(testtools.__file__))
    if args.scenario:
        todo = [json.loads(args.scenario)]
    else:
        target = ""
        if args.from_obligation:
            try:
                target = str(json.loads(args.from_obligation).get("target") or "")
            except Exception:
                target = ""
        todo = scenarios(int(os.environ.get("VERIF_SEED", "0") or 0), target)
    deadline, n = time.time() + args.budget, 0
    for sc in todo:
        if not args.scenario and time.time() > deadline:
            break
        n += 1
        failure = judge(sc)
        if failure:
            print("C13 violated after %d scenario(s)" % n)
            print(json.dumps(failure))
            return 1
    print("C13: %d scenario(s), no violation" % n)
    return 0


if __name__ == "__main__":
    try:
        code = main(sys.argv[1:])
    except SystemExit:
        raise
    except BaseException:
        import traceback
        traceback.print_exc()
        code = 2
    sys.stdout.flush()
    sys.exit(code)
