#!/venv/bin/python
"""Replay / counterexample search for property C20 (testtools.twistedsupport).

ORACLE (from the property statement, observable behaviour only)
  A scenario builds one Deferred and applies a sequence of ops to it: attach a
  harness callback, fire (value / failure), match (has_no_result, succeeded(m),
  failed(m)) or extract_result.  The harness keeps a *lockstep model* of the
  Deferred's current result: only harness callbacks transform results, each one
  checks that the object it receives IS the one the model predicts and then
  records what it returns/raises.  Against that model we require:
    * has_no_result() matches iff unfired; succeeded(m) iff fired with a value
      and m matches it; failed(m) iff fired with a failure and m matches the
      Failure (so exactly one of the three "Always" forms matches);
    * the inner matcher is called exactly once with that very value (or with a
      Failure wrapping that very exception) when applicable, never otherwise;
    * extract_result returns that very value / raises that very exception /
      raises DeferredNotFired;
    * match() never changes Deferred.called, and callbacks attached (or run)
      after matching an unfired or successful Deferred still see the untouched
      result (this is what the lockstep check in later callbacks verifies);
    * after succeeded()/failed() inspected a failure, dropping the Deferred and
      garbage collecting logs no "Unhandled error in Deferred" (also nothing is
      logged when the Deferred ends unfired or successful).
  Whatever the statement leaves open is not judged: the result after a failure
  was inspected / after extract_result ("unknown" model state), and the log
  after has_no_result() on a failure.
  "runtest" scenarios run a TestCase whose setUp / test / tearDown / cleanup
  returns an already-fired Deferred under SynchronousDeferredRunTest and
  require the same ExtendedTestResult event log (event names, detail keys,
  last traceback line, reasons) as plain RunTest gives when the same thing is
  returned / raised directly, and a clean Twisted log.

ENUMERATION
  1. all runtest scenarios (4 places x 7 outcomes x up to 4 ways to fire);
  2. exhaustive small Deferred scenarios: 8 start states x 0..2 pre-attached
     callbacks (7 kinds) x fire-before-match x 16 middle ops (3 matchers x 7
     inner matchers, extract) x fire-after-match x second op, probes at the end;
  3. seeded random (VERIF_SEED) op sequences of length <= 9 over the full
     alphabets (11 values, 7 exceptions incl. a BaseException, 16 inners).
"""

import argparse
import gc
import itertools
import json
import os
import random
import sys
import time

from twisted.internet import defer
from twisted.logger import globalLogBeginner
from twisted.python.failure import Failure

from testtools import RunTest, TestCase
from testtools.matchers import AfterPreprocessing, Always, Equals, Is, Never
from testtools.testresult.doubles import ExtendedTestResult
from testtools.twistedsupport import (
    SynchronousDeferredRunTest, failed, has_no_result, succeeded)
from testtools.twistedsupport._deferred import DeferredNotFired, extract_result

LOG = []
globalLogBeginner.beginLoggingTo(
    [lambda ev: LOG.append(ev) if ev.get("isError") or "log_failure" in ev else None],
    discardBuffer=True, redirectStandardIO=False)


class Custom(Exception):
    pass


class Odd(BaseException):
    pass


VALUES = {
    "none": lambda: None, "zero": lambda: 0, "int": lambda: 42, "false": lambda: False,
    "str": lambda: "x", "empty": lambda: [], "tuple": lambda: (),
    "nested": lambda: [1, [2, {"k": None}]], "dict": lambda: {"a": {"b": []}},
    "excval": lambda: ValueError("a value, not a failure"), "obj": lambda: object(),
}
EXCS = {
    "runtime": lambda: RuntimeError("boom"), "value": lambda: ValueError(),
    "key": lambda: KeyError("k"), "assertion": lambda: AssertionError("a"),
    "zerodiv": lambda: ZeroDivisionError("z"), "custom": lambda: Custom("c", 1),
    "base": lambda: Odd("odd"),
}
CB_KINDS = ["probe", "wrap", "none", "raise", "recover", "chain_ok", "chain_fail", "chain_wait"]
UNFIRED, UNKNOWN, WAITING = ("unfired",), ("unknown",), ("waiting",)
# "waiting": the Deferred was fired, but a callback returned a Deferred that has not fired yet (a nested result that is still
# outstanding): there is neither a value nor a failure, so it is classified like an unfired one until the inner one fires ("release")


def show(state):
    return state[0] if len(state) == 1 else "%s:%r" % state


class Recorder:
    """Inner matcher wrapper: records every matchee, delegates to a real matcher."""

    def __init__(self, delegate, calls):
        self.delegate, self.calls = delegate, calls

    def __str__(self):
        return "Recorder(%s)" % (self.delegate,)

    def match(self, matchee):
        self.calls.append(matchee)
        return self.delegate.match(matchee)


class Run:
    """One Deferred, the lockstep model of its current result, and the verdicts."""

    def __init__(self, start):
        self.vals = {k: f() for k, f in VALUES.items()}
        self.excs = {k: f() for k, f in EXCS.items()}
        self.cur, self.fired, self.tainted = UNFIRED, False, False
        self.log_unspecified = False
        self.problems = []
        self.ncb = 0
        self.inner = None
        if start[0] == "unfired":
            self.d = defer.Deferred()
        elif start[0] == "value":
            self.cur, self.fired = ("ok", self.vals[start[1]]), True
            self.d = defer.succeed(self.cur[1])
        else:
            self.fired = True
            self.d = defer.fail(self._failure(start[1], start[2]))

    def problem(self, observed, required):
        self.problems.append((observed, required))

    def _failure(self, key, raised):
        exc = self.excs[key]
        self.cur = ("err", exc)
        if not raised:
            return Failure(exc)
        try:
            raise exc
        except BaseException:
            return Failure()

    # -- ops ---------------------------------------------------------------
    def fire(self, how, key, raised=False):
        if self.fired:
            return
        self.fired = True
        if how == "value":
            self.cur = ("ok", self.vals[key])
            self.d.callback(self.cur[1])
        else:
            self.d.errback(self._failure(key, raised))
        if self.tainted:
            self.cur = UNKNOWN

    def release(self, key):
        """fire the outstanding nested Deferred with a value"""
        if self.inner is None or self.inner.called:
            return
        if self.cur is WAITING:
            self.cur = ("ok", self.vals[key])
        self.inner.callback(self.vals[key])

    def add_cb(self, kind):
        self.ncb += 1
        label = "harness callback #%d (%s)" % (self.ncb, kind)
        checked = not self.tainted
        if not checked and kind in ("raise", "chain_fail"):
            self.log_unspecified = True

        def step(x, path, checked=checked):
            checked = checked and self.cur is not UNKNOWN     # queued behind a nested result and run after the model lost track
            if checked:
                exc = getattr(x, "value", None) if path == "err" else None
                same = self.cur[0] == path and self.cur[1] is (x if path == "ok" else exc)
                if not same or (path == "err" and not isinstance(x, Failure)):
                    self.problem(
                        "%s received %s:%r" % (label, path, x),
                        "it must receive the untouched current result %s (same object)"
                        % show(self.cur))

            if kind == "probe":
                return x
            if kind == "chain_wait" and self.inner is None:
                self.inner = defer.Deferred()
                if checked:
                    self.cur = WAITING
                return self.inner
            if kind in ("raise", "chain_fail"):
                new = ("err", KeyError("from-callback") if kind == "raise" else LookupError("chained"))
            else:
                new = ("ok", {"wrap": [x], "none": None, "chain_ok": ("chained", x), "chain_wait": [x],
                              "recover": ("recovered", type(getattr(x, "value", x)).__name__)}[kind])
            if checked:
                self.cur = new
            if kind == "raise":
                raise new[1]
            return {"chain_ok": defer.succeed, "chain_fail": defer.fail}.get(kind, lambda o: o)(new[1])

        if kind == "probe":
            self.d.addCallbacks(lambda v: step(v, "ok"), lambda f: step(f, "err"))
        elif kind == "recover":
            self.d.addErrback(lambda f: step(f, "err"))
        elif kind in CB_KINDS:
            self.d.addCallback(lambda v: step(v, "ok"))
        else:
            raise ValueError("unknown callback kind %r" % (kind,))

    def _inner(self, name, calls):
        """Return (matcher, predicate(state)) for an inner matcher name."""
        head, _, key = name.partition(":")
        if head == "always":
            m, pred = Always(), lambda s: True
        elif head == "never":
            m, pred = Never(), lambda s: False
        elif head == "is_none":
            m, pred = Is(None), lambda s: s[0] == "ok" and s[1] is None
        elif head == "equals":
            want = self.vals[key]
            m, pred = Equals(want), lambda s: s[0] == "ok" and bool(s[1] == want)
        elif head == "exc_type":
            cls = type(self.excs[key])
            m = AfterPreprocessing(lambda f: getattr(f, "type", None), Is(cls))
            pred = lambda s: s[0] == "err" and type(s[1]) is cls
        elif head == "exc_is":
            want = self.excs[key]
            m = AfterPreprocessing(lambda f: getattr(f, "value", None), Is(want))
            pred = lambda s: s[0] == "err" and s[1] is want
        else:
            raise ValueError("unknown inner matcher %r" % (name,))
        return Recorder(m, calls), pred

    def match(self, which, inner="always"):
        calls = []
        m_inner, pred = self._inner(inner, calls)
        if which == "no_result":
            matcher = has_no_result()
        elif which in ("succeeded", "failed"):
            matcher = (succeeded if which == "succeeded" else failed)(m_inner)
        else:
            raise ValueError("unknown matcher %r" % (which,))
        state, called = self.cur, self.d.called
        what = "%s(%s).match on a Deferred in state %s" % (which, inner, show(state))
        try:
            matched = matcher.match(self.d) is None
        except BaseException as e:
            matched = "raised %r" % (e,)
        if self.d.called != called:
            self.problem("%s changed Deferred.called from %r to %r" % (what, called, self.d.called),
                         "matching never fires a Deferred")
        if state is UNKNOWN:
            return
        kind = state[0]
        applicable = {"no_result": False, "succeeded": kind == "ok", "failed": kind == "err"}[which]
        expected = (kind in ("unfired", "waiting")) if which == "no_result" else (applicable and pred(state))
        if matched is not expected:
            self.problem("%s -> %s" % (what, {True: "match", False: "mismatch"}.get(matched, matched)),
                         "match" if expected else "mismatch")
        if applicable:
            ok = len(calls) == 1 and (
                calls[0] is state[1] if kind == "ok"
                else isinstance(calls[0], Failure) and calls[0].value is state[1])
        else:
            ok = not calls
        if not ok:
            self.problem("%s called the inner matcher with %r" % (what, calls),
                         "inner matcher called exactly once with the result" if applicable
                         else "inner matcher not consulted")
        if kind == "err":   # result after inspecting a failure is unspecified
            self.tainted, self.cur = True, UNKNOWN
            if which == "no_result":
                self.log_unspecified = True

    def extract(self):
        state = self.cur
        try:
            got = ("ok", extract_result(self.d))
        except DeferredNotFired:
            got = UNFIRED
        except BaseException as e:
            got = ("err", e)
        if state is not UNKNOWN and not (
                got[0] == ("unfired" if state is WAITING else state[0]) and (len(got) == 1 or got[1] is state[1])):
            did = {"ok": "returned %r", "err": "raised %r"}.get(got[0], "raised DeferredNotFired%s")
            self.problem(
                "extract_result on a Deferred in state %s %s"
                % (show(state), did % ((got[1:] or ("",))[0],)),
                {"ok": "return that very value", "err": "raise that very exception",
                 "unfired": "raise DeferredNotFired", "waiting": "raise DeferredNotFired (no value yet)"}[state[0]])
        self.tainted = self.log_unspecified = True
        if self.fired:
            self.cur = UNKNOWN

    def finish(self):
        """Return True when the property requires a clean Twisted log after gc."""
        check_log = not self.log_unspecified and self.cur[0] != "err"
        if not check_log:
            self.d.addErrback(lambda f: None)
        return check_log


def collect_log():
    del LOG[:]
    gc.collect()
    gc.collect()
    out = [str(ev.get("log_failure") or ev.get("log_format")) for ev in LOG]
    del LOG[:]
    return out


def run_deferred(sc):
    run = Run(sc["start"])
    for op in sc["ops"]:
        name, args = op[0], op[1:]
        {"cb": run.add_cb, "fire": run.fire, "match": run.match, "extract": run.extract, "release": run.release}[name](*args)
    problems, check_log = run.problems, run.finish()
    del run
    logged = collect_log()
    if check_log and logged:
        problems.append((
            "Twisted log after dropping the Deferred and gc: %r" % (logged,),
            "nothing logged: the Deferred ended unfired/successful or its failure was "
            "inspected by succeeded()/failed() and so is handled"))
    return problems


# -- SynchronousDeferredRunTest -------------------------------------------
RT_WHERE = ["test", "setUp", "tearDown", "cleanup"]
RT_WHAT = ["value:none", "value:int", "error", "failure", "skip", "xfail", "unexpected_success"]
RT_VIA = ["fired", "callback", "maybe", "chained"]


def rt_exception(case, what):
    return {"error": lambda: RuntimeError("boom"), "failure": lambda: case.failureException("nope"),
            "skip": lambda: case.skipException("why")}[what]()


def rt_direct(case, what):
    if what.startswith("value:"):
        return VALUES[what[6:]]()
    if what == "xfail":
        case.expectFailure("xf", case.assertEqual, 1, 2)
    if what == "unexpected_success":
        case.expectFailure("xf", case.assertEqual, 1, 1)
    raise rt_exception(case, what)


def rt_act(case, what, via):
    if via == "direct":
        return rt_direct(case, what)
    if via == "fired":
        if what.startswith("value:"):
            return defer.succeed(VALUES[what[6:]]())
        return defer.fail(rt_exception(case, what))
    if via == "callback":
        return defer.succeed(None).addCallback(lambda _: rt_direct(case, what))
    if via == "maybe":
        return defer.maybeDeferred(rt_direct, case, what)
    if via == "chained":
        return defer.succeed(None).addCallback(lambda _: defer.maybeDeferred(rt_direct, case, what))
    raise ValueError("unknown via %r" % (via,))


def rt_events(where, what, via, runner):
    class Sample(TestCase):
        run_tests_with = runner

        def setUp(self):
            super().setUp()
            if where == "cleanup":
                self.addCleanup(rt_act, self, what, via)
            if where == "setUp":
                return rt_act(self, what, via)

        def test_it(self):
            if where == "test":
                return rt_act(self, what, via)

        def tearDown(self):
            super().tearDown()
            if where == "tearDown":
                return rt_act(self, what, via)

    result = ExtendedTestResult()
    try:
        Sample("test_it").run(result)
    except BaseException as e:
        return [["run() raised", repr(e)]]
    events = []
    for ev in result._events:
        item = [ev[0]]
        for arg in ev[2:]:
            if isinstance(arg, dict):
                item.append({k: (v.as_text().strip().splitlines() or [""])[-1]
                             for k, v in sorted(arg.items())})
            else:
                item.append(str(arg))
        events.append(item)
    return events


def run_runtest(sc):
    where, what, via = sc["where"], sc["what"], sc["via"]
    if where not in RT_WHERE or what not in RT_WHAT or via not in RT_VIA:
        raise ValueError("bad runtest scenario %r" % (sc,))
    reference = rt_events(where, what, "direct", RunTest)
    collect_log()
    observed = rt_events(where, what, via, SynchronousDeferredRunTest)
    logged = collect_log()
    problems = []
    if observed != reference:
        problems.append(("SynchronousDeferredRunTest events %r" % (observed,),
                         "same events as returning/raising directly under RunTest: %r" % (reference,)))
    if logged:
        problems.append(("Twisted log after the run and gc: %r" % (logged,),
                         "nothing logged, as if the test had returned or raised directly"))
    return problems


def run_scenario(sc):
    return {"deferred": run_deferred, "runtest": run_runtest}[sc["kind"]](sc)


# -- enumeration -----------------------------------------------------------
def runtest_scenarios():
    for where, what, via in itertools.product(RT_WHERE, RT_WHAT, RT_VIA):
        if via == "fired" and what in ("xfail", "unexpected_success"):
            continue    # no public exception object to put in defer.fail()
        yield {"kind": "runtest", "where": where, "what": what, "via": via}


def small_scenarios():
    starts = [["unfired"], ["value", "none"], ["value", "int"], ["value", "nested"],
              ["value", "excval"], ["failure", "runtime", False], ["failure", "key", True],
              ["failure", "base", False]]
    fire_before = [None, ["fire", "value", "int"], ["fire", "value", "none"],
                   ["fire", "failure", "runtime", True]]
    fire_after = [None, ["fire", "value", "nested"], ["fire", "failure", "key", False]]
    inners = ["always", "never", "equals:int", "equals:none", "is_none",
              "exc_type:runtime", "exc_is:runtime"]
    middle = ([["match", "no_result", "always"], ["extract"]]
              + [["match", w, i] for w in ("succeeded", "failed") for i in inners])
    second = [None, ["match", "succeeded", "always"], ["match", "failed", "always"],
              ["match", "no_result", "always"], ["extract"]]
    pres = [[]] + [[k] for k in CB_KINDS] + [list(p) for p in itertools.product(CB_KINDS, repeat=2)]
    for pre in pres:
        for start in starts:
            for fb in (fire_before if start[0] == "unfired" else [None]):
                unfired = start[0] == "unfired" and fb is None
                for mid in middle:
                    for fa in (fire_after if unfired else [None]):
                        for sec in (second if len(pre) < 2 else [None]):
                            ops = [["cb", k] for k in pre] + [fb, mid, fa, ["cb", "probe"], sec,
                                                             ["release", "nested"] if "chain_wait" in pre else None,
                                                             ["cb", "wrap"], ["cb", "probe"]]
                            yield {"kind": "deferred", "start": start,
                                   "ops": [op for op in ops if op is not None]}


def random_scenario(rng):
    inners = (["always", "never", "is_none"] + ["equals:" + k for k in VALUES if k != "obj"]
              + ["exc_type:runtime", "exc_type:key", "exc_is:runtime", "exc_is:base"])

    def fire():
        if rng.random() < 0.5:
            return ["value", rng.choice(sorted(VALUES))]
        return ["failure", rng.choice(sorted(EXCS)), rng.random() < 0.5]
    start = ["unfired"] if rng.random() < 0.5 else fire()
    ops = []
    for _ in range(rng.randint(1, 9)):
        r = rng.random()
        if r < 0.4:
            ops.append(["cb", rng.choice(CB_KINDS)])
        elif r < 0.55:
            ops.append(["fire"] + fire())
        elif r < 0.6:
            ops.append(["release", rng.choice(sorted(VALUES))])
        elif r < 0.95:
            ops.append(["match", rng.choice(["no_result", "succeeded", "failed"]), rng.choice(inners)])
        else:
            ops.append(["extract"])
    return {"kind": "deferred", "start": start, "ops": ops + [["cb", "probe"]]}


def exercises(sc, target):
    """Does the scenario exercise the function named by the obligation hint?"""
    t = target.lower()
    if "runtest" in t or "_run_user" in t:
        return sc["kind"] == "runtest"
    if sc["kind"] != "deferred":
        return "extract_result" in t
    for key, op in (("noresult", ["match", "no_result"]), ("no_result", ["match", "no_result"]),
                    ("succeeded", ["match", "succeeded"]), ("failed", ["match", "failed"]),
                    ("extract_result", ["extract"])):
        if key in t:
            return any(o[:len(op)] == op for o in sc["ops"])
    return True


def report(sc, problems):
    observed, required = problems[0]
    for o, r in problems[1:]:
        print("also: observed %s; required %s" % (o, r))
    print(json.dumps({"scenario": sc, "observed": observed, "required": required}))
    return 1


def main(argv):
    ap = argparse.ArgumentParser()
    ap.add_argument("--budget", type=float, default=60.0)
    ap.add_argument("--from-obligation", default=None)
    ap.add_argument("--scenario", default=None)
    args = ap.parse_args(argv)
    gc.disable()
    if args.scenario is not None:
        sc = json.loads(args.scenario)
        problems = run_scenario(sc)
        if problems:
            return report(sc, problems)
        print("scenario satisfies the property")
        return 0
    target = ""
    if args.from_obligation:
        try:
            target = str(json.loads(args.from_obligation).get("target") or "")
        except Exception:
            target = ""
    deadline = time.monotonic() + args.budget
    rng = random.Random(int(os.environ.get("VERIF_SEED", "0") or 0))
    fixed = list(runtest_scenarios()) + list(small_scenarios())
    if target:
        fixed.sort(key=lambda sc: not exercises(sc, target))
    gc.collect()
    gc.freeze()     # keeps the per-scenario gc.collect() cheap
    count = 0
    for sc in itertools.chain(fixed, (random_scenario(rng) for _ in range(40000))):
        if time.monotonic() > deadline:
            print("budget exhausted")
            break
        count += 1
        problems = run_scenario(sc)
        if problems:
            print("failing scenario after %d scenarios" % count)
            return report(sc, problems)
    print("no failing scenario among %d scenarios (%d enumerated + random)" % (count, len(fixed)))
    return 0


if __name__ == "__main__":
    try:
        code = main(sys.argv[1:])
    except SystemExit as e:
        code = 2 if e.code not in (0, None) else 0
    except BaseException:
        import traceback
        traceback.print_exc()
        code = 2
    sys.stdout.flush()
    sys.exit(code)
