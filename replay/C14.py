#!/venv/bin/python
"""Replay / counterexample search for C14 (AsynchronousDeferredRunTest).

Oracle (from the property statement, observable behaviour only).  A scenario is
a test program -- setUp, test method, tearDown and 0..3 cleanups, each doing one
ACTION -- plus a timeout, an optional interrupt instant, the runner variant
(plain / ForBrokenTwisted) and the two logging switches.  It is run against a
virtual-time reactor (deterministic; time only moves when the reactor is idle)
or, for a few well separated timings, against the real Twisted reactor.  Every
stage appends (name, reactor time) to a stage log when it starts.  A small model
of the statement predicts:
  * stage log: setUp, then (only if setUp was clean) test and tearDown, then the
    cleanups in reverse registration order, each starting exactly when the
    previous one completed (return/raise: at once; Deferred: when it fires);
    nothing starts after the timeout / interrupt cut the run;
  * events: startTest, exactly ONE outcome, stopTest.  addSuccess iff no stage
    raised / failed / skipped, no logged error was left unflushed, no failed
    Deferred was dropped, no delayed call was left behind and the run was not
    cut; addSkip if skips are the only blemish; addError otherwise (always for a
    timeout or an interrupt);
  * result.shouldStop iff the run was interrupted;
  * afterwards reactor.getDelayedCalls() == [] and Twisted's global log
    observers (legacy and new publisher) are the same objects as before;
  * run() itself does not raise and the reactor is never left spinning forever.
Where the statement is silent (something happening exactly AT the cut instant,
a delayed call due exactly when the run ends) both readings are accepted.

Enumeration: (A) one deviating stage: 5 positions x 16 actions x all timeouts /
interrupt instants relative to its delays x 8 runner configurations; (A') ~20
real-reactor scenarios; (B) all pairs of deviating stages (10 x 16^2 programs)
x relative timings, cycling the configurations; (C) seeded random programs
(VERIF_SEED) with 0..3 cleanups until the budget is spent.
"""
import argparse
import gc
import itertools
import json
import os
import random
import signal
import sys
import time

INF = float("inf")
REAL_EPS = 0.2  # real reactor: instants closer than this are "the same instant"


def A(k, d=None):
    return {"k": k, "d": d}


ALPHABET = [A("return"), A("raise"), A("skip"), A("fire"), A("fire", 0), A("fire", 1),
            A("fire", 3), A("fail"), A("fail", 1), A("never"), A("leave", 0), A("leave", 2),
            A("leave", 1000), A("log_err"), A("log_flush"), A("drop"), A("relay")]
# relay: leaves a zero-delay call that, when it fires, schedules a far-away call -- something is left scheduled whenever the run ends


# ----------------------------------------------------------------- model ----
def stages_of(sc):
    """(name, action) in the order the property prescribes, given setUp's fate."""
    n = len(sc["cleanups"])
    cleanups = [("cleanup%d" % i, sc["cleanups"][i]) for i in reversed(range(n))]
    head = [("setUp", sc["setUp"])]
    if sc["setUp"]["k"] not in ("raise", "skip", "fail"):
        head += [("test", sc["test"]), ("tearDown", sc["tearDown"])]
    return head + cleanups


def predict(sc, ties_before):
    """Expected (stage log, acceptable outcomes, acceptable shouldStop values)."""
    eps = REAL_EPS if sc["reactor"] == "real" else 0.0
    # instant 0 is the synchronous first reactor turn: it precedes every timer, even on a wall clock
    same = lambda a, b: a == b or (abs(a - b) <= eps and min(a, b) > 0)
    before = lambda a, b: (a < b or same(a, b)) if ties_before else (a < b and not same(a, b))
    timeout = sc["timeout"]
    intr = INF if sc.get("interrupt") is None else sc["interrupt"]
    cut = min(timeout, intr)
    t, log, hard, skipped, leftovers, was_cut, unflushed = 0.0, [], False, False, [], False, False
    for name, a in stages_of(sc):
        if not before(t, cut):
            was_cut = True
            break
        log.append([name, t])
        k, d = a["k"], a["d"] or 0
        if k in ("raise", "fail", "drop"):
            hard = True
        elif k in ("log_err", "log_flush"):
            unflushed = k == "log_err"  # log_flush logs, then flushes everything logged so far
        elif k == "skip":
            skipped = True
        elif k == "leave":
            leftovers.append(t + d)
        elif k == "relay":
            leftovers.append(t + 1000)
        t = INF if k == "never" else t + (d if k in ("fire", "fail") else 0)
        if not before(t, cut):
            was_cut = True
            break
    if was_cut:
        stops = {True, False} if same(intr, timeout) else {intr < timeout}
        return log, {"addError"}, stops
    if sc["reactor"] == "real" and intr != INF:
        leftovers.append(intr)  # the pending SIGINT call itself is left behind
    maybe_junk = any(same(l, t) for l in leftovers)
    if any(l > t and not same(l, t) for l in leftovers):
        hard = True
    outcomes = {"addError"} if hard or unflushed else {"addSkip"} if skipped else {"addSuccess"}
    if skipped:  # the statement only says "not success" when a skip and an error coincide
        outcomes = outcomes | {"addSkip"}
    if maybe_junk:
        outcomes = outcomes | {"addError"}
    return log, outcomes, {False}


# --------------------------------------------------------------- running ----
def make_vreactor(interrupt):
    from twisted.internet.task import Clock

    class VReactor(Clock):
        """Virtual-time reactor: run() jumps straight to the next delayed call."""
        hung = False
        running = False

        def callWhenRunning(self, f, *a, **kw):
            self._startup = getattr(self, "_startup", []) + [(f, a, kw)]

        def stop(self):  # what SIGINT's default handler calls
            self.crash()

        def crash(self):
            self.running = False

        def removeAll(self):
            return []

        def getDelayedCalls(self):  # a fresh list, like the real reactors
            return list(self.calls)

        def iterate(self, delay=0):
            self.advance(delay)

        def run(self, installSignalHandlers=True):
            self.running, pending = True, interrupt
            startup, self._startup = getattr(self, "_startup", []), []
            for f, a, kw in startup:
                f(*a, **kw)
            while self.running:
                nxt = min((c.getTime() for c in self.getDelayedCalls()), default=None)
                if pending is not None and (nxt is None or pending < nxt):
                    self.advance(max(0, pending - self.seconds()))
                    pending = None
                    self.stop()  # an interrupt, delivered from outside the reactor
                elif nxt is None or nxt > 1e5:
                    self.hung = True  # nothing will ever stop this reactor
                    break
                else:
                    self.advance(max(0, nxt - self.seconds()))

    return VReactor()


def observers():
    from twisted.python import log
    obs = list(log.theLogPublisher.observers)
    try:
        from twisted.logger import globalLogPublisher
        obs += list(globalLogPublisher._observers)
    except Exception:
        pass
    return sorted(id(o) for o in obs), obs  # keep obs alive so ids stay unique


def run_scenario(sc):
    """Run the scenario on the real code; return the observations."""
    import testtools
    from testtools.testresult.doubles import ExtendedTestResult
    from testtools.twistedsupport import (AsynchronousDeferredRunTest,
                                          AsynchronousDeferredRunTestForBrokenTwisted,
                                          flush_logged_errors)
    from twisted.internet import defer
    from twisted.python import log

    real = sc["reactor"] == "real"
    if real:
        from twisted.internet import reactor
    else:
        reactor = make_vreactor(sc.get("interrupt"))
    stage_log, t0 = [], []

    def act(case, name, a):
        if not t0:
            t0.append(reactor.seconds() if real else 0.0)
        stage_log.append([name, round(reactor.seconds() - t0[0], 6)])
        k, d = a["k"], a["d"]
        if k == "raise":
            raise RuntimeError("boom in " + name)
        if k == "skip":
            case.skipTest("skip in " + name)
        if k in ("fire", "fail"):
            value = None if k == "fire" else RuntimeError("failed Deferred in " + name)
            if d is None:
                return defer.succeed(None) if k == "fire" else defer.fail(value)
            deferred = defer.Deferred()
            reactor.callLater(d, deferred.callback if k == "fire" else deferred.errback, value)
            return deferred
        if k == "never":
            return defer.Deferred()
        if k == "leave":
            reactor.callLater(d, lambda: None)
        if k == "relay":
            reactor.callLater(0, reactor.callLater, 1000, lambda: None)
        if k in ("log_err", "log_flush"):
            log.err(RuntimeError("logged in " + name))
            if k == "log_flush":
                flush_logged_errors(RuntimeError)
        if k == "drop":
            defer.fail(RuntimeError("dropped in " + name))
        return None

    class Case(testtools.TestCase):
        def setUp(self):
            super().setUp()
            for i, a in enumerate(sc["cleanups"]):
                self.addCleanup(act, self, "cleanup%d" % i, a)
            return act(self, "setUp", sc["setUp"])

        def test_it(self):
            return act(self, "test", sc["test"])

        def tearDown(self):
            super().tearDown()
            return act(self, "tearDown", sc["tearDown"])

    cls = (AsynchronousDeferredRunTestForBrokenTwisted if sc["variant"] == "broken"
           else AsynchronousDeferredRunTest)
    factory = cls.make_factory(reactor=reactor, timeout=sc["timeout"],
                               suppress_twisted_logging=sc["suppress"],
                               store_twisted_logs=sc["store"])
    case = Case("test_it", runTest=factory)
    result = ExtendedTestResult()
    flush_logged_errors()
    probe = lambda event: None
    log.addObserver(probe)  # something for the suppression fixture to remove and restore
    before, keep_alive = observers()
    if real and sc.get("interrupt") is not None:
        reactor.callLater(sc["interrupt"], os.kill, os.getpid(), signal.SIGINT)
    raised = None
    try:
        case.run(result)
    except BaseException as e:  # noqa: the property says an outcome is reported instead
        raised = repr(e)
    after, _ = observers()
    pending = reactor.getDelayedCalls()
    texts = [d.as_text() for e in result._events if e[0].startswith("add") and len(e) > 2
             and isinstance(e[2], dict) for n, d in sorted(e[2].items()) if n != "twisted-log"]
    obs = {"events": [e[0] for e in result._events], "shouldStop": bool(result.shouldStop),
           "details": " | ".join(t.strip().splitlines()[-1][:120] for t in texts if t.strip()),
           "stages": stage_log, "pending_calls": len(pending), "observers_same": before == after,
           "raised": raised, "hung": bool(getattr(reactor, "hung", False))}
    for call in pending:  # leave the process clean for the next scenario
        call.cancel()
    if not real and any(a["k"] == "log_err" for _, a in stages_of(sc)):
        # history: the next test of the same process, doing nothing at all, must be reported as a success -- what an earlier run
        # logged (however that run ended) is not a blemish of THIS test
        class Clean(testtools.TestCase):
            def test_clean(self):
                pass
        r2 = make_vreactor(None)
        f2 = cls.make_factory(reactor=r2, timeout=5, suppress_twisted_logging=sc["suppress"], store_twisted_logs=sc["store"])
        res2 = ExtendedTestResult()
        try:
            Clean("test_clean", runTest=f2).run(res2)
            obs["followup"] = [e[0] for e in res2._events]
        except BaseException as e:  # noqa
            obs["followup"] = ["raised %r" % (e,)]
        for call in r2.getDelayedCalls():
            call.cancel()
        del r2, f2, res2
    log.removeObserver(probe)
    del case, result, reactor, factory, keep_alive
    gc.collect()  # self-contained: a failed Deferred kept alive by a traceback cycle must not be
    # finalised -- and logged as an error -- in the middle of a later scenario
    flush_logged_errors()
    return obs


def judge(sc, obs):
    """Return a string describing what the property requires if violated, else None."""
    real = sc["reactor"] == "real"
    preds = [predict(sc, True), predict(sc, False)]
    if real and preds[0] != preds[1]:
        return None  # too close to call on a wall clock: inconclusive
    if obs["raised"]:
        return "run() reports an outcome to the result instead of raising"
    if obs["hung"]:
        return "the run ends at the latest when the timeout expires"
    ev = obs["events"]
    outcomes = [e for e in ev if e.startswith("add")]
    if ev[:1] != ["startTest"] or ev[-1:] != ["stopTest"] or len(outcomes) != 1:
        return "exactly one outcome between startTest and stopTest"
    ok_outcomes = preds[0][1] | preds[1][1]
    if outcomes[0] not in ok_outcomes:
        return "outcome in %s" % sorted(ok_outcomes)
    ok_stop = preds[0][2] | preds[1][2]
    if obs["shouldStop"] not in ok_stop:
        return "result.shouldStop in %s (stop is requested iff interrupted)" % sorted(ok_stop)
    strip = (lambda l: [n for n, _ in l]) if real else (lambda l: [[n, float(t)] for n, t in l])
    if strip(obs["stages"]) not in [strip(p[0]) for p in preds]:
        return "stages start in order, each when the previous completed: %s" % json.dumps(
            [strip(p[0]) for p in preds[:1 + (preds[0][0] != preds[1][0])]])
    if obs["pending_calls"]:
        return "no delayed calls pending in the reactor after the run"
    if not obs["observers_same"]:
        return "Twisted log observers after the run are exactly those installed before"
    if obs.get("followup") not in (None, ["startTest", "addSuccess", "stopTest"]):
        return ("the next test run in the same process (a test that does nothing) is reported as startTest, addSuccess, stopTest: "
                "errors logged during an earlier run do not leak into it")
    return None


# ----------------------------------------------------------- enumeration ----
CONFIGS = [{"variant": v, "suppress": s, "store": c}
           for v in ("plain", "broken") for s in (True, False) for c in (True, False)]


def program(cleanups=2, **deviations):
    p = {"setUp": A("return"), "test": A("return"), "tearDown": A("return"),
         "cleanups": [A("return") for _ in range(cleanups)]}
    for pos, a in deviations.items():
        if pos.startswith("cleanup"):
            p["cleanups"][int(pos[7:])] = a
        else:
            p[pos] = a
    return p


def timings(p):
    """(timeout, interrupt) pairs placed relative to the program's own delays."""
    t, done, never = 0.0, [], False
    for _, a in stages_of(p):
        if a["k"] == "never":
            never = True
            break
        t += (a["d"] or 0) if a["k"] in ("fire", "fail") else 0
        done.append(t)
    finite = sorted({x for x in done if x > 0})  # instants at which a Deferred fires
    if never:
        points = finite + [t + 1]
        return [(x - 0.5, None) for x in points] + [(t + 1.5, x - 0.75) for x in points]
    out = [(t + 0.5, None), (t + 0.5, t + 0.25)]  # no cut; interrupt only after the end
    out += [(x - 0.5, None) for x in finite] + [(t + 0.5, x - 0.75) for x in finite]
    return out + [(x, None) for x in finite]  # something completes exactly at the timeout


def real_scenarios():
    progs = [(program(), 0.5, None), (program(test=A("fire", 0.001)), 0.5, None),
             (program(test=A("never")), 0.01, None), (program(setUp=A("fire", 0.4)), 0.01, None),
             (program(tearDown=A("fail", 0.001)), 0.5, None),
             (program(cleanup0=A("leave", 1000)), 0.5, None),
             (program(test=A("never")), 0.5, 0.005), (program(cleanup1=A("log_err")), 0.5, None),
             (program(test=A("drop"), cleanup1=A("fire", 0.001)), 0.5, None),
             (program(cleanup1=A("never"), test=A("log_flush")), 0.5, 0.005)]
    for i, (p, timeout, intr) in enumerate(progs):
        for cfg in (CONFIGS[i % 8], CONFIGS[(i + 5) % 8]):
            yield dict(p, reactor="real", timeout=timeout, interrupt=intr, **cfg)


def small_scenarios():
    positions = ["setUp", "test", "tearDown", "cleanup0", "cleanup1"]
    for pos in positions:  # (A) one deviating stage, every configuration
        for a in ALPHABET:
            p = program(**{pos: a})
            for (timeout, intr), cfg in itertools.product(timings(p), CONFIGS):
                yield dict(p, reactor="virtual", timeout=timeout, interrupt=intr, **cfg)
    yield from real_scenarios()  # (A')
    n = 0
    for p1, p2 in itertools.combinations(positions, 2):  # (B) pairs
        for a1, a2 in itertools.product(ALPHABET, ALPHABET):
            p = program(**{p1: a1, p2: a2})
            for timeout, intr in timings(p):
                n += 1
                yield dict(p, reactor="virtual", timeout=timeout, interrupt=intr, **CONFIGS[n % 8])


def random_scenarios(rng):
    while True:  # (C)
        def action():
            k = rng.choice(["return", "return", "raise", "skip", "fire", "fire", "fail", "never",
                            "leave", "log_err", "log_flush", "drop", "relay"])
            d = rng.choice([None, 0, 1, 2, 3]) if k in ("fire", "fail") else \
                rng.choice([0, 1, 2, 1000]) if k == "leave" else None
            return A(k, d)
        p = {"setUp": action() if rng.random() < 0.3 else A("return"), "test": action(),
             "tearDown": action(), "cleanups": [action() for _ in range(rng.randrange(4))]}
        timeout, intr = rng.choice(timings(p))
        yield dict(p, reactor="virtual", timeout=timeout, interrupt=intr, **rng.choice(CONFIGS))


def priority(target):
    """Scenarios exercising the function named by the failed obligation go first."""
    t = (target or "").lower()
    has = lambda sc, kinds: any(a["k"] in kinds for _, a in stages_of(sc))
    if "cleanup" in t:
        return lambda sc: not any(a["k"] != "return" for a in sc["cleanups"])
    if any(w in t for w in ("spinner", "blocking", "timed_out", "_clean", "junk")):
        return lambda sc: not (sc["interrupt"] is not None or has(sc, ("never", "leave", "relay")))
    if any(w in t for w in ("observer", "log", "capture", "run_core", "trap")):
        return lambda sc: not has(sc, ("log_err", "log_flush", "drop", "never"))
    if "run_deferred" in t or "run_user" in t:
        return lambda sc: all(sc[k]["k"] == "return" for k in ("setUp", "test", "tearDown"))
    return None


# ------------------------------------------------------------------ main ----
def check(sc, _warm=[]):
    if not _warm:  # import everything once, then exempt it from the per-scenario gc pass
        import testtools.twistedsupport, twisted.internet.reactor  # noqa
        gc.collect()
        gc.freeze()
        _warm.append(True)
    if sc.get("reactor") == "real" and os.environ.get("VERIF_NO_REAL"):
        return None   # wall-clock scenarios are skipped when the harness runs as a check's stand-in (no timing flakes)
    obs = run_scenario(sc)
    required = judge(sc, obs)
    if required is None:
        return None
    return {"scenario": sc, "observed": obs, "required": required}


def main():
    ap = argparse.ArgumentParser()
    ap.add_argument("--budget", type=float, default=60.0)
    ap.add_argument("--from-obligation")
    ap.add_argument("--scenario")
    args = ap.parse_args()
    signal.signal(signal.SIGALRM, lambda *a: os._exit(2))  # the harness can never hang
    signal.alarm(int(args.budget) + 60)
    if args.scenario:
        bad = check(json.loads(args.scenario))
        if bad:
            print(json.dumps(bad))
            return 1
        print("scenario satisfies the property")
        return 0
    try:
        target = json.loads(args.from_obligation or "{}").get("target")
    except Exception:
        target = None  # a hint only
    deadline = time.monotonic() + args.budget * 0.9
    small = list(small_scenarios())
    key = priority(target)
    if key:
        small.sort(key=key)  # stable: keeps the enumeration order within each class
    rng = random.Random(int(os.environ.get("VERIF_SEED", "0")))
    count = 0
    for sc in itertools.chain(small, random_scenarios(rng)):
        if time.monotonic() > deadline:
            break
        bad = check(sc)
        count += 1
        if bad:
            print("violation after %d scenarios" % count)
            print(json.dumps(bad))
            return 1
    print("C14: %d scenarios (%d enumerated), no violation" % (count, len(small)))
    return 0


if __name__ == "__main__":
    saved_stderr = os.dup(2)  # Twisted's default logging chatters on stderr: mute it
    os.dup2(os.open(os.devnull, os.O_WRONLY), 2)
    try:
        code = main()
    except SystemExit as e:
        code = e.code if e.code in (0, 2) else 2
    except BaseException as e:  # any harness error is exit 2, never 1
        import traceback
        os.dup2(saved_stderr, 2)
        traceback.print_exc()
        code = 2
    sys.stdout.flush()
    sys.exit(code)
