#!/venv/bin/python
"""Replay / counterexample search for C01: every test run is bracketed and
yields exactly one outcome.

ORACLE (written from the property statement; observable behaviour only)
A generated testtools.TestCase is run once against a result object.  The calls
the result object receives (event log of testtools.testresult.doubles, or of a
thin logging subclass for testtools.TestResult / ExtendedToStreamDecorator) are
filtered to startTest / add* / stopTest and must be exactly
    [startTest(case), <one outcome>(case), stopTest(case)].
The stage bodies record which exceptions not deriving from Exception
(KeyboardInterrupt, SystemExit) they really raised.  If there is one:
the outcome must be addError, tearDown must have run if setUp returned, every
cleanup that was registered must have run, and run() must raise one of those
very exception objects (necessarily after stopTest: the log is complete when
we catch it).  If there is none, run() must return normally.  For the stream
flavour the StreamResult double must additionally have seen, for the test id,
exactly the statuses ['inprogress', <one final status>] ('fail' for a
BaseException); for testtools.TestResult (and result=None, observed through
defaultTestResult) testsRun must be 1 and the public outcome lists must hold
exactly one entry (none for a success).  A run() that does not finish within
10 s counts as "stopTest never delivered".

ENUMERATION
A  stages    : every (setUp, test, tearDown) behaviour over the 10 kinds
               (setUp failures deduplicated) x 7 result flavours        (763)
B  cleanups  : 1..2 cleanups over all 10 kinds, 3 over a 4-kind alphabet,
               registered in setUp or in the test, x 19 stage triples over
               {return, fail, skip, kbd}, flavours rotating            (~6600)
C  modifiers : skip decorators (testtools/unittest, method/class) x test
               kinds x flavours; expectThat mismatch in each stage or a
               cleanup x force_failure x stage triples x flavours      (~2800)
D  random    : seeded (VERIF_SEED) scenarios with 0..5 cleanups and every
               field drawn at random, until the budget or 4000 runs.
"""

import argparse
import itertools
import json
import os
import random
import signal
import sys
import time
import traceback
import unittest

KINDS = ["return", "fail", "error", "skip", "xfail", "uxsuccess", "multi",
         "multi_empty", "kbd", "sysexit", "multi_kbd", "nested_kbd"]
SMALL = ["return", "fail", "skip", "kbd"]
FLAVOURS = ["py26", "py27", "extended", "twisted", "testresult", "stream", "none"]
DECOS = ["none", "tt_skip", "tt_skipIf", "tt_skipUnless_pass", "ut_skip",
         "ut_class", "tt_class"]
EXPECTS = ["none", "setup", "test", "teardown", "cleanup"]
OUTCOMES = ["addSuccess", "addFailure", "addError", "addSkip",
            "addExpectedFailure", "addUnexpectedSuccess"]
CALLS = ["startTest", "stopTest"] + OUTCOMES
REQUIRED = ("result receives exactly [startTest, one outcome, stopTest] for the "
            "test; a KeyboardInterrupt/SystemExit raised by user code is reported "
            "as an error, tearDown and all registered cleanups still run, and it "
            "propagates out of run() after stopTest; otherwise run() returns")
HANG_SECONDS = 10
CURRENT = None


def scenario(result="extended", setup="return", test="return", teardown="return",
             cleanups=(), reg="setup", expect="none", force=False, deco="none"):
    return {"result": result, "setup": setup, "test": test, "teardown": teardown,
            "cleanups": list(cleanups), "reg": reg, "expect": expect,
            "force": bool(force), "deco": deco}


def logging_subclass(base, log):
    """Subclass of a real result class that records the calls it receives."""
    cls = type("Logging" + base.__name__, (base,), {})
    for name in CALLS:
        def method(self, test, *args, _name=name, **kwargs):
            log.append((_name, test))
            return getattr(super(cls, self), _name)(test, *args, **kwargs)
        setattr(cls, name, method)
    return cls


def build(sc):
    """Return (case, result_or_None, obs) for a scenario; obs is filled by the run."""
    import testtools
    from testtools.matchers import Equals
    from testtools.runtest import MultipleExceptions
    from testtools.testresult import doubles

    obs = {"ran": [], "bases": [], "registered": [], "calls": [], "stream": None,
           "real": None}

    def exc_info_of(exc):
        try:
            raise exc
        except BaseException:
            return sys.exc_info()

    def act(case, kind, where):
        if kind == "return":
            return
        if kind == "fail":
            case.fail("boom in " + where)
        if kind == "error":
            raise RuntimeError("boom in " + where)
        if kind == "skip":
            case.skipTest("skip in " + where)
        if kind == "xfail":
            case.expectFailure("known " + where, case.assertEqual, 1, 0)
        if kind == "uxsuccess":
            case.expectFailure("known " + where, case.assertEqual, 1, 1)
        if kind == "multi":
            raise MultipleExceptions(exc_info_of(case.failureException("m1")),
                                     exc_info_of(ValueError("m2")))
        if kind == "multi_empty":
            raise MultipleExceptions()
        if kind in ("multi_kbd", "nested_kbd"):
            # a KeyboardInterrupt travelling inside a MultipleExceptions (one level, or inside a nested group as composed
            # fixtures produce them) is still a KeyboardInterrupt raised by user code
            exc = KeyboardInterrupt(where)
            obs["bases"].append(exc)
            inner = MultipleExceptions(exc_info_of(ValueError("m1")), exc_info_of(exc))
            if kind == "multi_kbd":
                raise inner
            raise MultipleExceptions(exc_info_of(case.failureException("m0")), exc_info_of(inner))
        exc = KeyboardInterrupt(where) if kind == "kbd" else SystemExit(3)
        obs["bases"].append(exc)
        raise exc

    def cleanup(case, index, kind):
        obs["ran"].append("cleanup%d" % index)
        if sc["expect"] == "cleanup" and index == 0:
            case.expectThat(1, Equals(2))
        act(case, kind, "cleanup%d" % index)

    def stage(case, name):
        obs["ran"].append(name)
        if sc["expect"] == name:
            case.expectThat(1, Equals(2), "delayed")
        if sc["reg"] == name:
            for index, kind in enumerate(sc["cleanups"]):
                case.addCleanup(cleanup, case, index, kind)
                obs["registered"].append("cleanup%d" % index)
        act(case, sc[name], name)
        obs["ran"].append(name + "_ok")

    def test_it(self):
        stage(self, "test")

    deco = sc["deco"]
    method_decorators = {
        "tt_skip": testtools.skip("why"), "tt_skipIf": testtools.skipIf(True, "why"),
        "tt_skipUnless_pass": testtools.skipUnless(True, "why"),
        "ut_skip": unittest.skip("why")}
    if deco in method_decorators:
        test_it = method_decorators[deco](test_it)

    class Case(testtools.TestCase):
        force_failure = sc["force"]

        def setUp(self):
            super().setUp()
            stage(self, "setup")

        def tearDown(self):
            try:
                stage(self, "teardown")
            finally:
                super().tearDown()

        def defaultTestResult(self):
            obs["real"] = logging_subclass(testtools.TestResult, obs["calls"])()
            return obs["real"]

    Case.test_it = test_it
    if deco == "ut_class":
        Case = unittest.skip("why")(Case)
    elif deco == "tt_class":
        Case = testtools.skip("why")(Case)
    case = Case("test_it")

    flavour = sc["result"]
    if flavour == "none":
        return case, None, obs
    if flavour == "testresult":
        obs["real"] = logging_subclass(testtools.TestResult, obs["calls"])()
        return case, obs["real"], obs
    if flavour == "stream":
        obs["stream"] = doubles.StreamResult()
        cls = logging_subclass(testtools.ExtendedToStreamDecorator, obs["calls"])
        return case, cls(obs["stream"]), obs
    double = {"py26": doubles.Python26TestResult, "py27": doubles.Python27TestResult,
              "extended": doubles.ExtendedTestResult,
              "twisted": doubles.TwistedTestResult}[flavour]()
    obs["double"] = double
    return case, double, obs


def run_scenario(sc):
    """Run one scenario on the real code; return None or the 'observed' dict."""
    global CURRENT
    case, result, obs = build(sc)
    CURRENT = sc
    signal.setitimer(signal.ITIMER_REAL, HANG_SECONDS)
    raised = None
    try:
        case.run(result)
    except BaseException as e:  # whatever propagates out of run() is an observation
        raised = e
    finally:
        signal.setitimer(signal.ITIMER_REAL, 0)
        CURRENT = None

    if "double" in obs:
        calls = [(e[0], e[1]) for e in obs["double"]._events if e[0] in CALLS]
    else:
        calls = obs["calls"]
    names = [c[0] for c in calls]
    problems = []
    bracket_ok = (len(calls) == 3 and names[0] == "startTest"
                  and names[1] in OUTCOMES and names[2] == "stopTest")
    if not bracket_ok:
        problems.append("event log is not [startTest, one outcome, stopTest]")
    elif any(c[1] is not case for c in calls):
        problems.append("an event was reported for a different test object")
    bases = obs["bases"]
    if bases:
        if bracket_ok and names[1] != "addError":
            problems.append("non-Exception exception reported as %s, not addError"
                            % names[1])
        if raised is None:
            problems.append("run() returned although %r was raised" % bases[0])
        elif not any(raised is b for b in bases):
            problems.append("run() raised something else than the user's exception")
        if "setup_ok" in obs["ran"] and "teardown" not in obs["ran"]:
            problems.append("tearDown did not run")
        missing = [c for c in obs["registered"] if c not in obs["ran"]]
        if missing:
            problems.append("registered cleanups did not run: %s" % missing)
    elif raised is not None:
        problems.append("run() raised although no KeyboardInterrupt/SystemExit "
                        "was raised by user code")
    statuses = None
    if obs["stream"] is not None:
        statuses = [e.test_status for e in obs["stream"]._events
                    if e[0] == "status" and e.test_status is not None
                    and e.test_id == case.id()]
        finals = ["success", "fail", "skip", "xfail", "uxsuccess"]
        if not (len(statuses) == 2 and statuses[0] == "inprogress"
                and statuses[1] in finals):
            problems.append("stream did not see [inprogress, one final status]")
        elif bases and statuses[1] != "fail":
            problems.append("stream status for a non-Exception exception is not fail")
    counts = None
    real = obs["real"]
    if sc["result"] in ("testresult", "none"):
        if real is None:
            problems.append("defaultTestResult() was never asked for a result")
        else:
            counts = {"testsRun": real.testsRun, "errors": len(real.errors),
                      "failures": len(real.failures),
                      "skips": sum(len(v) for v in real.skip_reasons.values()),
                      "expectedFailures": len(real.expectedFailures),
                      "unexpectedSuccesses": len(real.unexpectedSuccesses)}
            recorded = sum(counts.values()) - counts["testsRun"]
            if counts["testsRun"] != 1:
                problems.append("TestResult.testsRun != 1")
            if bracket_ok and recorded != (0 if names[1] == "addSuccess" else 1):
                problems.append("TestResult outcome lists do not hold exactly the "
                                "one outcome")
            if bases and counts["errors"] != 1:
                problems.append("TestResult.errors does not hold the error")
    if not problems:
        return None
    return {"problems": problems, "events": names, "run_raised": repr(raised),
            "stages_run": obs["ran"], "cleanups_registered": obs["registered"],
            "user_base_exceptions": [repr(b) for b in bases],
            "stream_statuses": statuses, "testresult_counts": counts}


def stage_triples(alphabet):
    for s in alphabet:
        if s != "return":
            yield s, "return", "return"
    for t, d in itertools.product(alphabet, repeat=2):
        yield "return", t, d


def phase_stages(flavours):
    for (s, t, d), f in itertools.product(stage_triples(KINDS), flavours):
        yield scenario(f, s, t, d)


def phase_cleanups(flavours):
    rot = itertools.cycle(flavours)
    lists = [c for n in (1, 2) for c in itertools.product(KINDS, repeat=n)]
    lists += list(itertools.product(["return", "error", "skip", "sysexit"], repeat=3))
    for cl, (s, t, d), reg in itertools.product(lists, stage_triples(SMALL),
                                                ["setup", "test"]):
        yield scenario(next(rot), s, t, d, cl, reg)


def phase_modifiers(flavours):
    for deco, t, f in itertools.product(DECOS[1:], KINDS, flavours):
        yield scenario(f, test=t, deco=deco, cleanups=["return"])
    for cl, e, force, (s, t, d), f in itertools.product(
            (["return"], ["return", "error"]), EXPECTS, [False, True],
            stage_triples(SMALL), flavours):
        if e != "none" or force:
            yield scenario(f, s, t, d, cl, "setup", e, force)


def phase_random(flavours):
    rng = random.Random(int(os.environ.get("VERIF_SEED", "0")))
    for _ in range(4000):
        pick = rng.choice
        yield scenario(pick(flavours), pick(["return"] * 3 + KINDS), pick(KINDS),
                       pick(KINDS), [pick(KINDS) for _ in range(rng.randint(0, 5))],
                       pick(["setup", "test", "teardown"]), pick(EXPECTS),
                       rng.random() < 0.25, pick(["none"] * 4 + DECOS))


PHASES = [
    ("stages", phase_stages, ["_run_prepared_result", "_pick_exception", "_run_user",
                              "_got_user_exception", "_run_one", "TestCase.run",
                              "RunTest.run", "_report_", "onException", "_run_setup",
                              "_run_teardown", "_run_test_method"]),
    ("cleanups", phase_cleanups, ["_run_cleanups", "addCleanup", "_run_core"]),
    ("modifiers", phase_modifiers, ["skip", "expectThat", "force", "_matchHelper",
                                    "_run_core", "_get_test_method"]),
    ("random", phase_random, []),
]


def fail(sc, observed):
    sys.stdout.write(json.dumps({"scenario": sc, "observed": observed,
                                 "required": REQUIRED}) + "\n")
    sys.stdout.flush()


def on_alarm(signum, frame):
    fail(CURRENT, {"problems": ["run() did not finish within %d s: stopTest never "
                                "delivered" % HANG_SECONDS]})
    os._exit(1)


def main():
    parser = argparse.ArgumentParser(description=__doc__.splitlines()[0])
    parser.add_argument("--budget", type=float, default=60.0)
    parser.add_argument("--from-obligation", default=None)
    parser.add_argument("--scenario", default=None)
    args = parser.parse_args()
    signal.signal(signal.SIGALRM, on_alarm)
    import testtools
    print("testing testtools from", os.path.dirname(testtools.__file__))

    if args.scenario is not None:
        sc = scenario(**json.loads(args.scenario))
        observed = run_scenario(sc)
        if observed is None:
            print("scenario satisfies the property")
            return 0
        fail(sc, observed)
        return 1

    target = ""
    if args.from_obligation:
        try:
            hint = json.loads(args.from_obligation)
            target = str(hint.get("target", "")) if isinstance(hint, dict) else ""
        except ValueError:
            target = ""
    phases = sorted(PHASES, key=lambda p: not any(k in target for k in p[2]))
    flavours = list(FLAVOURS)
    if "Stream" in target:
        flavours.sort(key=lambda f: f != "stream")
    elif "ExtendedToOriginal" in target:
        flavours.sort(key=lambda f: f not in ("py26", "py27", "twisted"))

    deadline = time.monotonic() + args.budget
    total = 0
    for name, generator, _ in phases:
        count = 0
        for sc in generator(flavours):
            if time.monotonic() >= deadline:
                print("budget used up in phase %s after %d scenarios" % (name, total))
                return 0
            observed = run_scenario(sc)
            count += 1
            total += 1
            if observed is not None:
                print("violation in phase %s, scenario #%d" % (name, total))
                fail(sc, observed)
                return 1
        print("phase %-9s: %5d scenarios ok" % (name, count))
    print("no violation in %d scenarios" % total)
    return 0


if __name__ == "__main__":
    try:
        code = main()
    except SystemExit:
        raise
    except BaseException:
        traceback.print_exc()
        code = 2
    sys.stdout.flush()
    sys.exit(code)
