"""Replay / counterexample search for C19: suite utilities preserve the test set.

Oracle (written from the property statement, observable behaviour only).
A scenario is a suite tree written as JSON: a leaf is "T<id>" (testtools.TestCase)
or "P<id>" (PlaceHolder); a suite is [kind, child, ...] with kind
  S plain unittest.TestSuite            U TestSuite subclass, no protocol methods
  O subclass with sort_tests()          F subclass with filter_by_ids() that keeps
  X testtools FixtureSuite (sort_tests)   its tests outside _tests and returns a copy
and an operation:
  iterate  iterate_tests(tree) yields exactly the leaf objects, once each, in order.
  filter   iterate_tests(filter_by_ids(tree, ids)) yields exactly the leaves whose id
           is in ids, original order, and the nesting of the survivors (suites that
           end up with no test at all are disregarded) is the original nesting.
  sorted   sorted_tests(tree) raises ValueError iff two leaves share an id (and never
           anything else); otherwise the children of the returned suite are exactly:
           every leaf reachable through plain TestSuites only, and every outermost
           custom suite that holds a test, as one object, ordered by id / by the id
           of its first test (before or after its own sort_tests()); custom suites
           without any test may additionally appear anywhere;
           a custom suite keeps its own leaves (same order if nothing in it sorts).
  list     `testtools.run --list mod.make` prints exactly the leaf ids, exit status 0.
  loadlist `--load-list F --list` prints exactly the ids that are in F, in order.
  loadrun  `--load-list F` runs exactly those tests (run log, "Ran N tests"), exit 0.

Enumeration: all trees of depth <= 1 / fan-out <= 3 over 4 leaves (429) with every
op and every id subset; all depth-2 trees with fan-out <= 2 (7415) with the cheap
ops and every subset of {a,b,zz} (run ops on a sample); then seeded-random trees of
depth <= 4, fan-out <= 4 with unique or duplicated ids (seed VERIF_SEED).
"""

import argparse
import io
import itertools
import json
import os
import random
import re
import sys
import tempfile
import time
import types
import unittest

KINDS = "SUOFX"
OPS = ["iterate", "filter", "sorted", "list", "loadlist", "loadrun"]
MODNAME = "c19_replay_mod"
RANDOM_MAX = 6000


class Violation(Exception):
    def __init__(self, observed, required):
        Exception.__init__(self, observed)
        self.observed, self.required = observed, required


# ---------------------------------------------------------------- building trees
def _classes():
    import testtools
    from testtools import testsuite as ts

    class Case(testtools.TestCase):
        def __init__(self, tid, log):
            testtools.TestCase.__init__(self, "test_x")
            self._tid, self._log = tid, log

        def id(self):
            return self._tid

        def test_x(self):
            self._log.append(self._tid)

    class Holder(testtools.PlaceHolder):
        def __init__(self, tid, log):
            testtools.PlaceHolder.__init__(self, tid)
            self._log = log

        def run(self, result=None):
            self._log.append(self.id())
            return testtools.PlaceHolder.run(self, result)

    class U(unittest.TestSuite):
        pass

    class O(unittest.TestSuite):
        def sort_tests(self):
            self._tests = list(ts.sorted_tests(self, True))

    class F(unittest.TestSuite):
        """Keeps its tests in its own attribute; filtering returns a new suite."""

        def __init__(self, tests=()):
            unittest.TestSuite.__init__(self)
            self._kids = list(tests)

        def __iter__(self):
            return iter(self._kids)

        def countTestCases(self):
            return sum(k.countTestCases() for k in self._kids)

        def run(self, result):
            for kid in self._kids:
                kid.run(result)
            return result

        def filter_by_ids(self, test_ids):
            return type(self)([ts.filter_by_ids(k, test_ids) for k in self._kids])

    def X(tests):
        if not hasattr(ts, "FixtureSuite"):
            return O(tests)
        import fixtures
        return ts.FixtureSuite(fixtures.Fixture(), tests)

    return {"T": Case, "P": Holder, "S": unittest.TestSuite, "U": U, "O": O, "F": F, "X": X}


class Node:
    def __init__(self, spec, obj, kids, leaves):
        self.spec, self.obj, self.kids, self.leaves = spec, obj, kids, leaves
        self.kind = spec[0]
        self.sorts = self.kind in "OX" or any(k.sorts for k in kids)


def build(spec, log, cls):
    if isinstance(spec, str):
        if spec[:1] not in "TP" or len(spec) < 2:
            raise ValueError("bad leaf %r" % (spec,))
        obj = cls[spec[0]](spec[1:], log)
        return Node(spec, obj, [], [obj])
    if not spec or spec[0] not in KINDS:
        raise ValueError("bad suite %r" % (spec,))
    kids = [build(s, log, cls) for s in spec[1:]]
    obj = cls[spec[0]]([k.obj for k in kids])
    return Node(spec, obj, kids, [leaf for k in kids for leaf in k.leaves])


def spec_ids(spec):
    if isinstance(spec, str):
        return [spec[1:]]
    return [i for s in spec[1:] for i in spec_ids(s)]


def is_leaf(obj):
    try:
        iter(obj)
    except TypeError:
        return True
    return False


def same(seq_a, seq_b):
    return len(seq_a) == len(seq_b) and all(a is b for a, b in zip(seq_a, seq_b))


def index_in(leaves, obj):
    for n, leaf in enumerate(leaves):
        if leaf is obj:
            return n
    return "?" + repr(obj)


def called(fn, *args):
    """Call code under test; any exception is an observation, not a harness error."""
    try:
        return True, fn(*args)
    except Exception as e:
        return False, e


# ---------------------------------------------------------------- oracles
def check_iterate(sc, cls):
    from testtools.testsuite import iterate_tests
    node = build(sc["tree"], [], cls)
    ok, got = called(lambda: list(iterate_tests(node.obj)))
    want = spec_ids(sc["tree"])
    if not ok:
        raise Violation("iterate_tests raised %r" % (got,), {"ids": want})
    if not same(got, node.leaves):
        raise Violation({"ids": [str(t.id()) for t in got],
                         "positions": [index_in(node.leaves, t) for t in got]},
                        {"ids": want, "positions": list(range(len(want))),
                         "why": "every leaf exactly once, in suite order"})


def want_shape(spec, ids, counter):
    if isinstance(spec, str):
        n = next(counter)
        return n if spec[1:] in ids else None
    kids = [want_shape(s, ids, counter) for s in spec[1:]]
    kids = [k for k in kids if k is not None]
    return kids or None


def got_shape(obj, leaves):
    if is_leaf(obj):
        return index_in(leaves, obj)
    kids = [got_shape(k, leaves) for k in obj]
    kids = [k for k in kids if k is not None]
    return kids or None


def flat(shape):
    if isinstance(shape, list):
        return [x for s in shape for x in flat(s)]
    return [] if shape is None else [shape]


def check_filter(sc, cls):
    from testtools.testsuite import filter_by_ids
    node = build(sc["tree"], [], cls)
    ids = {"set": set, "list": list, "frozenset": frozenset, "tuple": tuple}[
        sc.get("container", "set")](sc["ids"])
    all_ids = spec_ids(sc["tree"])
    want = want_shape(sc["tree"], set(sc["ids"]), itertools.count())
    ok, res = called(filter_by_ids, node.obj, ids)
    if ok:
        ok, res = called(got_shape, res, node.leaves)
    required = {"ids": [all_ids[n] for n in flat(want)], "nesting": want if want is not None else [],
                "why": "exactly the tests whose id is in ids, original order and grouping "
                       "(numbers are positions in the original suite order)"}
    if not ok:
        raise Violation("filter_by_ids raised %r" % (res,), required)
    if res != want:
        raise Violation({"ids": [all_ids[n] if isinstance(n, int) else n for n in flat(res)],
                         "nesting": res if res is not None else []}, required)
    # the caller owns what it got back and goes on using it: it adds a test of its own to every plain suite of the result.
    # Results of later, unrelated calls must not be affected (each call leaves exactly the tests of ITS argument).
    ok, out = called(filter_by_ids, build(sc["tree"], [], cls).obj, ids)
    if ok:
        _adopt(out, cls)


def _adopt(obj, cls, seen=None):
    import unittest
    seen = set() if seen is None else seen
    if id(obj) in seen or is_leaf(obj):
        return
    seen.add(id(obj))
    for k in list(obj):
        _adopt(k, cls, seen)
    if type(obj) is unittest.TestSuite:
        obj.addTest(cls["P"]("added.by.caller", []))


def check_sorted(sc, cls):
    from testtools.testsuite import iterate_tests, sorted_tests
    node = build(sc["tree"], [], cls)
    all_ids = spec_ids(sc["tree"])
    dup = sorted(i for i in set(all_ids) if all_ids.count(i) > 1)
    ok, res = called(sorted_tests, node.obj)
    if not ok:
        if isinstance(res, ValueError) and dup:
            return
        raise Violation("sorted_tests raised %r" % (res,),
                        "ValueError for the shared ids %r" % dup if dup else
                        "no exception: all ids are distinct")
    if dup:
        raise Violation("sorted_tests returned normally", "ValueError: ids %r are shared" % dup)

    def items(n):
        if n.kind == "S":
            return [i for k in n.kids for i in items(k)]
        return [n]

    def name(n, leaves=None):
        if n.kind in "TP":
            return n.spec
        return "%s%s" % (n.kind, [str(t.id()) for t in (n.leaves if leaves is None else leaves)])

    want = items(node)
    keyed = [n for n in want if n.leaves]
    order1 = sorted(keyed, key=lambda n: n.leaves[0].id())
    required = {"children": [name(n) for n in order1],
                "optionally_empty_custom_suites_anywhere": [name(n) for n in want if not n.leaves],
                "why": "plain suites flattened, custom suites whole, ordered by (first) id"}
    ok, got = called(lambda: list(res))
    if not ok:
        raise Violation("iterating the result raised %r" % (got,), required)
    now, got_nodes = {}, []
    for child in got:
        match = [n for n in want if n.obj is child]
        if not match:
            show = [str(c.id()) if is_leaf(c) else type(c).__name__ for c in got]
            raise Violation({"children": show, "why": "a child is neither a top-level "
                             "test nor an outermost custom suite of the input"}, required)
        ok, leaves = called(lambda: list(iterate_tests(child)))
        if not ok:
            raise Violation("iterating %s raised %r" % (name(match[0]), leaves), required)
        now[id(match[0])] = leaves
        got_nodes.append(match[0])
    observed = {"children": [name(n, now[id(n)]) for n in got_nodes]}
    if sorted(id(n) for n in got_nodes if n.leaves) != sorted(map(id, keyed)) or \
            len(set(map(id, got_nodes))) != len(got_nodes):
        raise Violation(observed, required)
    for n in got_nodes:
        kept = sorted(map(id, now[id(n)])) == sorted(map(id, n.leaves))
        if not kept or (not n.sorts and not same(now[id(n)], n.leaves)):
            observed["why"] = "custom suite %s no longer holds its own tests" % name(n)
            raise Violation(observed, required)
    got_keyed = [n for n in got_nodes if n.leaves]
    order2 = sorted(keyed, key=lambda n: now[id(n)][0].id())
    if not same(got_keyed, order1) and not same(got_keyed, order2):
        raise Violation(observed, required)


def run_program(args, root):
    """Run testtools.run in-process on a module whose `make()` returns the suite."""
    from testtools import run
    mod = types.ModuleType(MODNAME)
    mod.make = lambda: root if isinstance(root, unittest.TestSuite) else unittest.TestSuite([root])
    sys.modules[MODNAME] = mod
    out, status = io.StringIO(), 0
    old_err, sys.stderr = sys.stderr, io.StringIO()
    try:
        try:
            run.main(["testtools.run"] + args + [MODNAME + ".make"], out)
        except SystemExit as e:
            status = int(e.code) if isinstance(e.code, int) else (0 if not e.code else 1)
        except Exception as e:
            status = "raised %r" % (e,)
    finally:
        sys.stderr = old_err
        sys.modules.pop(MODNAME, None)
        del unittest.defaultTestLoader.errors[:]
    return out.getvalue(), status


def check_run(sc, cls):
    log = []
    node = build(sc["tree"], log, cls)
    op, all_ids = sc["op"], spec_ids(sc["tree"])
    want = all_ids if op == "list" else [i for i in all_ids if i in set(sc["ids"])]
    path = None
    try:
        args = []
        if op != "list":
            fd, path = tempfile.mkstemp(prefix="c19_", suffix=".list")
            with os.fdopen(fd, "wb") as f:
                f.write("".join(i + "\n" for i in sc["ids"]).encode("utf-8"))
            args += ["--load-list", path]
        if op != "loadrun":
            args.append("--list")
        out, status = run_program(args, node.obj)
    finally:
        if path:
            os.unlink(path)
    if op == "loadrun":
        ran = re.findall(r"Ran (\d+) test", out)
        observed = {"ran": log, "reported": [int(n) for n in ran], "exit": status}
        required = {"ran": want, "reported": [len(want)], "exit": 0}
    else:
        observed = {"stdout_lines": out.splitlines(), "exit": status, "ran": log}
        required = {"stdout_lines": want, "exit": 0, "ran": []}
    if observed != required:
        if len(out) < 600:
            observed["stdout"] = out
        raise Violation(observed, required)


CHECKS = {"iterate": check_iterate, "filter": check_filter, "sorted": check_sorted,
          "list": check_run, "loadlist": check_run, "loadrun": check_run}


def run_scenario(sc, cls):
    """Return None if the property holds on sc, else (observed, required)."""
    try:
        CHECKS[sc["op"]](sc, cls)
    except Violation as v:
        return v.observed, v.required
    return None


# ---------------------------------------------------------------- enumeration
def subsets(ids):
    for r in range(len(ids) + 1):
        for c in itertools.combinations(ids, r):
            yield list(c)


def small_trees(depth, fan, leaves, inner_leaves=None, inner_fan=None):
    for leaf in leaves:
        yield leaf
    if depth == 0:
        return
    kids = list(small_trees(depth - 1, inner_fan or fan, inner_leaves or leaves))
    for kind in KINDS:
        for n in range(fan + 1):
            for combo in itertools.product(kids, repeat=n):
                yield [kind] + list(combo)


def scenarios_for(tree, ops, id_pool, run_ops, n, rng=None):
    containers = ["set", "list", "frozenset", "tuple"]
    if rng is None:
        subs = list(subsets(id_pool))
    else:
        subs = [rng.sample(id_pool, rng.randint(0, len(id_pool))) for _ in range(3)]
    for op in ops:
        if op in ("iterate", "sorted"):
            yield {"op": op, "tree": tree}
        elif op == "filter":
            for k, ids in enumerate(subs):
                yield {"op": op, "tree": tree, "ids": ids, "container": containers[(n + k) % 4]}
        elif run_ops:
            if op == "list":
                yield {"op": op, "tree": tree}
            else:
                for ids in (subs if len(subs) <= 4 else [subs[(n + k) % len(subs)] for k in (1, 6)]):
                    yield {"op": op, "tree": tree, "ids": ids}


ID_POOL = ["a", "b", "c", "d", "B", "a.b", "a_b", "t10", "t9", "m.K.test_1", "m.K.test_10", "e", "m.K.test_x(utf8 input)"]


def random_tree(rng):
    max_depth, max_fan = rng.choice([0, 1, 2, 2, 3, 3, 4, 4]), rng.choice([0, 1, 2, 3, 3, 4, 4])
    unique = rng.random() < 0.6
    pool = ID_POOL[:rng.randint(2, len(ID_POOL))]
    fresh = ID_POOL + ["u%d" % n for n in range(400)]
    rng.shuffle(fresh)
    budget = [30]

    def gen(depth):
        budget[0] -= 1
        if depth == max_depth or (depth and rng.random() < 0.3) or budget[0] <= 0:
            return rng.choice("TP") + (fresh.pop() if unique else rng.choice(pool))
        kind = rng.choice("SSS" + KINDS)
        fewest = 0 if rng.random() < 0.15 else min(1, max_fan)
        return [kind] + [gen(depth + 1) for _ in range(rng.randint(fewest, max_fan))]

    return gen(0)


def all_scenarios(ops, seed):
    n = 0
    # ids with blanks in them (scenario-multiplied tests are called `mod.K.test_x(utf8 input)`): one id per LINE of the list file
    spaced = ["S", "Tm.t(a b)", "Ta", ["S", "Tb)", "Pm.t(a"], "Tz z"]
    for op in ops:
        if op in ("loadlist", "loadrun", "filter"):
            for ids in (["m.t(a b)"], ["a"], ["m.t(a b)", "a", "z z"], ["m.t(a", "b)"], ["z"]):
                yield dict({"op": op, "tree": spaced, "ids": ids}, **({"container": "set"} if op == "filter" else {}))
        elif op in ("list", "iterate", "sorted"):
            yield {"op": op, "tree": spaced}
    for tree in small_trees(1, 3, ["Ta", "Tb", "Pc", "Pa"]):
        n += 1
        for sc in scenarios_for(tree, ops, ["a", "b", "c", "zz"], True, n):
            yield sc
    for tree in small_trees(2, 2, ["Ta", "Tb", "Pa"], ["Ta", "Pb"], 2):
        n += 1
        if isinstance(tree, str) or all(isinstance(k, str) for k in tree[1:]):
            continue  # depth <= 1 was covered above
        for sc in scenarios_for(tree, ops, ["a", "b", "zz"], n % 12 == 0, n):
            yield sc
    rng = random.Random(seed)
    for n in range(RANDOM_MAX):
        tree = random_tree(rng)
        pool = sorted(set(spec_ids(tree))) + ["zz", "a"]
        for sc in scenarios_for(tree, ops, pool, n % 3 == 0, n, rng):
            yield sc


def prioritised_ops(hint):
    target = ""
    if isinstance(hint, dict):
        target = str(hint.get("target", ""))
    groups = [("filter_by_ids", ["filter", "loadlist", "loadrun"]),
              ("sort", ["sorted"]), ("_flatten_tests", ["sorted"]),
              ("iterate_tests", ["iterate", "list"]),
              ("list", ["list", "loadlist"]), ("run:", ["list", "loadlist", "loadrun"]),
              ("TestProgram", ["loadlist", "loadrun", "list"])]
    for key, first in groups:
        if key in target:
            return first
    return []


def report(sc, outcome):
    print(json.dumps({"scenario": sc, "observed": outcome[0], "required": outcome[1]},
                     default=repr))


def main(argv):
    ap = argparse.ArgumentParser()
    ap.add_argument("--budget", type=float, default=60.0)
    ap.add_argument("--from-obligation", default=None)
    ap.add_argument("--scenario", default=None)
    args = ap.parse_args(argv)
    cls = _classes()
    if args.scenario is not None:
        sc = json.loads(args.scenario)
        outcome = run_scenario(sc, cls)
        if outcome:
            report(sc, outcome)
            return 1
        print("scenario satisfies C19")
        return 0
    hint = None
    if args.from_obligation:
        try:
            hint = json.loads(args.from_obligation)
        except ValueError:
            hint = None
    first = prioritised_ops(hint)
    passes = [(first, 0.6), ([o for o in OPS if o not in first], 1.0)] if first else [(OPS, 1.0)]
    seed = int(os.environ.get("VERIF_SEED", "0") or 0)
    start, count = time.time(), 0
    for ops, share in passes:
        deadline = start + args.budget * share
        for sc in all_scenarios(ops, seed):
            if time.time() > deadline:
                break
            count += 1
            outcome = run_scenario(sc, cls)
            if outcome:
                print("C19: violation after %d scenarios (%.1fs)" % (count, time.time() - start))
                report(sc, outcome)
                return 1
    print("C19: %d scenarios, no violation (%.1fs)" % (count, time.time() - start))
    return 0


if __name__ == "__main__":
    try:
        code = main(sys.argv[1:])
    except SystemExit as e:
        code = e.code if e.code in (0, None) else 2
    except BaseException:
        import traceback
        traceback.print_exc()
        code = 2
    sys.stdout.flush()
    sys.exit(code or 0)
