#!/usr/bin/env python
"""Replay / counterexample search for C06: matcher verdicts obey their declared semantics.

A scenario is {"m": <matcher expression>, "v": <value spec>}, both plain JSON.  Expressions are
lists [Name, args...] (see TABLE); value specs are JSON values standing for themselves plus
tagged dicts {"$": kind, ...} for bytes, tuples, objects with attributes, sentinels, exception
classes/instances, exc_info tuples, callables, recorded warnings and paths in a scratch dir.

ORACLE (from the property statement, never from the implementation): TABLE pairs every matcher
with (a) how to build the real testtools matcher and (b) its documented predicate in plain
Python (==, <, in, isinstance, re.match, os.path.*, len, ...).  Combinators are truth-functional
over the oracle verdicts of their parts (Not / and / or / forall / exists / positional with equal
length / existence of a perfect value-matcher assignment by brute force over permutations /
exact, super, sub key sets plus per-key / per attribute / same verdict for Annotate and
AfterPreprocessing).  Raises follows the documented propagation rule: a non-Exception error
propagates out of match() unless explicitly matched.  All parts are evaluated strictly; if any
documented predicate is undefined on the value (TypeError etc.) the scenario is outside the
quantifier and skipped.  The real match() must then return None iff the oracle says "holds",
otherwise an object with describe()/get_details(); two consecutive calls must agree; and deep
structural snapshots of matcher, value (and scratch directory) must be unchanged.

ENUMERATION: exhaustive leaf x value tables for every domain, all one-level combinators over
leaves, exhaustive small MatchesSetwise/Listwise/AllMatch/AnyMatch (<=3 matchers x lists <=3 over
{1,2,3}), dict matchers (keys {a,b} x observed keys {a,b,c} values {0,1}), MatchesStructure,
Raises/Warnings chains over all callables; then seeded random typed trees of depth <= 4.
"""
import argparse, doctest, itertools, json, os, random, re, shutil, stat, sys, tarfile, tempfile
import time, traceback, types, warnings

import testtools.matchers as tm


class OutOfDomain(Exception):
    pass


class Propagates(Exception):  # the oracle's way to say "match() must let this error through"
    pass


class Obj:
    def __init__(self, **kw):
        self.__dict__.update(kw)

    def __eq__(self, other):
        return isinstance(other, Obj) and self.__dict__ == other.__dict__

    def __repr__(self):
        return "Obj(%s)" % ", ".join("%s=%r" % i for i in sorted(self.__dict__.items()))


SCRATCH = None
SENTINELS = [Obj(s=0), Obj(s=1)]
NAMES = {c.__name__: c for c in (ValueError, KeyError, TypeError, LookupError, Exception, BaseException,
                                 KeyboardInterrupt, SystemExit, DeprecationWarning, UserWarning, Warning,
                                 int, str, bytes, list, dict, tuple, bool, object, Obj)}
FUNCS = {"identity": lambda x: x, "str": str, "len": len, "neg": lambda x: -x, "sorted": sorted,
         "first": lambda x: x[0], "keys": lambda x: sorted(x.keys()), "attr_a": lambda x: x.a,
         "excvalue": lambda t: t[1]}
PREDS = {"truthy": bool, "even": lambda x: x % 2 == 0}


def make_fn(spec):
    def fn():
        for cat, msg in spec.get("warn", []):
            warnings.warn(msg, NAMES[cat])
        if "raise" in spec:
            raise NAMES[spec["raise"][0]](*V(spec["raise"][1]))
        return V(spec.get("ret"))
    return fn


def make_excinfo(spec):
    try:
        raise NAMES[spec["t"]](*V(spec["a"]))
    except BaseException:
        return sys.exc_info()


def V(s):
    """Build a fresh Python value from a JSON value spec."""
    if isinstance(s, list):
        return [V(i) for i in s]
    if not isinstance(s, dict):
        return s
    k = s.get("$")
    if k is None:
        return {key: V(v) for key, v in s.items()}
    if k == "bytes": return s["v"].encode("latin1")
    if k == "tuple": return tuple(V(s["v"]))
    if k == "obj": return Obj(**V(s["a"]))
    if k == "sentinel": return SENTINELS[s["n"]]
    if k == "cls": return NAMES[s["n"]]
    if k == "clss": return tuple(NAMES[n] for n in s["n"])
    if k == "err": return NAMES[s["t"]](*V(s["a"]))
    if k == "excinfo": return make_excinfo(s)
    if k == "fn": return make_fn(s)
    if k == "path": return os.path.join(SCRATCH, s["p"])
    if k == "warnmsg": return warnings.WarningMessage(NAMES[s["c"]](s["m"]), NAMES[s["c"]], "f.py", 1)
    raise ValueError("unknown value spec %r" % (s,))


def M(e):
    """Build the real matcher for expression e."""
    return TABLE[e[0]][0](*e[1:])


def H(e, x):
    """Oracle: does the documented predicate of expression e hold for value x?"""
    predicate = TABLE[e[0]][1]
    try:
        return bool(predicate(x, *e[1:]))
    except (TypeError, AttributeError, KeyError, IndexError, ValueError, OSError, re.error, tarfile.TarError):
        raise OutOfDomain(e[0])


def opt(e):
    return None if e is None else M(e)


def need(cond):
    if not cond:
        raise OutOfDomain()
    return True


def o_doctest(x, want, flags=0):
    for s in (x, want):
        need(isinstance(s, str) and re.fullmatch(r"[a-z.]+([ \n][a-z.]+)*", s) and s not in ("true", "false"))
    if flags & doctest.ELLIPSIS:
        return re.fullmatch(".*".join(map(re.escape, want.split("..."))), x, re.S) is not None
    return x == want


def o_setwise(x, es):
    need(isinstance(x, (list, tuple)) and len(es) <= 6)
    ok = [[H(e, v) for e in es] for v in x]
    return len(x) == len(es) and any(all(ok[i][p[i]] for i in range(len(x)))
                                     for p in itertools.permutations(range(len(es))))


def o_dict(mode):
    def o(x, d):
        need(isinstance(x, dict))
        per_key = [H(d[k], x[k]) for k in sorted(set(d) & set(x))]
        keys = {"eq": set(x) == set(d), "sup": set(d) <= set(x), "sub": set(x) <= set(d)}[mode]
        return keys and all(per_key)
    return o


def o_mexc(x, spec, extra=None):
    need(isinstance(x, tuple) and len(x) == 3)
    exp = V(spec)
    if isinstance(exp, BaseException):
        return issubclass(x[0], type(exp)) and x[1].args == exp.args
    if not issubclass(x[0], exp) or extra is None:
        return issubclass(x[0], exp)
    return re.match(extra, str(x[1])) is not None if isinstance(extra, str) else H(extra, x[1])


def o_raises(x, e=None):
    need(callable(x))
    try:
        x()
    except Exception:
        return e is None or H(e, sys.exc_info())
    except BaseException as err:
        if e is not None and H(e, sys.exc_info()):
            return True
        raise Propagates(type(err).__name__)
    return False


def recorded(x):
    need(callable(x))
    with warnings.catch_warnings(record=True) as w:
        warnings.simplefilter("always")
        try:
            x()
        except BaseException:
            raise OutOfDomain()
    return w


def o_deprecated(x, e):
    w = recorded(x)
    need(len(w) == 1 or not any(i.category is DeprecationWarning for i in w))
    return len(w) == 1 and w[0].category is DeprecationWarning and H(e, str(w[0].message))


def o_samepath(x, p):
    a, b = x, V(p)
    need(isinstance(a, str))
    if os.path.exists(a) and os.path.exists(b):
        return os.path.samefile(a, b)
    return os.path.realpath(a) == os.path.realpath(b)


def read(p):
    with open(p) as f:
        return f.read()


def tarnames(p):
    with tarfile.open(p) as t:
        return sorted(t.getnames())


def count(seq, item):
    return sum(1 for i in seq if i == item)


def seq(x):
    return need(isinstance(x, (list, tuple)))


def scalar(x):  # MatchesPredicate formats its message with '%', so tuples are outside its domain
    return need(not isinstance(x, tuple))


# name -> (build the real matcher from the expression's arguments, documented predicate on value x)
TABLE = {
    "Equals": (lambda v: tm.Equals(V(v)), lambda x, v: x == V(v)),
    "NotEquals": (lambda v: tm.NotEquals(V(v)), lambda x, v: x != V(v)),
    "Is": (lambda v: tm.Is(V(v)), lambda x, v: x is V(v)),
    "LessThan": (lambda v: tm.LessThan(V(v)), lambda x, v: x < V(v)),
    "GreaterThan": (lambda v: tm.GreaterThan(V(v)), lambda x, v: x > V(v)),
    "IsInstance": (lambda ns: tm.IsInstance(*[NAMES[n] for n in ns]),
                   lambda x, ns: need(ns) and isinstance(x, tuple(NAMES[n] for n in ns))),
    "Always": (lambda: tm.Always(), lambda x: True),
    "Never": (lambda: tm.Never(), lambda x: False),
    "StartsWith": (lambda v: tm.StartsWith(V(v)), lambda x, v: x.startswith(V(v))),
    "EndsWith": (lambda v: tm.EndsWith(V(v)), lambda x, v: x.endswith(V(v))),
    "Contains": (lambda v: tm.Contains(V(v)), lambda x, v: V(v) in x),
    "ContainsAll": (lambda v: tm.ContainsAll(V(v)), lambda x, v: all([i in x for i in V(v)])),
    "MatchesRegex": (lambda p, fl=0: tm.MatchesRegex(V(p), fl), lambda x, p, fl=0: re.match(V(p), x, fl) is not None),
    "DocTestMatches": (lambda s, fl=0: tm.DocTestMatches(s, fl), o_doctest),
    "HasLength": (lambda n: tm.HasLength(n), lambda x, n: len(x) == n),
    "SameMembers": (lambda v: tm.SameMembers(V(v)),
                    lambda x, v: seq(x) and all(count(x, i) == count(V(v), i) for i in list(x) + V(v))),
    "KeysEqual": (lambda ks: tm.KeysEqual(*ks), lambda x, ks: need(isinstance(x, dict)) and sorted(x) == sorted(ks)),
    "KeysEqualDict": (lambda d: tm.KeysEqual(V(d)), lambda x, d: need(isinstance(x, dict)) and set(x) == set(d)),
    "Predicate": (lambda n: tm.MatchesPredicate(PREDS[n], "%s fails " + n), lambda x, n: scalar(x) and PREDS[n](x)),
    "PredicateWithParams": (lambda n: tm.MatchesPredicateWithParams(lambda x, y: x % y == 0, "{0} % {1}")(n),
                            lambda x, n: need(isinstance(x, int) and n) and x % n == 0),
    "Not": (lambda e: tm.Not(M(e)), lambda x, e: not H(e, x)),
    "MatchesAll": (lambda es, fo=False: tm.MatchesAll(*map(M, es), first_only=fo),
                   lambda x, es, fo=False: all([H(e, x) for e in es])),
    "MatchesAny": (lambda es: tm.MatchesAny(*map(M, es)), lambda x, es: any([H(e, x) for e in es])),
    "Annotate": (lambda t, e: tm.Annotate(t, M(e)), lambda x, t, e: H(e, x)),
    "AnnotateIf": (lambda t, e: tm.Annotate.if_message(t, M(e)), lambda x, t, e: H(e, x)),
    "AfterPreprocessing": (lambda f, e, ann=True: tm.AfterPreprocessing(FUNCS[f], M(e), ann),
                           lambda x, f, e, ann=True: H(e, FUNCS[f](x))),
    "AllMatch": (lambda e: tm.AllMatch(M(e)), lambda x, e: seq(x) and all([H(e, v) for v in x])),
    "AnyMatch": (lambda e: tm.AnyMatch(M(e)), lambda x, e: seq(x) and any([H(e, v) for v in x])),
    "MatchesListwise": (lambda es, fo=False: tm.MatchesListwise([M(e) for e in es], first_only=fo),
                        lambda x, es, fo=False: seq(x) and all([H(e, v) for e, v in zip(es, x)]) and len(x) == len(es)),
    "MatchesSetwise": (lambda es: tm.MatchesSetwise(*map(M, es)), o_setwise),
    "MatchesDict": (lambda d: tm.MatchesDict({k: M(e) for k, e in d.items()}), o_dict("eq")),
    "ContainsDict": (lambda d: tm.ContainsDict({k: M(e) for k, e in d.items()}), o_dict("sup")),
    "ContainedByDict": (lambda d: tm.ContainedByDict({k: M(e) for k, e in d.items()}), o_dict("sub")),
    "MatchesStructure": (lambda d: tm.MatchesStructure(**{k: M(e) for k, e in d.items()}),
                         lambda x, d: all([H(e, getattr(x, k)) for k, e in sorted(d.items())])),
    "StructByEquality": (lambda d: tm.MatchesStructure.byEquality(**V(d)),
                         lambda x, d: all([getattr(x, k) == v for k, v in sorted(V(d).items())])),
    "StructUpdate": (lambda d, u: tm.MatchesStructure(**{k: M(e) for k, e in d.items()}).update(**{k: opt(e) for k, e in u.items()}),
                     lambda x, d, u: all([H(e, getattr(x, k)) for k, e in sorted(dict(d, **u).items()) if e is not None])),
    "MatchesException": (lambda s, extra=None: tm.MatchesException(V(s), extra if isinstance(extra, str) else opt(extra)), o_mexc),
    "Raises": (lambda e=None: tm.Raises(opt(e)), o_raises),
    "raises": (lambda s: tm.raises(V(s)), lambda x, s: o_raises(x, ["MatchesException", s])),
    "Warnings": (lambda e=None: tm.Warnings(opt(e)), lambda x, e=None: bool(recorded(x)) if e is None else H(e, recorded(x))),
    "WarningMessage": (lambda c, e=None: tm.WarningMessage(NAMES[c], message=opt(e)),
                       lambda x, c, e=None: x.category is NAMES[c] and (e is None or H(e, str(x.message)))),
    "IsDeprecated": (lambda e: tm.IsDeprecated(M(e)), o_deprecated),
    "PathExists": (lambda: tm.PathExists(), lambda x: need(isinstance(x, str)) and os.path.exists(x)),
    "DirExists": (lambda: tm.DirExists(), lambda x: need(isinstance(x, str)) and os.path.isdir(x)),
    "FileExists": (lambda: tm.FileExists(), lambda x: need(isinstance(x, str)) and os.path.isfile(x)),
    "DirContains": (lambda ns=None, e=None: tm.DirContains(ns, opt(e)),
                    lambda x, ns=None, e=None: need(isinstance(x, str) and (ns is None) != (e is None)) and os.path.isdir(x)
                    and (sorted(os.listdir(x)) == sorted(ns) if e is None else H(e, sorted(os.listdir(x))))),
    "FileContains": (lambda s=None, e=None: tm.FileContains(s, opt(e)),
                     lambda x, s=None, e=None: need(isinstance(x, str) and (s is None) != (e is None)) and os.path.exists(x)
                     and (read(x) == s if e is None else H(e, read(x)))),
    "HasPermissions": (lambda p: tm.HasPermissions(p), lambda x, p: "%04o" % stat.S_IMODE(os.stat(x).st_mode) == p),
    "SamePath": (lambda p: tm.SamePath(V(p)), o_samepath),
    "TarballContains": (lambda ns: tm.TarballContains(ns), lambda x, ns: tarnames(x) == sorted(ns)),
}
ALIASES = {"SubDictOf": "Dict", "SuperDictOf": "Dict", "MatchCommonKeys": "Dict", "MatchesAllDict": "Dict",
           "CombinedMatcher": "Dict", "BinaryComparison": "Equals", "BinaryMismatch": "Equals",
           "MatchesPredicate": "Predicate", "MatchesPredicateWithParams": "HasLength", "MismatchesAll": "Matches",
           "Always": "Always", "Never": "Never", "FlippedEquals": "Equals"}


def snap(o, depth=0):
    """Deep structural snapshot that does not depend on object identity."""
    if depth > 12: return "..."
    if o is None or isinstance(o, (bool, int, float, str, bytes)): return repr(o)
    if isinstance(o, (list, tuple)): return (type(o).__name__, [snap(i, depth + 1) for i in o])
    if isinstance(o, dict): return ("dict", [(snap(k, depth + 1), snap(v, depth + 1)) for k, v in o.items()])
    if isinstance(o, type): return ("class", o.__qualname__)
    if isinstance(o, types.TracebackType): return "traceback"
    if isinstance(o, (types.FunctionType, types.BuiltinFunctionType)): return ("function", o.__qualname__)
    state = snap(getattr(o, "__dict__", None), depth + 1)
    if isinstance(o, BaseException): state = (snap(o.args, depth + 1), state)
    return (type(o).__qualname__, state)


def fs_snap():
    out = []
    for root, dirs, files in os.walk(SCRATCH):
        for n in sorted(dirs + files):
            p = os.path.join(root, n)
            st = os.lstat(p)
            body = os.readlink(p) if stat.S_ISLNK(st.st_mode) else (open(p, "rb").read() if stat.S_ISREG(st.st_mode) else None)
            out.append((os.path.relpath(p, SCRATCH), st.st_mode, body))
    return sorted(out)


def names_in(e, acc=None):
    acc = set() if acc is None else acc
    if isinstance(e, list):
        if e and isinstance(e[0], str) and e[0] in TABLE: acc.add(e[0])
        for i in e: names_in(i, acc)
    elif isinstance(e, dict):
        for i in e.values(): names_in(i, acc)
    return acc


CHAIN = {"Not", "Annotate", "AnnotateIf", "AfterPreprocessing", "Raises", "raises", "MatchesException"}
STATS = {"run": 0, "skipped": 0}


def check(sc):
    """Run one scenario; return None if fine/skipped, else (observed, required)."""
    expr, vspec = sc["m"], sc["v"]
    try:
        required = "match() returns None" if H(expr, V(vspec)) else "match() returns a Mismatch"
    except OutOfDomain:
        STATS["skipped"] += 1
        return None
    except Propagates as p:
        if not names_in(expr) <= CHAIN:  # evaluation order of n-ary combinators is not part of the property
            STATS["skipped"] += 1
            return None
        required = "match() propagates %s" % p
    STATS["run"] += 1
    uses_fs = '"path"' in json.dumps(sc)
    matcher, value = M(expr), V(vspec)
    before = (snap(matcher), snap(value), fs_snap() if uses_fs else None)
    outcomes = []
    for _ in range(2):
        try:
            r = matcher.match(value)
            if r is None: outcomes.append("match() returns None")
            elif callable(getattr(r, "describe", None)) and callable(getattr(r, "get_details", None)):
                outcomes.append("match() returns a Mismatch")
            else: outcomes.append("match() returns non-Mismatch %r" % (r,))
        except BaseException as e:
            outcomes.append("match() propagates %s" % type(e).__name__)
            detail = "".join(traceback.format_exception_only(type(e), e)).strip()
    after = (snap(matcher), snap(value), fs_snap() if uses_fs else None)
    problems = []
    if outcomes[0] != required: problems.append("wrong verdict")
    if outcomes[0] != outcomes[1]: problems.append("verdict not deterministic")
    for label, b, a in zip(("matcher", "matched value", "scratch directory"), before, after):
        if a != b: problems.append("%s modified by match()" % label)
    if not problems:
        return None
    observed = {"outcomes": outcomes, "problems": problems}
    if any("propagates" in o for o in outcomes): observed["exception"] = detail
    return observed, required + " on every call, leaving matcher and matched value unchanged"


# ---------------------------------------------------------------- value and leaf alphabets
def B(s): return {"$": "bytes", "v": s}
def P(p): return {"$": "path", "p": p}
def C(n): return {"$": "cls", "n": n}
def EI(t, *a): return {"$": "excinfo", "t": t, "a": list(a)}
def FN(**kw): return dict({"$": "fn"}, **kw)
def O(**a): return {"$": "obj", "a": a}


S0, S1 = {"$": "sentinel", "n": 0}, {"$": "sentinel", "n": 1}
VALUES = {
    "int": [0, 1, 2, 3, -1],
    "str": ["", "a", "ab", "abc", "b", "a\nb", "a b"],
    "bytes": [B(""), B("a"), B("ab"), B("ba")],
    "list": [[], [1], [2], [1, 2], [2, 1], [1, 1], [1, 2, 3], [3, 1, 2], [2, 2, 1], [0, 0]],
    "dict": [{}, {"a": 1}, {"a": 0}, {"b": 2}, {"a": 1, "b": 2}, {"a": 1, "b": 0}, {"a": 1, "c": 0}, {"a": 2, "b": 2, "c": ""}],
    "obj": [O(a=1, b="x"), O(a=2, b="x"), O(a=1, b="y"), O(a=0, b="")],
    "exc": [EI("ValueError", "x"), EI("ValueError", "y", 1), EI("KeyError", "k"), EI("TypeError"), EI("KeyboardInterrupt")],
    "fn": [FN(ret=1), FN(ret=None), FN(**{"raise": ["ValueError", ["x"]]}), FN(**{"raise": ["KeyError", ["k"]]}),
           FN(**{"raise": ["KeyboardInterrupt", []]}), FN(**{"raise": ["SystemExit", [1]]}),
           FN(warn=[["DeprecationWarning", "old"]], ret=1), FN(warn=[["UserWarning", "hm"]], ret=1),
           FN(warn=[["DeprecationWarning", "old"], ["DeprecationWarning", "older"]])],
    "path": [P("f.txt"), P("empty"), P("d"), P("d/x"), P("link"), P("missing"), P("t.tar"), P("ro"), P("d/../f.txt"),
             P("dlink/../inner.txt"), P("d/inner.txt"), P("dlink/../f.txt")],
    "misc": [None, True, S0, S1, {"$": "tuple", "v": [1, 2]}, C("ValueError")],
}
ANY = ([["Always"], ["Never"], ["Is", None], ["Is", S0], ["Is", True], ["IsInstance", ["int"]], ["IsInstance", ["str", "list"]],
        ["IsInstance", ["dict", "tuple", "Obj"]], ["Predicate", "truthy"]]
       + [[n, v] for n in ("Equals", "NotEquals") for v in (1, "ab", [1, 2], {"a": 1}, O(a=1, b="x"), B("a"), None)])
CMP = [[n, v] for n in ("Equals", "NotEquals", "LessThan", "GreaterThan") for v in (0, 1, 2)]
LEAVES = {
    "int": CMP + [["Predicate", "even"], ["Predicate", "truthy"], ["PredicateWithParams", 2], ["IsInstance", ["int"]]],
    "str": [[n, v] for n in ("StartsWith", "EndsWith", "Contains", "Equals", "LessThan", "GreaterThan") for v in ("", "a", "b", "ab")]
    + [["MatchesRegex", p] for p in ("a", "a?b", "b$", ".b", "")] + [["MatchesRegex", "A", re.I], ["MatchesRegex", "a.b", re.S]]
    + [["HasLength", n] for n in (0, 1, 2)] + [["DocTestMatches", s, f] for s in ("a", "ab", "a...", "a b", "a\nb") for f in (0, doctest.ELLIPSIS)],
    "bytes": [[n, B(v)] for n in ("StartsWith", "EndsWith", "Contains", "Equals") for v in ("", "a", "b")]
    + [["MatchesRegex", B("a?b")], ["HasLength", 1]],
    "list": [[n, v] for n in ("SameMembers", "Equals", "ContainsAll") for v in ([], [1], [1, 2], [2, 1], [1, 1], [2, 2, 1], [1, 2, 3])]
    + [["Contains", v] for v in (0, 1, 3)] + [["HasLength", n] for n in (0, 1, 2, 3)],
    "dict": [["KeysEqual", ks] for ks in ([], ["a"], ["b", "a"], ["a", "c"])] + [["KeysEqualDict", {"a": 5}], ["KeysEqualDict", {}]]
    + [["Contains", "a"], ["HasLength", 1], ["Equals", {"a": 1}], ["Predicate", "truthy"]],
    "obj": [["StructByEquality", d] for d in ({}, {"a": 1}, {"a": 1, "b": "x"}, {"b": ""})] + [["Equals", O(a=1, b="x")]],
    "exc": [["MatchesException", s] for s in (C("ValueError"), C("Exception"), C("LookupError"), C("KeyboardInterrupt"), C("BaseException"),
                                              {"$": "clss", "n": ["KeyError", "TypeError"]}, {"$": "err", "t": "ValueError", "a": ["x"]},
                                              {"$": "err", "t": "ValueError", "a": ["y", 1]}, {"$": "err", "t": "ValueError", "a": ["y", 2]},
                                              {"$": "err", "t": "ValueError", "a": ["y"]}, {"$": "err", "t": "Exception", "a": ["x"]})]
    + [["MatchesException", C("ValueError"), r] for r in ("x", "y", "", ".*1")] + [["MatchesException", C("Exception"), "'k'"]],
    "fn": [["Raises"], ["Warnings"], ["raises", C("ValueError")], ["raises", C("KeyboardInterrupt")], ["raises", C("BaseException")],
           ["raises", {"$": "err", "t": "ValueError", "a": ["x"]}], ["IsDeprecated", ["Equals", "old"]], ["IsDeprecated", ["Always"]],
           ["Warnings", ["HasLength", 2]], ["Warnings", ["HasLength", 0]], ["Warnings", ["AllMatch", ["WarningMessage", "DeprecationWarning"]]],
           ["Warnings", ["AnyMatch", ["WarningMessage", "DeprecationWarning", ["EndsWith", "er"]]]],
           ["Warnings", ["MatchesListwise", [["WarningMessage", "UserWarning", ["Equals", "hm"]]]]]],
    "path": [["PathExists"], ["DirExists"], ["FileExists"], ["DirContains", ["x", "y"]], ["DirContains", ["x"]], ["DirContains", []],
             ["FileContains", "hello"], ["FileContains", ""], ["HasPermissions", "0644"], ["HasPermissions", "0400"],
             ["SamePath", P("f.txt")], ["SamePath", P("d/../d")], ["SamePath", P("nowhere")], ["SamePath", P("d/inner.txt")],
             ["SamePath", P("dlink/../inner.txt")], ["TarballContains", ["a", "b"]],
             ["TarballContains", ["a"]]],
}
EDGE = [["Contains", 1], ["HasLength", 2], ["MatchesAll", []], ["MatchesAny", []], ["MatchesAll", [], True], ["Not", ["MatchesAny", []]],
        ["MatchesSetwise", []], ["MatchesListwise", []], ["MatchesDict", {}], ["ContainsDict", {}], ["MatchesStructure", {}]]
SMALL = [["Equals", 1], ["Equals", 2], ["LessThan", 3], ["GreaterThan", 1], ["Always"], ["Never"]]
DICTM = [["Equals", 1], ["Equals", 0], ["Always"], ["Never"]]
PRE = {"int": [("neg", "int"), ("str", "str")], "str": [("len", "int")], "bytes": [("len", "int")],
       "list": [("len", "int"), ("sorted", "list")], "dict": [("keys", "list"), ("len", "int")],
       "obj": [("attr_a", "int")], "exc": [("excvalue", "err")], "fn": [], "path": [("str", "str")]}


def sub_exprs(t, inner):
    """Typed structural matchers for values of type t whose parts are produced by inner(type)."""
    if t == "list":
        return [["AllMatch", inner("int")], ["AnyMatch", inner("int")], ["MatchesListwise", [inner("int"), inner("int")]],
                ["MatchesSetwise", [inner("int"), inner("int")]], ["MatchesListwise", [inner("int")], True]]
    if t == "dict":
        return [[n, {"a": inner("int"), "b": inner("int")}] for n in ("MatchesDict", "ContainsDict", "ContainedByDict")]
    if t == "obj":
        return [["MatchesStructure", {"a": inner("int"), "b": inner("str")}], ["StructUpdate", {"a": inner("int")}, {"b": inner("str"), "a": None}]]
    if t == "exc":
        return [["MatchesException", C("Exception"), ["AfterPreprocessing", "str", inner("str")]]]
    if t == "fn":
        return [["Raises", inner("exc")], ["Warnings", ["AfterPreprocessing", "len", inner("int")]]]
    if t == "path":
        return [["FileContains", None, inner("str")], ["DirContains", None, inner("list")]]
    return []


def leaves(t):
    return [["AfterPreprocessing", "str", ["Equals", "x"]], ["Always"]] if t == "err" else LEAVES[t]


def wrappers(t, inner):
    out = [["Not", inner(t)], ["Annotate", "note", inner(t)], ["AnnotateIf", "", inner(t)], ["AfterPreprocessing", "identity", inner(t), False],
           ["MatchesAll", [inner(t), inner(t)]], ["MatchesAny", [inner(t), inner(t)]], ["MatchesAll", [inner(t), inner(t)], True]]
    return out + [["AfterPreprocessing", f, inner(t2)] for f, t2 in PRE.get(t, [])]


def fill(e, make):
    """Replace the typed holes {"?": type} left by wrappers()/sub_exprs() using make(type)."""
    if isinstance(e, list):
        return [fill(i, make) for i in e]
    if isinstance(e, dict):
        return make(e["?"]) if "?" in e else {k: fill(v, make) for k, v in e.items()}
    return e


def rand_expr(rng, t, depth):
    if depth <= 0 or rng.random() < 0.2 or t == "err":
        return rng.choice(leaves(t) + (ANY if t != "err" and rng.random() < 0.3 else []))
    hole = lambda t2: {"?": t2}
    options = wrappers(t, hole) + sub_exprs(t, hole) * 2
    if t in ("int", "list", "str"):
        options.append([rng.choice(["MatchesAll", "MatchesAny"]), [hole(t)] * rng.randint(0, 4)])
    if t == "list":
        options.append(["MatchesSetwise", [hole("int")] * rng.randint(0, 5)])
    return fill(rng.choice(options), lambda t2: rand_expr(rng, t2, depth - 1))


def rand_value(rng, t):
    if t == "list" and rng.random() < 0.6:
        return [rng.randint(0, 3) for _ in range(rng.randint(0, 5))]
    if t == "dict" and rng.random() < 0.6:
        return {k: rng.randint(0, 2) for k in "abc" if rng.random() < 0.5}
    return rng.choice(VALUES[t])


def groups():
    """Yield (group name, iterator of scenarios): exhaustive small ones first."""
    types_ = [t for t in VALUES if t != "misc"]
    allvals = [v for t in VALUES for v in VALUES[t]]
    yield "leaf x value", ({"m": e, "v": v} for t in types_ for e in LEAVES[t] for v in VALUES[t])
    yield "generic leaf x every value", ({"m": e, "v": v} for e in ANY + EDGE for v in allvals)
    lists3 = [list(p) for n in range(4) for p in itertools.product((1, 2, 3), repeat=n)]
    tuples3 = [list(p) for n in range(4) for p in itertools.product(SMALL, repeat=n)]
    yield "MatchesSetwise exhaustive", ({"m": ["MatchesSetwise", es], "v": v} for es in tuples3 for v in lists3)
    yield "MatchesListwise exhaustive", ({"m": ["MatchesListwise", es, fo], "v": v} for es in tuples3 if len(es) < 3 for fo in (False, True) for v in lists3)
    yield "AllMatch/AnyMatch exhaustive", ({"m": [n, e], "v": v} for n in ("AllMatch", "AnyMatch") for e in SMALL for v in lists3)
    expected = [dict(zip(ks, ms)) for n in range(3) for ks in itertools.combinations("ab", n) for ms in itertools.product(DICTM, repeat=n)]
    observed = [dict(zip(ks, vs)) for n in range(4) for ks in itertools.combinations("abc", n) for vs in itertools.product((0, 1), repeat=n)]
    yield "dict matchers exhaustive", ({"m": [n, d], "v": v} for n in ("MatchesDict", "ContainsDict", "ContainedByDict") for d in expected for v in observed)
    structs = [dict(zip(ks, ms)) for n in range(3) for ks in itertools.combinations("ab", n)
               for ms in itertools.product([["Equals", 1], ["Equals", "x"], ["Always"], ["Never"]], repeat=n)]
    yield "MatchesStructure exhaustive", ({"m": ["MatchesStructure", d], "v": v} for d in structs for v in VALUES["obj"])
    chain = lambda e: [e, ["Not", e], ["Annotate", "n", e], ["Not", ["Not", e]], ["AfterPreprocessing", "identity", e]]
    yield "Raises/Warnings chains", ({"m": m, "v": v} for e in LEAVES["fn"] + [["Raises", x] for x in LEAVES["exc"]] for m in chain(e) for v in VALUES["fn"])

    def depth1():
        for t in types_:
            pool = LEAVES[t]
            for i, e in enumerate(pool):
                other = pool[(i * 7 + 3) % len(pool)]
                picks = itertools.cycle([e, other])
                for m in wrappers(t, lambda t2: next(picks) if t2 == t else leaves(t2)[i % len(leaves(t2))]):
                    for v in VALUES[t]:
                        yield {"m": m, "v": v}
            for i in range(len(SMALL) * 4):
                for m in sub_exprs(t, lambda t2: leaves(t2)[(i * 5 + 1) % len(leaves(t2))]):
                    for v in VALUES[t]:
                        yield {"m": m, "v": v}
    yield "one-level combinators", depth1()

    def randoms():
        rng = random.Random(int(os.environ.get("VERIF_SEED", "0")))
        for _ in range(40000):
            t = rng.choice(types_)
            yield {"m": rand_expr(rng, t, rng.randint(1, 4)), "v": rand_value(rng, t)}
    yield "random typed trees", randoms()


def make_scratch():
    global SCRATCH
    SCRATCH = tempfile.mkdtemp(prefix="verif_C06_")
    for name, body in (("f.txt", "hello"), ("empty", ""), ("ro", "r")):
        with open(os.path.join(SCRATCH, name), "w") as f:
            f.write(body)
    os.chmod(os.path.join(SCRATCH, "f.txt"), 0o644)
    os.chmod(os.path.join(SCRATCH, "ro"), 0o400)
    os.mkdir(os.path.join(SCRATCH, "d"))
    for name in ("x", "y"):
        open(os.path.join(SCRATCH, "d", name), "w").close()
    os.symlink("f.txt", os.path.join(SCRATCH, "link"))
    # a symlinked directory: `dlink/..` is the parent of what the link POINTS to (d/sub/..  = d), not the scratch directory
    os.mkdir(os.path.join(SCRATCH, "d", "sub"))
    open(os.path.join(SCRATCH, "d", "inner.txt"), "w").close()
    os.symlink(os.path.join("d", "sub"), os.path.join(SCRATCH, "dlink"))
    os.mkdir(os.path.join(SCRATCH, "src"))
    with tarfile.open(os.path.join(SCRATCH, "t.tar"), "w") as t:
        for name in ("a", "b"):
            open(os.path.join(SCRATCH, "src", name), "w").close()
            t.add(os.path.join(SCRATCH, "src", name), arcname=name)


def report(sc, verdict):
    print(json.dumps({"scenario": sc, "observed": verdict[0], "required": verdict[1]}))
    return 1


def main():
    ap = argparse.ArgumentParser()
    ap.add_argument("--budget", type=float, default=60.0)
    ap.add_argument("--from-obligation")
    ap.add_argument("--scenario")
    args = ap.parse_args()
    deadline = time.monotonic() + args.budget
    warnings.simplefilter("ignore")
    make_scratch()
    if args.scenario:
        sc = json.loads(args.scenario)
        verdict = check(sc)
        return report(sc, verdict) if verdict else 0
    key = None
    if args.from_obligation:
        try:
            target = json.loads(args.from_obligation).get("target", "")
            cls = target.split(":")[-1].split(".")[0].lstrip("_")
            key = ALIASES.get(cls, cls) if cls else None
        except Exception:
            key = None
    relevant = lambda sc: any(key in n or n in key for n in names_in(sc["m"]))
    passes = [True, False] if key else [False]  # first only scenarios exercising the target, then everything
    for only_relevant in passes:
        for name, scenarios in groups():
            n = 0
            for sc in scenarios:
                if time.monotonic() > deadline:
                    print("budget exhausted in group %r; %r" % (name, STATS))
                    return 0
                if only_relevant and not relevant(sc):
                    continue
                n += 1
                verdict = check(sc)
                if verdict:
                    print("violation in group %r; %r" % (name, STATS))
                    return report(sc, verdict)
            print("group %-32s %6d scenarios ok%s" % (name, n, " (target pass)" if only_relevant else ""))
    print("no violation; %r" % (STATS,))
    return 0


if __name__ == "__main__":
    try:
        code = main()
    except SystemExit as e:
        code = e.code if isinstance(e.code, int) and e.code != 1 else 2
    except BaseException:
        traceback.print_exc()
        code = 2
    finally:
        if SCRATCH:
            shutil.rmtree(SCRATCH, ignore_errors=True)
    sys.stdout.flush()
    sys.exit(code)
