#!/venv/bin/python
"""C08 replay / counterexample search: result adapters deliver each call once,
at the richest protocol the target has.

Scenario = {"stack": adapters outermost first ("E" ExtendedToOriginalDecorator,
"D" TestResultDecorator, "T" Tagger, "M:<flavour>" MultiTestResult over the rest
of the stack plus one extra target), "leaf": innermost target flavour ("26",
"27", "ext", "tw" = testtools.testresult.doubles, "tt" = testtools.TestResult
with a call log, "tbt" = TestByTestResult with a logging callback), "tests":
kinds of test objects, "history": well-formed list of TestResult calls}.

ORACLE (from the property statement; observes only the targets' event logs, each
event stamped with the index of the history call during which it arrived):
 * every startTest / outcome / stopTest arrives at every target exactly once,
   during the call that reported it, in order, with the same test object;
 * targets with the details protocol get err / reason / details verbatim;
 * targets without it get exc_info / reason verbatim, and for details a
   synthetic exc_info (error, failure, xfail) or reason string (skip) whose text
   contains the text of the details (of the "reason" detail if present);
   success / unexpected success simply lose their details;
 * a 2.6-style target gets addSuccess for skip and xfail, and addFailure with
   a real exc_info for unexpected success - so a failing outcome never turns
   into a passing one;
 * startTestRun, stopTestRun, tags, time, progress arrive once at every target
   that has the method (when every non-E2O adapter on the way has it too); each
   Tagger adds one tags() call during each startTest;
 * TestByTestResult: exactly one callback per test, during stopTest, with the
   test, the status word, the start/stop time current at startTest/stopTest,
   the tags current at stopTest and the details (given, or made from err/reason).
A call that the stack structurally cannot accept (e.g. done() on a bare
TestResultDecorator, progress() on MultiTestResult) is not issued.  Any
exception escaping an issued call is a violation.

ENUMERATION: (1) all 379 valid stacks of depth 0..3 x 6 target flavours x 18
outcome variants (6 outcomes x exc_info/reason/plain or 1-3 details shapes) x 4
test kinds, one-test history; (2) every stack x 18 two-test histories with
startTestRun, run/test tags, time, progress, stop, stopTestRun, done; (3) random
stacks and 1..4-test histories (seed VERIF_SEED) until budget or 30000 runs.
"""
import argparse
import datetime
import itertools
import json
import os
import random
import sys
import time
import unittest

STEP = [-1]          # index of the history call currently being executed
KINDS = ("E", "D", "T", "M")
LEAVES = ("26", "27", "ext", "tw", "tt", "tbt")
DETAILS = ("ext", "tt")          # flavours with the details protocol
METHOD = {"success": "addSuccess", "error": "addError", "failure": "addFailure", "skip": "addSkip",
          "xfail": "addExpectedFailure", "uxsuccess": "addUnexpectedSuccess"}
FORMS = {"success": ("plain", "d1"), "uxsuccess": ("plain", "d1"), "error": ("plain", "d1", "d2", "d3"),
         "failure": ("plain", "d1", "d2", "d3"), "xfail": ("plain", "d1", "d2", "d3"), "skip": ("plain", "dr", "d1", "d2", "drl")}
VARIANTS = [(k, f) for k in METHOD for f in FORMS[k]]
# d3: what testtools itself produces when the test body fails and a cleanup fails too (traceback, traceback-1)
DETAIL_KEYS = {"d1": ("log",), "d2": ("traceback", "log"), "d3": ("traceback", "traceback-1", "log"), "dr": ("reason",), "drl": ("reason", "log")}
TEST_KINDS = ("case", "ucase", "placeholder", "errorholder")
AUX = ("startTestRun", "stopTestRun", "tags", "time", "progress", "stop", "done")
T0 = datetime.datetime(2000, 1, 1, tzinfo=datetime.timezone.utc)


class StepLog(list):
    def append(self, event):
        super().append((STEP[0], event))


class Pred:
    """A described predicate standing in for one element of an expected event."""

    def __init__(self, desc, fn):
        self.desc, self.fn = desc, fn

    def __call__(self, value):
        try:
            return bool(self.fn(value))
        except Exception:
            return False

    def __repr__(self):
        return "<%s>" % self.desc


class Node:
    def __init__(self, kind, obj=None, log=None):
        self.kind, self.obj, self.log, self.kids, self.tag = kind, obj, log, [], None


def load():
    """Import the code under test (whatever PYTHONPATH resolves) into globals."""
    global tt, doubles, text_content, LoggedResult
    import testtools as tt
    from testtools.content import text_content
    from testtools.testresult import doubles

    class LoggedResult(tt.TestResult):
        """testtools.TestResult flavour: logs like ExtendedTestResult, then behaves normally."""

        def __init__(self, log):
            self._log = log
            super().__init__()

    def logged(name):
        def method(self, *a, **kw):
            if name.startswith("add"):
                extra = [v for v in list(a[1:]) + list(kw.values()) if v is not None and v != {}]
                self._log.append((name, a[0]) + tuple(extra))
            else:
                self._log.append((name,) + a)
            return getattr(tt.TestResult, name)(self, *a, **kw)
        return method
    for name in list(METHOD.values()) + ["startTest", "stopTest", "startTestRun", "stopTestRun", "tags", "time"]:
        setattr(LoggedResult, name, logged(name))


def make_test(kind, i):
    if kind == "case":
        return type("Sample", (tt.TestCase,), {"test_it": lambda self: None})("test_it")
    if kind == "ucase":
        return type("USample", (unittest.TestCase,), {"test_it": lambda self: None})("test_it")
    if kind == "placeholder":
        return tt.PlaceHolder("placeholder-%d" % i)
    return tt.ErrorHolder("errorholder-%d" % i, exc_info("holder-%d" % i))


def exc_info(message):
    try:
        raise ValueError(message)
    except ValueError:
        return sys.exc_info()


def build(stack, leaf_flavour):
    leaves = []

    def leaf(flavour, path):
        log = StepLog()
        if flavour == "tbt":
            def on_test(test, status, start_time, stop_time, tags, details):
                log.append(("on_test", test, status, start_time, stop_time, frozenset(tags), details))
            obj = tt.TestByTestResult(on_test)
        elif flavour == "tt":
            obj = LoggedResult(log)
        else:
            cls = {"26": "Python26TestResult", "27": "Python27TestResult", "ext": "ExtendedTestResult", "tw": "TwistedTestResult"}
            obj = getattr(doubles, cls[flavour])(log)
        node = Node(flavour, obj, log)
        leaves.append((node, path))
        return node

    def make(i, path):
        if i == len(stack):
            return leaf(leaf_flavour, path)
        kind, _, extra = stack[i].partition(":")
        node = Node(kind)
        node.kids = [make(i + 1, path + [node])]
        if kind == "M":
            node.kids.append(leaf(extra, path + [node]))
        inner = node.kids[0].obj
        if kind == "E":
            node.obj = tt.testresult.ExtendedToOriginalDecorator(inner)
        elif kind == "D":
            node.obj = tt.testresult.TestResultDecorator(inner)
        elif kind == "T":
            node.tag = "tagger%d" % i
            node.obj = tt.testresult.Tagger(inner, {node.tag}, {"gone"})
        else:
            node.obj = tt.MultiTestResult(*[k.obj for k in node.kids])
        return node
    return make(0, []), leaves


def supports(node, method, wrapped=False):
    """Can the stack accept this auxiliary call?  An ExtendedToOriginalDecorator (explicit,
    or implied by MultiTestResult) drops calls its target lacks; anything else needs the method."""
    if node.kind == "E":
        return supports(node.kids[0], method, True)
    if not hasattr(node.obj, method):
        return wrapped
    return all(supports(k, method, node.kind == "M") for k in node.kids)


def payload(step, call):
    """Deterministic argument objects for one history call."""
    if call[0] == "time":
        return None if call[1] is None else T0 + datetime.timedelta(seconds=call[1])
    if call[0] != "outcome":
        return None
    kind, form = call[2], call[3]
    if form != "plain":
        return {k: text_content("%s-text-%d" % (k, step)) for k in DETAIL_KEYS[form]}
    if kind in ("success", "uxsuccess"):
        return None
    return "reason-%d" % step if kind == "skip" else exc_info("boom-%d" % step)


def detail_texts(details, kind):
    if kind == "skip" and "reason" in details:
        return [details["reason"].as_text()]
    return [c.as_text() for c in details.values()]


def is_exc_info(texts):
    return Pred("exc_info whose text contains %r" % (texts,), lambda v: isinstance(v, tuple) and len(v) == 3 and
                isinstance(v[1], BaseException) and all(t in str(v[1]) for t in texts))


def expect_outcome(flavour, kind, form, test, pay):
    name = METHOD[kind]
    if flavour == "26" and kind in ("skip", "xfail"):
        return ("addSuccess", test)
    if flavour == "26" and kind == "uxsuccess":
        return ("addFailure", test, is_exc_info([]))
    if kind in ("success", "uxsuccess"):
        return (name, test, pay) if form != "plain" and flavour in DETAILS else (name, test)
    if form == "plain" or flavour in DETAILS:
        return (name, test, pay)
    texts = detail_texts(pay, kind)
    if kind == "skip":
        return (name, test, Pred("reason str containing %r" % (texts,), lambda v: isinstance(v, str) and all(t in v for t in texts)))
    return (name, test, is_exc_info(texts))


def expect_tbt(kind, form, pay, step):
    status = {"success": "success", "error": "error", "failure": "failure", "skip": "skip", "xfail": "xfail"}.get(
        kind, Pred("a status word", lambda v: isinstance(v, str) and v))
    if form != "plain":
        return status, pay
    if kind in ("success", "uxsuccess"):
        return status, Pred("no details", lambda v: not v)
    if kind == "skip":
        return status, Pred("details with reason %r" % pay, lambda v: v["reason"].as_text() == pay)
    return status, Pred("details with traceback containing boom-%d" % step, lambda v: "boom-%d" % step in v["traceback"].as_text())


def a_time(value):
    if value is not None:
        return value
    return Pred("timezone-aware datetime", lambda v: isinstance(v, datetime.datetime) and v.tzinfo is not None)


def expected(node, path, history, tests, pays, issued):
    """Events the property requires at one target, as (step, event) pairs."""
    flavour, tbt = node.kind, node.kind == "tbt"
    taggers = [p for p in path if p.kind == "T"]
    exp, run_tags, test_tags, now, start, record = [], set(), None, None, None, None

    def carried(method):
        return hasattr(node.obj, method) and all(hasattr(p.obj, method) for p in path if p.kind != "E")
    for step, call in enumerate(history):
        op = call[0]
        if not issued[step]:
            continue
        if op in AUX:
            if op in ("stop", "done") or not carried(op):
                continue
            event = (op,)
            if op == "startTestRun":
                run_tags, now = set(), None
            elif op == "time":
                now = pays[step]
                event = (op, now)
            elif op == "progress":
                event = (op, call[1], call[2])
            elif op == "tags":
                new, gone = frozenset(call[1]), frozenset(call[2])
                event = (op, new, gone)
                if test_tags is None:
                    run_tags = (run_tags | new) - gone
                else:
                    test_tags = (test_tags | new) - gone
            if not tbt:
                exp.append((step, event))
            continue
        test = tests[call[1]]
        if op == "startTest":
            test_tags, start = set(run_tags), now
            if not tbt:
                exp.append((step, (op, test)))
            if hasattr(node.obj, "tags"):
                for p in taggers:
                    test_tags = (test_tags | {p.tag}) - {"gone"}
                    if not tbt:
                        exp.append((step, ("tags", frozenset([p.tag]), frozenset(["gone"]))))
        elif op == "outcome":
            if tbt:
                record = expect_tbt(call[2], call[3], pays[step], step)
            else:
                exp.append((step, expect_outcome(flavour, call[2], call[3], test, pays[step])))
        elif op == "stopTest":
            if tbt:
                exp.append((step, ("on_test", test, record[0], a_time(start), a_time(now), frozenset(test_tags), record[1])))
            else:
                exp.append((step, (op, test)))
            test_tags = None
    return exp


def canon(events):
    """Normalise tags events; order among tags events of one call is not part of the property."""
    out = [(s, ("tags", frozenset(e[1]), frozenset(e[2])) if e[0] == "tags" and len(e) == 3 else e) for s, e in events]
    i = 0
    while i < len(out):
        j = i
        while j < len(out) and out[j][1][0] == "tags" and out[j][0] == out[i][0]:
            j += 1
        out[i:j] = sorted(out[i:j], key=lambda x: (sorted(x[1][1]), sorted(x[1][2])))
        i = max(j, i + 1)
    return out


def same(exp, obs, tests):
    if exp[0] != obs[0] or len(exp[1]) != len(obs[1]):
        return False
    for e, o in zip(exp[1], obs[1]):
        if isinstance(e, Pred):
            ok = e(o)
        elif any(e is t for t in tests):
            ok = e is o
        else:
            ok = e == o
        if not ok:
            return False
    return True


def show(events, tests):
    def one(v):
        for i, t in enumerate(tests):
            if v is t:
                return "test%d" % i
        if isinstance(v, dict):
            return {k: (c.as_text() if hasattr(c, "as_text") else repr(c)) for k, c in v.items()}
        if isinstance(v, tuple) and len(v) == 3 and isinstance(v[1], BaseException):
            return "exc_info(%s: %s)" % (type(v[1]).__name__, v[1])
        if isinstance(v, (set, frozenset)):
            return sorted(v)
        return v if isinstance(v, (str, int, type(None))) else repr(v)
    return [[s] + [one(v) for v in e] for s, e in events]


def run_scenario(sc):
    """Return None if the property holds on this scenario, else (observed, required)."""
    tests = [make_test(k, i) for i, k in enumerate(sc["tests"])]
    history = sc["history"]
    STEP[0] = -1
    root, leaves = build(sc["stack"], sc["leaf"])
    pays = [payload(s, c) for s, c in enumerate(history)]
    issued = [c[0] not in AUX or supports(root, c[0]) for c in history]
    for step, call in enumerate(history):
        if not issued[step]:
            continue
        STEP[0], op, res = step, call[0], root.obj
        try:
            if op == "outcome":
                method = getattr(res, METHOD[call[2]])
                if call[3] != "plain":
                    method(tests[call[1]], details=pays[step])
                elif pays[step] is None:
                    method(tests[call[1]])
                else:
                    method(tests[call[1]], pays[step])
            elif op in ("startTest", "stopTest"):
                getattr(res, op)(tests[call[1]])
            elif op == "tags":
                res.tags(set(call[1]), set(call[2]))
            elif op == "time":
                res.time(pays[step])
            else:
                getattr(res, op)(*call[1:])
        except Exception as e:
            return ({"call": step, "raised": "%s: %s" % (type(e).__name__, e)},
                    "call %d (%s) is delivered to every target without raising" % (step, op))
    STEP[0] = len(history)
    for index, (node, path) in enumerate(leaves):
        exp = canon(expected(node, path, history, tests, pays, issued))
        obs = canon(node.log)
        if len(exp) != len(obs) or not all(same(e, o, tests) for e, o in zip(exp, obs)):
            where = "target %d (%s)" % (index, node.kind)
            return ({"target": where, "events [call, name, args..]": show(obs, tests)},
                    {"target": where, "events [call, name, args..]": show(exp, tests)})
    return None


# ---------------------------------------------------------------- enumeration
def valid(stack, leaf):
    """Pass-through decorators need something speaking the extended protocol directly below."""
    below = [s[0] for s in stack[1:]] + [leaf]
    return not any(s[0] in "DT" and b in ("26", "27", "tw") for s, b in zip(stack, below))


def all_stacks():
    extra = itertools.cycle(LEAVES)
    yield [], "tbt"
    for depth in (1, 2, 3):
        for kinds in itertools.product(KINDS, repeat=depth):
            for leaf in LEAVES:
                stack = ["M:" + next(extra) if k == "M" else k for k in kinds]
                if valid(stack, leaf):
                    yield stack, leaf


def rich_history(v0, v1):
    return [["startTestRun"], ["tags", ["a", "gone"], []], ["time", 1], ["startTest", 0], ["tags", ["b"], ["a"]],
            ["outcome", 0, v0[0], v0[1]], ["time", 2], ["stopTest", 0], ["progress", 1, 2], ["time", None], ["startTest", 1],
            ["outcome", 1, v1[0], v1[1]], ["tags", ["c"], []], ["stopTest", 1], ["stop"], ["stopTestRun"], ["done"]]


def random_scenario(rng):
    while True:
        leaf = rng.choice(LEAVES)
        stack = [k if k != "M" else "M:" + rng.choice(LEAVES) for k in (rng.choice(KINDS) for _ in range(rng.randint(1, 3)))]
        if valid(stack, leaf):
            break

    def noise(in_test):
        out = []
        for _ in range(rng.choice((0, 0, 1, 2))):
            op = rng.choice(("tags", "time") if in_test else ("tags", "time", "progress", "stop", "tags", "time"))
            if op == "tags":
                new = rng.sample(["a", "b", "gone"], rng.randint(0, 2))
                out.append(["tags", new, [t for t in ("a", "b", "gone") if t not in new and rng.random() < .4]])
            elif op == "time":
                out.append(["time", rng.choice((None, 1, 5, 3))])
            else:
                out.append([op] + ([rng.randint(0, 3), rng.randint(0, 2)] if op == "progress" else []))
        return out
    ntests = rng.randint(1, 4)
    history = [["startTestRun"]] if rng.random() < .7 else []
    for i in range(ntests):
        kind, form = rng.choice(VARIANTS)
        history += noise(False) + [["startTest", i]] + noise(True) + [["outcome", i, kind, form]] + noise(True) + [["stopTest", i]]
        if rng.random() < .15:
            history += [["stopTestRun"], ["startTestRun"]]
    history += noise(False) + [c for c in (["stopTestRun"], ["done"]) if rng.random() < .6]
    return {"stack": stack, "leaf": leaf, "tests": [rng.choice(TEST_KINDS) for _ in range(ntests)], "history": history}


def scenarios(hint):
    seed = int(os.environ.get("VERIF_SEED", "0") or 0)
    stacks = list(all_stacks())
    phase1 = [{"stack": s, "leaf": l, "tests": [tk], "history": [["startTest", 0], ["outcome", 0, k, f], ["stopTest", 0]]}
              for (k, f) in VARIANTS for tk in TEST_KINDS for s, l in stacks]
    cls, _, meth = str(hint.get("target", "")).rpartition(":")[2].partition(".")
    letter = {"ExtendedToOriginalDecorator": "E", "MultiTestResult": "M", "TestResultDecorator": "D", "Tagger": "T"}.get(cls)
    want_kind = {v: k for k, v in METHOD.items()}.get(meth)
    if letter or cls == "TestByTestResult" or want_kind:
        def rank(sc):
            hit_cls = any(s[0] == letter for s in sc["stack"]) if letter else (sc["leaf"] == "tbt" or cls != "TestByTestResult")
            return (not hit_cls) + (want_kind is not None and sc["history"][1][2] != want_kind)
        phase1.sort(key=rank)
    for sc in phase1:
        yield sc
    for n, (s, l) in enumerate(stacks):
        for i, v0 in enumerate(VARIANTS):
            v1 = VARIANTS[(i + 1 + n) % len(VARIANTS)]
            yield {"stack": s, "leaf": l, "tests": [TEST_KINDS[(i + n) % 4], TEST_KINDS[(i + n + 1 + n // 4) % 4]],
                   "history": rich_history(v0, v1)}
    rng = random.Random(seed)
    for _ in range(30000):
        yield random_scenario(rng)


def report(sc, verdict):
    print(json.dumps({"scenario": sc, "observed": verdict[0], "required": verdict[1]}, default=repr))
    sys.exit(1)


def main():
    ap = argparse.ArgumentParser()
    ap.add_argument("--budget", type=float, default=60.0)
    ap.add_argument("--from-obligation", default=None)
    ap.add_argument("--scenario", default=None)
    args = ap.parse_args()
    load()
    if args.scenario:
        sc = json.loads(args.scenario)
        verdict = run_scenario(sc)
        if verdict:
            report(sc, verdict)
        print("scenario holds")
        return
    hint = {}
    if args.from_obligation:
        try:
            text = args.from_obligation
            hint = json.loads(open(text).read() if os.path.exists(text) else text)
            hint = hint if isinstance(hint, dict) else {}
        except Exception:
            hint = {}
    deadline, count = time.time() + args.budget, 0
    for sc in scenarios(hint):
        if time.time() > deadline:
            print("budget used up")
            break
        count += 1
        verdict = run_scenario(sc)
        if verdict:
            print("violation after %d scenarios" % count)
            report(sc, verdict)
    print("C08: %d scenarios, no violation" % count)


if __name__ == "__main__":
    try:
        main()
    except SystemExit:
        raise
    except BaseException:
        import traceback
        traceback.print_exc()
        sys.exit(2)
