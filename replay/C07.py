#!/venv/bin/python
"""Replay / counterexample search for C07: mismatches are always describable and
assertThat / assert_that / expectThat report them faithfully.

ORACLE (from the property statement; observable behaviour only)
* text_repr scenario: text_repr(text, multiline) returns a str without raising and
  ast.literal_eval() of it is an equal object of the same type (str / bytes).
* match scenario (matcher expression, matchee, api, verbose, message, repeat, pre):
  - str(matcher) returns a str.  If constructing the matcher or match() itself raises,
    the scenario is outside the property's premise (skipped, never a failure).
  - if match() returns a mismatch: describe() returns a str, get_details() a dict and
    str(MismatchError(...)), verbose or not, returns a str containing the description.
  - assertThat (in a TestCase run against the ExtendedTestResult double) and assert_that
    raise MismatchError exactly when match() returns a mismatch; str() of the raised error
    does not raise and contains the description, the annotation message and, when verbose,
    str(matcher).  The test's single outcome is addFailure resp. addSuccess.
  - expectThat never raises, the test body runs to its end, the outcome is addFailure iff
    an expectation mismatched, and each failed expectation leaves a detail containing the
    description and the message.
  - details: details the test added beforehand (under colliding names) keep name and
    content; every detail of the mismatch is present once per reported mismatch (renamed,
    not clobbered); a passing assertion attaches nothing.
  Every text is taken from a fresh match() (describe() is not required to be repeatable)
  and object addresses (0x...) are masked before texts of separate calls are compared.

ENUMERATION: (1) text_repr: all strings of length <= 3 over a 14-symbol alphabet (quotes,
backslash, newlines, controls, Latin-1, BMP, astral, lone surrogate) and of length <= 6 over
quote/backslash/newline, as str and bytes, multiline None/True/False; (2) details and API
options exhaustively for matchers carrying details; (3) every leaf matcher against 23 nasty
str/bytes/int values; (4) every combinator over 10 leaves x 6 values (higher-order, list,
dict, structure), exception/warning matchers over callables and exc_infos, filesystem
matchers over a scratch directory.  Each (matcher, value) pair runs through all three APIs
while verbose / message / repeat / pre-existing details cycle.  (5) until the budget ends:
seeded random (VERIF_SEED) combinator trees of depth <= 3 over those pairs with random
texts substituted, and random text_repr inputs of up to 40 code points.
"""

import argparse, ast, doctest, itertools, json, os, random, re, shutil  # noqa: E401
import sys, tarfile, tempfile, time, traceback, warnings  # noqa: E401

SCRATCH = None  # scratch directory for {"p": name} values, created in main()


class HarnessError(Exception): pass  # noqa: E701 -- the scenario description is malformed
class Skip(Exception): pass  # noqa: E701 -- the scenario is outside the property's premise


class Violation(Exception):
    def __init__(self, observed, required):
        Exception.__init__(self, observed)
        self.observed, self.required = observed, required


# ---------------------------------------------------------------- decoding scenarios
CLASSES = {c.__name__: c for c in (int, str, bytes, list, dict, ValueError, KeyError, RuntimeError,
                                   DeprecationWarning, UserWarning)}
def identity(x): return x  # noqa: E704
FUNCS = {"identity": identity, "str": str, "repr": repr, "len": len, "false": lambda x: False,
         "true": lambda x: True, "never": lambda x, *a, **k: False, "eq": lambda x, y: x == y}


class Obj:
    def __init__(self, attrs):
        self.__dict__.update(attrs)

    def __repr__(self):
        return "Obj(%r)" % (sorted(self.__dict__.items()),)


class Detailed:
    """A user-written leaf whose (stock) Mismatch carries details; only "match" matches."""

    def __init__(self, desc, details):
        self.desc, self.details = desc, details

    def __str__(self):
        return "Detailed(%r)" % (self.desc,)

    def match(self, value):
        from testtools.content import text_content
        from testtools.matchers import Mismatch
        if value != "match":
            return Mismatch(self.desc or "-", {k: text_content(v) for k, v in self.details.items()})


def pick(table, key):
    if not isinstance(key, str) or key not in table:
        raise HarnessError("unknown name %r" % (key,))
    return table[key]


def callee(name):
    import testtools.matchers as m
    table = {"Detailed": Detailed, "byEquality": m.MatchesStructure.byEquality,
             "WithParams": lambda pred, msg, name, *a: m.MatchesPredicateWithParams(pred, msg, name)(*a)}
    return table[name] if name in table else pick({n: getattr(m, n) for n in m.__all__}, name)


def make_callable(a):
    """["return", v] | ["raise", cls, *args] | ["warn", category, msg, retval]"""
    def scenario_callable():
        if a[0] == "raise":
            raise D({"new": a[1:]})
        if a[0] == "warn":
            warnings.warn(D(a[2]), pick(CLASSES, a[1]))
        return D(a[-1])
    return scenario_callable


def D(s):
    """Decode a scenario term.  JSON scalars stand for themselves; a list [name, *args] is a
    matcher call (an argument {"kw": {..}} gives keyword arguments); one-key dicts are values:
    b bytes (latin-1), l list, t tuple, d dict, o object with attributes, cls class by name,
    new [cls, *args] instance, exc [cls, *args] exc_info tuple, fn function by name,
    call callable (see make_callable), p path inside the scratch directory."""
    if s is None or isinstance(s, (bool, int, str)):
        return s
    if isinstance(s, list) and s and isinstance(s[0], str):
        kws = [x for x in s[1:] if isinstance(x, dict) and list(x) == ["kw"]]
        args = [D(x) for x in s[1:] if x not in kws]
        return callee(s[0])(*args, **{k: D(v) for x in kws for k, v in x["kw"].items()})
    if isinstance(s, dict) and len(s) == 1:
        ((tag, a),) = s.items()
        simple = {"b": lambda: a.encode("latin-1"), "l": lambda: [D(x) for x in a], "t": lambda: tuple(D(x) for x in a),
                  "d": lambda: {k: D(x) for k, x in a.items()}, "o": lambda: Obj({k: D(x) for k, x in a.items()}),
                  "cls": lambda: pick(CLASSES, a), "new": lambda: pick(CLASSES, a[0])(*[D(x) for x in a[1:]]),
                  "fn": lambda: pick(FUNCS, a), "call": lambda: make_callable(a),
                  # relative to the private scratch directory (the harness chdirs into it): a string path is also an iterable of
                  # one-character relative paths, which must not resolve against a directory other processes write to
                  "p": lambda: a}
        if tag == "exc":
            e = D({"new": a})
            return (type(e), e, None)
        if tag in simple:
            return simple[tag]()
    raise HarnessError("bad term %r" % (s,))


# ---------------------------------------------------------------------- the oracle
def short(x, n=1500):
    x = x if isinstance(x, str) else repr(x)
    return x if len(x) <= n else x[:n] + "..."


def text_of(call, what):
    """call() must return a str without raising; addresses are masked in the result."""
    try:
        r = call()
    except Exception:
        raise Violation("%s raised: %s" % (what, short(traceback.format_exc(limit=-3))),
                        "%s returns text without raising" % what)
    if not isinstance(r, str):
        raise Violation("%s returned %s" % (what, short(r)), "%s returns a str" % what)
    return re.sub(r"0x[0-9a-fA-F]+", "0x", r)


def require(cond, observed, required):
    if not cond:
        raise Violation(short(observed), required)


def run_text_repr(sc):
    from testtools.compat import text_repr
    text, ml = D(sc["text"]), sc.get("multiline")
    what = "text_repr(%r, multiline=%r)" % (text, ml)
    try:
        r = text_repr(text, multiline=ml)
        back = ast.literal_eval(r)
    except Exception:
        raise Violation("%s: %s" % (what, traceback.format_exc(limit=-2)), "text_repr returns an evaluable literal")
    require(isinstance(r, str) and type(back) is type(text) and back == text,
            "%s gave %r which evaluates to %r" % (what, r, back), "text_repr output evaluates back to the original string")


def run_match(sc):
    from testtools import TestCase, assertions, content
    from testtools.matchers import MismatchError
    from testtools.testresult.doubles import ExtendedTestResult
    api, verbose, message = sc.get("api", "assertThat"), bool(sc.get("verbose")), sc.get("message", "")
    repeat, pre = int(sc.get("repeat", 1)), list(sc.get("pre", []))
    if api not in APIS or repeat < 1 or not isinstance(message, str):
        raise HarnessError("bad api/repeat/message in %r" % (sc,))
    try:
        matcher, value = D(sc["matcher"]), D(sc["value"])
    except HarnessError:
        raise
    except Exception as e:
        raise Skip("constructing the matcher raised %r" % (e,))
    matcher_str = text_of(lambda: str(matcher), "str(matcher)")
    try:
        mismatch = matcher.match(value)
        fresh = [matcher.match(value), matcher.match(value)]  # describe() need not be repeatable
    except Exception as e:
        raise Skip("match() itself raised %r" % (e,))
    mismatched, desc, mm_details = mismatch is not None, "", {}
    if mismatched:
        desc = text_of(mismatch.describe, "mismatch.describe()")
        try:
            details = mismatch.get_details()
        except Exception:
            details = traceback.format_exc(limit=-2)
        require(isinstance(details, dict), "get_details() gave %r" % (details,), "get_details() returns a dict")
        mm_details = {k: text_of(v.as_text, "detail %r" % k) for k, v in details.items()}
        for vb in (False, True):
            s = text_of(lambda: str(MismatchError(value, matcher, fresh[vb], vb)), "str(MismatchError(verbose=%s))" % vb)
            require(desc in s, "str(MismatchError(verbose=%s)) = %r; describe() = %r" % (vb, s, desc),
                    "the error text reports the mismatch description")
    log = {"raised": 0, "returned": 0, "finished": False, "other": None, "text": "", "violation": None}

    def attempt(fn):
        for _ in range(repeat):
            try:
                fn(value, matcher, message, verbose)
            except MismatchError as e:
                log["raised"] += 1
                try:  # rendered here, before the test framework renders it
                    log["text"] = text_of(lambda: str(e), "str() of the raised MismatchError")
                except Violation as v:
                    log["violation"] = v
                raise
            except Exception:
                log["other"] = traceback.format_exc(limit=-3)
                raise
            log["returned"] += 1
        log["finished"] = True

    outcome = texts = None
    if api == "assert_that":
        try:
            attempt(assertions.assert_that)
        except Exception:
            pass
    else:
        then = sc.get("then")       # expectThat only: the stage that expected goes on to raise a skip ("test", "setUp", "cleanup")

        class Case(TestCase):
            def _expect(self):
                for name in pre:
                    self.addDetail(name, content.text_content("pre:" + name))
                attempt(getattr(self, api))
                if then:
                    self.skipTest("skipped after the expectation")

            def setUp(self):
                super().setUp()
                if then == "cleanup":
                    self.addCleanup(self._expect)
                elif then == "setUp":
                    self._expect()

            def test_it(self):
                if then in (None, "test"):
                    self._expect()

        result = ExtendedTestResult()
        Case("test_it").run(result)
        events = result._events
        names = [e[0] for e in events]
        require(len(names) == 3 and names[0] == "startTest" and names[2] == "stopTest", "events %r" % (names,),
                "exactly one outcome between startTest and stopTest")
        outcome = names[1]
        texts = {k: text_of(v.as_text, "detail %r" % k) for k, v in (events[1][2] if len(events[1]) > 2 else {}).items()}
    if log["violation"]:
        raise log["violation"]
    seen = "%s: raised MismatchError x%d, returned x%d, body finished=%s, other exception=%s, outcome=%s, details=%r" % (
        api, log["raised"], log["returned"], log["finished"], log["other"], outcome, texts)
    require(log["other"] is None, seen, "%s raises nothing but MismatchError" % api)
    if mismatched and api != "expectThat":
        require(log["raised"] == 1 and log["returned"] == 0 and not log["finished"], seen,
                "match() returned a mismatch (%r), so %s raises MismatchError" % (desc, api))
        s = log["text"]
        require(desc in s and message in s and (not verbose or matcher_str in s), "str(error) = %r (verbose=%s)" % (s, verbose),
                "the raised error reports description %r, message %r%s" % (
                    desc, message, " and the matcher %r" % matcher_str if verbose else ""))
    else:
        require(not log["raised"] and log["returned"] == repeat and log["finished"], seen,
                "%s does not raise here (mismatch: %r)" % (api, desc if mismatched else None))
    if api == "assert_that":
        return
    then = sc.get("then")
    require(outcome == ("addFailure" if mismatched else "addSkip" if then else "addSuccess"), seen,
            "the test %s" % ("fails once it has finished%s" % (" (a skip raised after the failed expectation in %s does not undo that)" % then if then else "")
                             if mismatched else "is skipped" if then else "succeeds"))
    for name in pre:
        require(texts.get(name) == "pre:" + name, seen, "pre-existing detail %r is not clobbered" % name)
    if not mismatched:
        require(set(texts) - ({"reason"} if then else set()) == set(pre), seen, "a matching assertion attaches nothing")
        return
    times = repeat if api == "expectThat" else 1
    for name, t in mm_details.items():
        require(sum(1 for x in texts.values() if x == t) == times, seen,
                "mismatch detail %r (%r) is attached %d time(s) under non-clobbering names" % (name, t, times))
    if api == "expectThat":
        n = sum(1 for x in texts.values() if desc in x and message in x and (not verbose or matcher_str in x))
        require(n >= times, seen, "%d detail(s) report the failed expectation %r / %r" % (times, desc, message))


def judge(sc):
    """Return None (property holds), a skip reason (str) or the failure report (dict)."""
    if not isinstance(sc, dict) or sc.get("kind") not in ("text_repr", "match"):
        raise HarnessError("bad scenario %r" % (sc,))
    try:
        with warnings.catch_warnings():
            warnings.simplefilter("ignore")
            (run_text_repr if sc["kind"] == "text_repr" else run_match)(sc)
    except Skip as e:
        return str(e)
    except Violation as v:
        return {"scenario": sc, "observed": v.observed, "required": v.required}


# -------------------------------------------------------------------- enumeration
def B(s): return {"b": s}  # noqa: E704 -- term constructors: bytes, list, keyword arguments
def L(*xs): return {"l": list(xs)}  # noqa: E704
def KW(**kw): return {"kw": kw}  # noqa: E704


LONG = "x" * 40 + "é" * 40
TEXTS = ["", "a", "é", "ሴ\U0001F600", "a\nb", "it's", 'say "hi"', "'\"\\", "\x00\x1b\x7f", "tab\there",
         "%s {0} %", LONG, "line1\n" + "y" * 80 + "\n'''"]
BYTES = [B(""), B("a"), B("\xff\x00"), B("a\nb"), B("'\"\\"), B("z" * 80 + "\n\xe9")]
SCALARS = TEXTS + BYTES + [0, 1, -1, None]
MESSAGES = ["", "note: é\x01 'q'"]
PRES = [[], ["info", "Failed expectation", "info-1"]]
PRES_API = PRES + [["info", "info-2"], ["info", "info-3", "Failed expectation", "Failed expectation-2"]]   # non-contiguous numbering
APIS = ["assertThat", "assert_that", "expectThat"]
COUNTER = itertools.count()
LEAVES = [["Equals", "é"], ["Never"], ["Always"], ["StartsWith", "a\n"], ["Contains", "'"], ["MatchesRegex", "\\w+$"],
          ["IsInstance", {"cls": "bytes"}], ["LessThan", 1], ["Detailed", "détail", {"d": {"info": "x"}}], ["Equals", LONG]]
VALUES = ["é", "a\nb", "it's", B("\xff\n"), 0, LONG]


def variants(matcher, value, apis=APIS):
    """One scenario per API; verbosity, message, repetition and pre-details cycle."""
    for api in apis:
        i = next(COUNTER)
        yield {"kind": "match", "matcher": matcher, "value": value, "api": api, "verbose": bool(i % 2),
               "message": MESSAGES[(i // 2) % 2], "repeat": 1 + (i // 4) % 2, "pre": PRES[(i // 8) % 2]}


def gen_text_repr():
    wide = ["a", "'", '"', "\\", "\n", "\r", "\x00", "é", "\x7f", "ሴ", "\U0001F600", "\ud800", "\u2028", " "]
    for alphabet, upto in ((wide, 3), (["'", '"', "\\", "\n", "a"], 6)):
        for n in range(upto + 1):
            for chars in itertools.product(alphabet, repeat=n):
                s = "".join(chars)
                for ml in (None, True, False):
                    yield {"kind": "text_repr", "text": s, "multiline": ml}
                    if all(ord(c) < 256 for c in s):
                        yield {"kind": "text_repr", "text": B(s), "multiline": ml}


def gen_api():
    """Detail attachment and the three reporting APIs under all option combinations."""
    for matcher in (["Detailed", "désc\x02", {"d": {"info": "extra é", "Failed expectation": "mine"}}],
                    ["Annotate", "why", ["Detailed", "desc", {"d": {"info": "x", "traceback": "tb"}}]],
                    ["AfterPreprocessing", {"fn": "identity"}, ["Detailed", "desc", {"d": {"info-1": "y"}}]],
                    ["Detailed", "plain", {"d": {}}], ["Equals", "match"], ["Never"]):
        for value, api, vb, msg, rep, pre in itertools.product(("match", "other\né"), APIS, (False, True), MESSAGES, (1, 2, 3), PRES_API):
            yield {"kind": "match", "matcher": matcher, "value": value, "api": api, "verbose": vb,
                   "message": msg, "repeat": rep, "pre": pre}
            if api == "expectThat" and not vb and msg == MESSAGES[0] and pre == PRES_API[0]:
                for then in ("test", "setUp", "cleanup"):
                    yield {"kind": "match", "matcher": matcher, "value": value, "api": api, "verbose": vb,
                           "message": msg, "repeat": rep, "pre": pre, "then": then}


def gen_leaves():
    for n in ("Equals", "NotEquals", "Is", "LessThan", "GreaterThan"):
        for r, v in itertools.product(SCALARS + [L(1, LONG), {"d": {"k": LONG}}], SCALARS + [L(LONG, "a\nb")]):
            yield [n, r], v
    for n, r, v in itertools.product(("StartsWith", "EndsWith", "Contains"), TEXTS + BYTES, TEXTS + BYTES + [L(1, "a")]):
        yield [n, r], v
    for pat in ("a+$", "é|\\d", "[", "\\\\x\n", B("\xff+"), B("a\n"), "\\w+ '\"", "\t/"):
        for v, flags in itertools.product(TEXTS + BYTES, (0, int(re.I | re.M))):
            yield ["MatchesRegex", pat, flags], v
    for ex, v, flags in itertools.product(TEXTS, TEXTS, (0, doctest.ELLIPSIS | doctest.NORMALIZE_WHITESPACE)):
        yield ["DocTestMatches", ex, flags], v
    for v in SCALARS + [L(), L(LONG, B("\xff")), {"d": {"é": 1}}]:
        for m in (["IsInstance", {"cls": "int"}], ["IsInstance", {"cls": "str"}, {"cls": "bytes"}, {"cls": "list"}],
                  ["HasLength", 0], ["HasLength", 2], ["Always"], ["Never"],
                  ["MatchesPredicate", {"fn": "false"}, "%s is odd: é"], ["MatchesPredicate", {"fn": "true"}, "%r"],
                  ["WithParams", {"fn": "never"}, "{0} !~ {1} é", None, "p\n"],
                  ["WithParams", {"fn": "eq"}, "{0!r} is not {1!r}", "Same", LONG]):
            yield m, v
    lists = [L(), L("é"), L("a\nb", "é"), L(LONG, LONG, B("\xff")), L(1, 1, 2)]
    for n, r, v in itertools.product(("SameMembers", "ContainsAll", "Equals"), lists, lists + ["a\nbé"]):
        yield [n, r], v


def gen_combinators():
    for leaf, v in itertools.product(LEAVES, VALUES):
        yield from ((m, v) for m in (
            ["Not", leaf], ["Annotate", "nöte\n", leaf], ["AfterPreprocessing", {"fn": "repr"}, leaf],
            ["AfterPreprocessing", {"fn": "str"}, leaf, False], ["AfterPreprocessing", {"fn": "len"}, ["Equals", 2]],
            ["MatchesAll"], ["MatchesAny"]))
        for other in LEAVES[:6]:
            yield from ((m, v) for m in (["MatchesAll", leaf, other], ["MatchesAll", leaf, other, KW(first_only=True)],
                                         ["MatchesAny", leaf, other]))
    for leaf, other in itertools.product(LEAVES, LEAVES[:5]):
        for vs in (L(), L(VALUES[0]), L(*VALUES[1:3]), L(VALUES[0], VALUES[0]), L(*VALUES[3:])):
            yield from ((m, vs) for m in (
                ["AllMatch", leaf], ["AnyMatch", leaf], ["MatchesListwise", L(leaf, other)], ["MatchesSetwise", leaf],
                ["MatchesListwise", L(leaf, other), KW(first_only=True)], ["MatchesSetwise", leaf, other]))
        for d in ({}, {"k": VALUES[0]}, {"k": VALUES[1], "é'": VALUES[0]}, {"z\n": B("\xff")}):
            for n in ("MatchesDict", "ContainsDict", "ContainedByDict"):
                yield [n, {"d": {"k": leaf, "é'": other}}], {"d": d}
            yield ["MatchesStructure", KW(x=leaf, y=other)], {"o": {"x": d.get("k", 0), "y": d.get("é'", "it's")}}
    for keys, d in itertools.product(([], ["k"], ["é'", "z\n"]), ({}, {"k": 1}, {"é'": LONG, "z\n": 2})):
        yield ["KeysEqual"] + keys, {"d": d}
        yield ["byEquality", KW(x=LONG, y=B("\xff"))], {"o": {"x": d.get("k"), "y": B("\xff")}}


def gen_exceptions_warnings():
    infos = [{"exc": ["ValueError", "béd\n"]}, {"exc": ["KeyError", "k'"]}, {"exc": ["RuntimeError"]}, 5, "text"]
    ve = {"cls": "ValueError"}
    ems = [["MatchesException", ve], ["MatchesException", {"new": ["ValueError", "béd\n"]}],
           ["MatchesException", {"new": ["ValueError", "other"]}], ["MatchesException", {"cls": "KeyError"}, "k+"],
           ["MatchesException", ve, "béd$"], ["MatchesException", ve, ["Never"]],
           ["MatchesException", {"t": [{"cls": "RuntimeError"}, ve]}, ["AfterPreprocessing", {"fn": "str"}, ["Equals", LONG]]]]
    calls = [{"call": ["return", "résult\n"]}, {"call": ["raise", "ValueError", "béd\n"]},
             {"call": ["raise", "KeyError", "k'"]}, {"call": ["warn", "DeprecationWarning", "old é\n", 1]},
             {"call": ["warn", "UserWarning", "careful", None]}]
    yield from itertools.product(ems, infos)
    yield from itertools.product([["Raises"], ["raises", ve], ["raises", {"new": ["ValueError", "x"]}]] + [["Raises", e] for e in ems], calls)
    for leaf in LEAVES[:6] + [["Contains", "old"]]:
        wm = ["WarningMessage", {"cls": "DeprecationWarning"}, KW(message=leaf)]
        yield from itertools.product((["Warnings"], ["Warnings", ["AllMatch", wm]], ["Warnings", ["MatchesListwise", L(wm)]],
                                      ["Warnings", ["HasLength", 0]], ["IsDeprecated", leaf],
                                      ["Warnings", ["AnyMatch", ["WarningMessage", {"cls": "UserWarning"}]]]), calls)


def gen_filesystem():
    paths = [{"p": p} for p in ("file", "dir", "empty", "missing", "t.tar", "link", "dir/bé")]
    ms = [["PathExists"], ["DirExists"], ["FileExists"], ["DirContains", L("a", "bé")], ["DirContains", L()],
          ["DirContains", KW(matcher=["AllMatch", ["StartsWith", "a"]])], ["DirContains", KW(matcher=["Never"])],
          ["FileContains", "héllo 'q'\nworld\n"], ["FileContains", "other" + LONG],
          ["FileContains", KW(matcher=["Contains", "wörld"])], ["FileContains", KW(matcher=["DocTestMatches", "x...", 8])],
          ["HasPermissions", "0644"], ["HasPermissions", "0777"], ["SamePath", {"p": "file"}],
          ["SamePath", {"p": "dir/../missing"}], ["TarballContains", L("x", "yé")], ["TarballContains", L()],
          ["Not", ["PathExists"]], ["MatchesAny", ["DirExists"], ["FileContains", "zzz"]]]
    yield from itertools.product(ms, paths)


def gen_empty_description():
    """Judged at the very end of a run (so it never masks anything else): a bare template and
    an empty matchee make the description empty, which describe() must still return."""
    yield ["MatchesPredicate", {"fn": "false"}, "%s"], ""
    yield ["WithParams", {"fn": "never"}, "{0}", None], ""


PHASES = [  # (words looked for in the obligation hint's target, generator)
    ("text_repr compat _slow_escape", gen_text_repr),
    ("testcase assertions assertThat expectThat assert_that _matchHelper addDetailUniqueName _impl", gen_api),
    ("_basic _doctest _Binary Equals DoesNot StartsWith EndsWith Contains MatchesRegex IsInstance SameMembers", gen_leaves),
    ("_filesystem", gen_filesystem),
    ("_higherorder _datastructures _dict _const Matches Annotate AfterPreprocessing Not AllMatch AnyMatch KeysEqual", gen_combinators),
    ("_exception _warnings Raises MatchesException Warning IsDeprecated", gen_exceptions_warnings)]


def rand_text(rng, surrogates=False, maxlen=12):
    def char():
        k = rng.random()
        if k < 0.5:
            return rng.choice("a'\"\\\n\r\t\x00\x7fé %")
        c = rng.randrange(0x110000 if k > 0.8 else 0x300)
        return chr(c) if surrogates or not 0xD800 <= c < 0xE000 else "?"
    return "".join(char() for _ in range(rng.randrange(maxlen + 1)))


def mutate(rng, s, p=0.25):
    """Replace some text constants of a term by random text (names and tags are kept)."""
    if isinstance(s, str):
        return (rand_text(rng, maxlen=rng.choice([12, 90])) or "a") if rng.random() < p else s
    if isinstance(s, list):
        return s[:1] + [mutate(rng, x, p) for x in s[1:]]
    if isinstance(s, dict):
        ((tag, a),) = s.items()
        if tag == "b":
            return B(mutate(rng, a, p).encode("utf-8").decode("latin-1"))
        if tag in ("l", "t"):
            return {tag: [mutate(rng, x, p) for x in a]}
        if tag in ("d", "o", "kw"):
            return {tag: {k: mutate(rng, x, p) for k, x in a.items()}}
    return s


def gen_random(rng):
    """Random text_repr inputs and random combinator trees over the enumerated pairs."""
    pools = [list(g()) for _, g in PHASES[2:]]

    def tree(pool, depth):
        if depth == 0 or rng.random() < 0.3:
            return mutate(rng, rng.choice(pool)[0])
        subs = [tree(pool, depth - 1) for _ in range(rng.randrange(1, 4))]
        return rng.choice([["Not", subs[0]], ["MatchesAll"] + subs + [KW(first_only=rng.random() < 0.5)], ["MatchesAny"] + subs,
                           ["Annotate", rand_text(rng), subs[0]], ["MatchesListwise", L(*subs)], ["MatchesSetwise"] + subs,
                           ["AfterPreprocessing", {"fn": "identity"}, subs[0], rng.random() < 0.5], ["AllMatch", subs[0]]])
    while True:
        if rng.random() < 0.3:
            s = rand_text(rng, surrogates=True, maxlen=40)
            text = B("".join(chr(ord(c) % 256) for c in s)) if rng.random() < 0.4 else s
            yield {"kind": "text_repr", "text": text, "multiline": rng.choice([None, True, False])}
        else:
            pool = rng.choice(pools)
            value = mutate(rng, rng.choice(pool)[1])
            yield from variants(tree(pool, rng.randrange(1, 4)), L(value, value) if rng.random() < 0.15 else value, [rng.choice(APIS)])


# --------------------------------------------------------------------------- driver
def make_scratch():
    global SCRATCH
    SCRATCH = tempfile.mkdtemp(prefix="c07_")
    os.mkdir(os.path.join(SCRATCH, "dir"))
    os.mkdir(os.path.join(SCRATCH, "empty"))
    for name, data in (("file", "héllo 'q'\nworld\n"), ("dir/a", "a"), ("dir/bé", "")):
        with open(os.path.join(SCRATCH, name), "w", encoding="utf-8") as f:
            f.write(data)
        os.chmod(os.path.join(SCRATCH, name), 0o644)
    os.symlink("file", os.path.join(SCRATCH, "link"))
    with tarfile.open(os.path.join(SCRATCH, "t.tar"), "w") as tar:
        tar.add(os.path.join(SCRATCH, "dir/a"), arcname="x")
        tar.add(os.path.join(SCRATCH, "dir/a"), arcname="yé")


def fail(report):
    print("VIOLATION of C07")
    print(json.dumps(report, ensure_ascii=True, default=repr))
    return 1


def main(argv):
    ap = argparse.ArgumentParser(description=__doc__.splitlines()[0])
    ap.add_argument("--budget", type=float, default=60.0)
    ap.add_argument("--from-obligation", default=None)
    ap.add_argument("--scenario", default=None)
    args = ap.parse_args(argv)
    start = time.time()
    import testtools
    print("C07 replay against testtools from %s" % os.path.dirname(testtools.__file__))
    make_scratch()
    os.chdir(SCRATCH)
    try:
        if args.scenario is not None:
            report = judge(json.loads(args.scenario))
            if isinstance(report, dict):
                return fail(report)
            print("the scenario does not violate the property" + (" (outside its premise: %s)" % short(report) if report else ""))
            return 0
        try:
            target = str(json.loads(args.from_obligation or "{}").get("target", ""))
        except (ValueError, AttributeError):
            target = ""
        phases = sorted(PHASES, key=lambda p: not any(w in target for w in p[0].split()))  # stable: hinted phases first
        rng = random.Random(int(os.environ.get("VERIF_SEED", "0") or 0))
        ran = skipped = 0
        items = itertools.chain(*[g() for _, g in phases], gen_random(rng))
        timed = itertools.takewhile(lambda item: time.time() - start < args.budget, items)
        for item in itertools.chain(timed, gen_empty_description()):
            for sc in [item] if isinstance(item, dict) else variants(*item):
                report = judge(sc)
                ran += 1
                skipped += isinstance(report, str)
                if isinstance(report, dict):
                    print("failing scenario found after %d scenarios, %.1fs" % (ran, time.time() - start))
                    return fail(report)
        print("no failing scenario: %d scenarios (%d outside the premise: constructor or match() raised), %.1fs"
              % (ran, skipped, time.time() - start))
        return 0
    finally:
        shutil.rmtree(SCRATCH, ignore_errors=True)


if __name__ == "__main__":
    try:
        code = main(sys.argv[1:])
    except SystemExit:
        raise
    except BaseException:
        traceback.print_exc()
        code = 2
    sys.stdout.flush()
    sys.exit(code)
