"""Replay / counterexample search for property C02 of testtools.

C02: stages run in order; every cleanup runs exactly once, LIFO, whatever failed.

ORACLE (written from the property statement, not from the implementation).
A scenario is a small test program: four op lists (setUp before the upcall,
setUp after it, test method, tearDown) plus the result flavour of each run().
Ops:  ["c",name,ops]  addCleanup(fn); fn logs "c:name" then executes ops
      ["r",kind]      raise fail/error/skip/xfail/usuccess/multi/kbd/sysexit
      ["p",attr]      patch(holder, attr, fresh value)  attr: ex / nx (absent) / cx (class attr)
      ["k"]           log the current values of the holder attributes
      ["f",name,ops]  useFixture(fixtures.Fixture whose _setUp logs "f:name" and executes ops
                      in the fixture: its own cleanups, nested fixtures, raise)
      ["d",name,k1,k2] useFixture(duck-typed fixture; setUp raises k1, cleanUp raises k2)
      ["e"]           expectThat mismatch (sets force_failure, does not raise)
Every generated body writes to an execution log.  A reference model executes the
same program on an explicit cleanup stack: setUp first; test method and tearDown
iff setUp returned normally (tearDown also when the test method raised); then
the stack is popped until empty, each entry exactly once, newest first, entries
pushed by a cleanup run next, errors never stop the unwinding; a fixture whose
setUp fails unwinds its own cleanups at once and registers nothing.
For every run() of the history the harness requires: (1) real log == model log;
(2) the holder attributes have their pre-test values / are absent again;
(3) nothing is left registered: unittest's public doCleanups() adds no log line;
(4) runs with the same result flavour report the same outcome (event names of
the result double / counters of TestResult) and the same propagated exception.

ENUMERATION: exhaustive small phases - "stages" (all 9x9 behaviours of test x
tearDown, 8 setUp faults before/after the upcall, 4 cleanup-fault vectors,
raise before/after registering), "nesting" (3 cleanups x 5 registration places
incl. inside the previous cleanup x fault patterns x stage faults), "patch"
(place x attribute x second patch x fault), "fixture" (place x 13 fixture shapes
x fault), "histories" (programs x all result-flavour sequences of length <= 3) -
then seeded random programs (VERIF_SEED) until the budget is used up.
"""

import argparse
import itertools
import json
import os
import random
import signal
import sys
import time

import fixtures
import testtools
from testtools import monkey
from testtools.matchers import Equals
from testtools.testresult import doubles

KINDS = ["fail", "error", "skip", "xfail", "usuccess", "multi", "kbd", "sysexit", "cancel"]


class Cancelled(BaseException):
    """a BaseException that is neither KeyboardInterrupt nor SystemExit (like asyncio.CancelledError)"""
K9 = [None] + KINDS
ATTRS = ["ex", "nx", "cx"]
STAGES = ["pre", "post", "test", "down"]
FLAVOURS = ["extended", "py26", "py27", "twisted", "testtools", "stream", "none"]
ABSENT = "<absent>"


class Violation(Exception):
    def __init__(self, observed, required):
        self.observed, self.required = observed, required


def emit_failure(sc, observed, required):
    print(json.dumps({"scenario": sc, "observed": observed, "required": required}))
    sys.stdout.flush()


# ----------------------------------------------------------------- validation
def validate(sc):
    assert isinstance(sc, dict) and set(sc) - {"holder"} == set(STAGES) | {"results"}, "scenario keys"
    assert sc.get("holder", "inst") in ("inst", "class", "slots", "store"), "holder kind"
    assert sc["results"] and all(f in FLAVOURS for f in sc["results"]), "results"
    for st in STAGES:
        _validate_ops(sc[st], False, False)


def _validate_ops(ops, in_fx, in_fx_cleanup):
    assert isinstance(ops, list)
    for op in ops:
        t = op[0]
        kinds = ("fail", "error") if in_fx else KINDS
        if in_fx_cleanup:  # the fixtures library snapshots its cleanup list
            assert t in ("r", "k", "e"), "unsupported op in a fixture cleanup"
        if t == "c":
            assert len(op) == 3 and isinstance(op[1], str)
            _validate_ops(op[2], in_fx, in_fx)
        elif t == "r":
            assert len(op) == 2 and op[1] in kinds
        elif t == "p":
            assert len(op) == 2 and op[1] in ATTRS
        elif t == "f":
            assert len(op) == 3 and isinstance(op[1], str)
            _validate_ops(op[2], True, False)
        elif t == "d":
            assert len(op) == 4 and all(k is None or k in kinds for k in op[2:])
        else:
            assert t in ("k", "e") and len(op) == 1, "unknown op %r" % (op,)


# ------------------------------------------------------------ real execution
class Env:
    def __init__(self, sc, limit):
        self.sc, self.limit, self.log, self.n = sc, limit, [], 0
        kind = sc.get("holder", "inst")
        if kind == "class":       # the patched object is itself a class (its namespace is a mappingproxy)
            base = type("Base", (), {"cx": "corig"})
            self.Holder = type("Holder", (base,), {})
            self.holder = self.Holder
        elif kind == "slots":     # no instance __dict__
            self.Holder = type("Holder", (), {"__slots__": ("ex", "nx"), "cx": "corig"})
            self.holder = self.Holder()
        elif kind == "store":     # attribute storage outside the instance __dict__
            class Holder:
                cx = "corig"

                def __init__(self):
                    object.__setattr__(self, "_store", {})

                def __getattr__(self, name):
                    try:
                        return self._store[name]
                    except KeyError:
                        raise AttributeError(name)

                def __setattr__(self, name, value):
                    self._store[name] = value

                def __delattr__(self, name):
                    try:
                        del self._store[name]
                    except KeyError:
                        raise AttributeError(name)
            self.Holder = Holder
            self.holder = Holder()
        else:
            self.Holder = type("Holder", (), {"cx": "corig"})
            self.holder = self.Holder()
        self.holder.ex = "orig"
        self.case = None

    def emit(self, line):
        self.log.append(line)
        if len(self.log) > self.limit:  # runaway loop in the code under test
            emit_failure(self.sc, {"log_prefix": self.log[:60], "note": "execution log keeps growing"},
                         "every stage and cleanup runs a bounded number of times (cleanups exactly once)")
            os._exit(1)

    def peek(self):
        return ",".join("%s=%s" % (a, getattr(self.holder, a, ABSENT)) for a in ATTRS)


def _exc_info(exc):
    try:
        raise exc
    except BaseException:
        return sys.exc_info()


def do_raise(env, kind):
    case = env.case
    if kind == "fail":
        case.fail("boom")
    elif kind == "error":
        raise RuntimeError("boom")
    elif kind == "skip":
        case.skipTest("why")
    elif kind == "xfail":
        case.expectFailure("why", case.assertEqual, 1, 2)
    elif kind == "usuccess":
        case.expectFailure("why", lambda: None)
    elif kind == "multi":
        raise testtools.MultipleExceptions(_exc_info(RuntimeError("m1")), _exc_info(AssertionError("m2")))
    elif kind == "kbd":
        raise KeyboardInterrupt()
    elif kind == "sysexit":
        raise SystemExit(3)
    elif kind == "cancel":
        raise Cancelled()


class Fx(fixtures.Fixture):
    def __init__(self, env, name, ops):
        super().__init__()
        self.env, self.name, self.ops = env, name, ops

    def _setUp(self):
        self.env.emit("f:" + self.name)
        run_ops(self.env, self, self.ops)


class Duck:
    def __init__(self, env, name, k1, k2):
        self.env, self.name, self.k1, self.k2 = env, name, k1, k2

    def setUp(self):
        self.env.emit("d:" + self.name)
        do_raise(self.env, self.k1)

    def cleanUp(self):
        self.env.emit("dc:" + self.name)
        do_raise(self.env, self.k2)

    def getDetails(self):
        return {}


def run_ops(env, ctx, ops):
    for op in ops:
        t = op[0]
        if t == "c":
            def fn(name=op[1], sub=op[2]):
                env.emit("c:" + name)
                run_ops(env, ctx, sub)
            ctx.addCleanup(fn)
        elif t == "r":
            do_raise(env, op[1])
        elif t == "p":
            env.n += 1
            value = "v%d" % env.n
            env.emit("p:%s=%s" % (op[1], value))
            if hasattr(ctx, "patch"):
                ctx.patch(env.holder, op[1], value)
            else:
                ctx.addCleanup(monkey.patch(env.holder, op[1], value))
        elif t == "k":
            env.emit("k:" + env.peek())
        elif t == "f":
            ctx.useFixture(Fx(env, op[1], op[2]))
        elif t == "d":
            ctx.useFixture(Duck(env, *op[1:]))
        elif t == "e":
            env.case.expectThat(1, Equals(2))


def make_case(env):
    sc = env.sc

    class Generated(testtools.TestCase):
        def setUp(self):
            env.emit("setUp")
            run_ops(env, self, sc["pre"])
            super().setUp()
            run_ops(env, self, sc["post"])

        def test_it(self):
            env.emit("test")
            run_ops(env, self, sc["test"])

        def tearDown(self):
            env.emit("tearDown")
            run_ops(env, self, sc["down"])
            super().tearDown()

    return Generated("test_it")


def make_result(flavour):
    """Return (result passed to run(), object whose record is inspected)."""
    if flavour == "none":
        return None, None
    if flavour == "testtools":
        res = testtools.TestResult()
        return res, res
    if flavour == "stream":
        double = doubles.StreamResult()
        return testtools.ExtendedToStreamDecorator(double), double
    cls = {"extended": "ExtendedTestResult", "py26": "Python26TestResult",
           "py27": "Python27TestResult", "twisted": "TwistedTestResult"}[flavour]
    res = getattr(doubles, cls)()
    return res, res


def outcome_of(flavour, probe):
    if flavour == "none":
        return None
    if flavour == "testtools":
        return [probe.testsRun] + [len(getattr(probe, a)) for a in (
            "errors", "failures", "skip_reasons", "expectedFailures", "unexpectedSuccesses")]
    if flavour == "stream":
        return [e[2] for e in probe._events if e[0] == "status" and e[2] is not None]
    return [e[0] for e in probe._events]


# ------------------------------------------------------------------ the model
class ModelRaise(Exception):
    pass


class Model:
    def __init__(self):
        self.log, self.n, self.attrs = [], 0, {"ex": "orig", "nx": ABSENT, "cx": "corig"}

    def peek(self):
        return ",".join("%s=%s" % (a, self.attrs[a]) for a in ATTRS)

    def run(self, stack, ops):
        for op in ops:
            t = op[0]
            if t == "c":
                stack.append(("c", op[1], op[2]))
            elif t == "r":
                raise ModelRaise(op[1])
            elif t == "p":
                self.n += 1
                self.log.append("p:%s=v%d" % (op[1], self.n))
                stack.append(("undo", op[1], self.attrs[op[1]]))
                self.attrs[op[1]] = "v%d" % self.n
            elif t == "k":
                self.log.append("k:" + self.peek())
            elif t == "f":
                self.log.append("f:" + op[1])
                inner = []
                try:
                    self.run(inner, op[2])
                except ModelRaise:
                    self.unwind(inner)  # a fixture that fails to set up undoes itself
                    raise
                stack.append(("fx", inner))
            elif t == "d":
                self.log.append("d:" + op[1])
                if op[2]:
                    raise ModelRaise(op[2])
                stack.append(("duck", op[1], op[3]))

    def unwind(self, stack):
        """Pop until empty: each entry once, newest first, errors do not stop it."""
        failed = False
        while stack:
            item = stack.pop()
            try:
                if item[0] == "c":
                    self.log.append("c:" + item[1])
                    self.run(stack, item[2])
                elif item[0] == "undo":
                    self.attrs[item[1]] = item[2]
                elif item[0] == "fx":
                    if self.unwind(item[1]):
                        raise ModelRaise("fixture cleanUp")
                elif item[0] == "duck":
                    self.log.append("dc:" + item[1])
                    if item[2]:
                        raise ModelRaise(item[2])
            except ModelRaise:
                failed = True
        return failed

    def whole_test(self, sc):
        stack = []
        self.log.append("setUp")
        try:
            self.run(stack, sc["pre"])
            self.run(stack, sc["post"])
            setup_ok = True
        except ModelRaise:
            setup_ok = False
        if setup_ok:
            for label, stage in (("test", "test"), ("tearDown", "down")):
                self.log.append(label)
                try:
                    self.run(stack, sc[stage])
                except ModelRaise:
                    pass
        self.unwind(stack)
        return self.log


# ---------------------------------------------------------------- the checker
def check(sc):
    """Run the scenario on the real code; raise Violation if C02 is broken."""
    validate(sc)
    model = Model()
    want = model.whole_test(sc)
    want_attrs = "ex=orig,nx=%s,cx=corig" % ABSENT
    assert model.peek() == want_attrs
    env = Env(sc, limit=20 * len(want) + 200)
    env.case = make_case(env)
    seen = {}
    for i, flavour in enumerate(sc["results"]):
        env.log, env.n = [], 0
        res, probe = make_result(flavour)
        signal.alarm(30)
        try:
            if flavour == "stream":
                res.startTestRun()
            try:
                env.case.run(res)
                raised = None
            except BaseException as e:
                raised = type(e).__name__
            if flavour == "stream":
                res.stopTestRun()
        finally:
            signal.alarm(0)
        log = list(env.log)
        if log != want:
            raise Violation({"run": i, "log": log, "raised": raised}, {
                "log": want, "why": "setUp first; test+tearDown iff setUp returned; then every "
                "registered cleanup exactly once in reverse registration order; same on every run"})
        if env.peek() != want_attrs:
            raise Violation({"run": i, "holder_after_run": env.peek()}, {
                "holder_after_run": want_attrs, "why": "patched attributes restored / absent again"})
        try:
            env.case.doCleanups()  # public unittest API: runs whatever is still registered
        except BaseException:
            pass
        if env.log != log or env.peek() != want_attrs:
            raise Violation({"run": i, "left_registered_after_run": env.log[len(log):], "holder": env.peek()},
                            {"left_registered_after_run": [], "why": "no cleanup is left registered"})
        got = {"outcome": outcome_of(flavour, probe), "raised": raised}
        first = seen.setdefault(flavour, (i, got))
        if first[1] != got:
            raise Violation({"run": i, "result": flavour, "got": got, "run_%d_got" % first[0]: first[1]},
                            {"why": "running the same instance again repeats the same outcome"})


# ----------------------------------------------------------------- enumeration
def scenario(pre=(), post=(), test=(), down=(), results=("extended", "extended")):
    return {"pre": list(pre), "post": list(post), "test": list(test), "down": list(down),
            "results": list(results)}


def with_raise(ops, kind, first):
    r = [["r", kind]] if kind else []
    return r + ops if first else ops + r


def gen_stages():
    vectors = [{}, {"C": "error", "A": "fail"}, {"E": "kbd"}, {"C": "cancel"},
               {"A": "fail", "B": "skip", "C": "multi", "D": "sysexit", "E": "xfail"}]
    combos = [(None, None, t, d) for t in K9 for d in K9]
    combos += [(pos, s, t, d) for pos in ("pre", "post") for s in KINDS
               for t, d in ((None, None), ("error", "fail"))]
    for (pos, s, t, d), cf, first in itertools.product(combos, vectors, (False, True)):
        def c(name, sub=()):
            return ["c", name, list(sub) + ([["r", cf[name]]] if name in cf else [])]
        yield scenario(
            pre=with_raise([c("A")], s if pos == "pre" else None, first),
            post=with_raise([c("B", [c("E")])], s if pos == "post" else None, first),
            test=with_raise([c("C"), ["e"]] if first else [c("C")], t, first),
            down=with_raise([c("D")], d, first))


def gen_nesting():
    faults = [(), ("post", "error"), ("test", "fail"), ("down", "kbd")]
    patterns = [(0, 0, 0), (1, 1, 1), (1, 0, 0), (0, 0, 1)]
    for places, pat, fault in itertools.product(
            itertools.product(STAGES + ["in"], repeat=3), patterns, faults):
        sc = scenario()
        prev = None
        for i, place in enumerate(places):
            op = ["c", "c%d" % i, [["r", "error"]] if pat[i] else []]
            if place == "in" and prev is not None:
                prev[2].insert(0, op)
            else:
                sc["test" if place == "in" else place].append(op)
            prev = op
        if fault:
            sc[fault[0]].append(["r", fault[1]])
        yield sc


def place_ops(sc, place, ops):
    if place == "cleanup":
        sc["test"].append(["c", "host", ops])
    else:
        sc[place].extend(ops)


def gen_patch():
    faults = [(), ("post", "error"), ("test", "fail"), ("down", "kbd"), ("cleanup", "error")]
    places = STAGES + ["cleanup"]
    # the patched object's attribute storage: class namespace, __slots__, custom __setattr__/__delattr__
    for kind, attr, place in itertools.product(("class", "slots", "store"), ("ex", "nx"), ("test", "pre")):
        sc = scenario(pre=[["c", "first", [["k"]]]], test=[["k"]], down=[["c", "late", [["k"]]]])
        sc["holder"] = kind
        place_ops(sc, place, [["p", attr], ["c", "seen", [["k"]]]])
        yield sc
    for place, attr, second, fault in itertools.product(places, ATTRS, range(4), faults):
        sc = scenario(pre=[["c", "first", [["k"]]]], test=[["k"]], down=[["c", "late", [["k"]]]])
        ops = [["p", attr]]
        if second == 1:
            ops.append(["p", attr])
        elif second == 3:
            ops.append(["p", ATTRS[(ATTRS.index(attr) + 1) % 3]])
        place_ops(sc, place, ops + [["c", "seen", [["k"]]]])
        if second == 2:
            sc["down"].append(["p", attr])
        if fault and fault[0] == "cleanup":
            sc["test"].insert(0, ["c", "bad", [["r", "error"]]])
            sc["down"].append(["c", "bad2", [["r", "sysexit"]]])
        elif fault:
            sc[fault[0]].append(["r", fault[1]])
        yield sc


FIXTURE_SHAPES = [
    ["f", "F", [["c", "Fc", []]]],
    ["f", "F", [["c", "Fc1", []], ["c", "Fc2", [["r", "error"]]], ["c", "Fc3", []]]],
    ["f", "F", [["c", "Fc1", [["r", "fail"]]], ["c", "Fc2", [["r", "error"]]], ["p", "nx"]]],
    ["f", "F", [["c", "Fc", []], ["r", "error"]]],
    ["f", "F", [["c", "Fc", [["r", "error"]]], ["p", "ex"], ["r", "fail"]]],
    ["f", "F", [["c", "Fc", []], ["f", "G", [["c", "Gc", [["k"]]]]], ["c", "Fc2", []]]],
    ["f", "F", [["c", "Fc", []], ["f", "G", [["c", "Gc", []], ["r", "fail"]]], ["c", "Fc2", []]]],
    ["f", "F", [["f", "G", [["c", "Gc", [["r", "error"]]]]], ["c", "Fc", []], ["r", "error"]]],
    ["d", "D", None, None], ["d", "D", "error", None], ["d", "D", "kbd", None],
    ["d", "D", None, "error"], ["d", "D", None, "kbd"],
]


def gen_fixture():
    faults = [(), ("post", "error"), ("test", "fail"), ("down", "kbd")]
    for place, shape, fault in itertools.product(STAGES + ["cleanup"], FIXTURE_SHAPES, faults):
        sc = scenario(pre=[["c", "first", [["k"]]]])
        place_ops(sc, place, [["c", "before", [["k"]]], shape, ["c", "after", []]])
        if fault:
            sc[fault[0]].append(["r", fault[1]])
        yield sc


def gen_histories():
    programs = [
        scenario(test=[["c", "a", []]]),
        scenario(test=[["c", "a", [["c", "b", []]]], ["e"]]),
        scenario(pre=[["c", "a", []]], post=[["p", "ex"], ["r", "error"]]),
        scenario(post=[["p", "nx"]], test=[["c", "a", [["r", "fail"]]], ["r", "skip"]]),
        scenario(test=[FIXTURE_SHAPES[1], ["r", "xfail"]], down=[["c", "d", []], ["r", "error"]]),
        scenario(test=[["p", "cx"], ["r", "kbd"]], down=[["c", "d", [["k"]]]]),
        scenario(test=[["c", "a", [["r", "sysexit"]]], ["c", "b", []], ["r", "usuccess"]]),
        scenario(pre=[["c", "a", [["k"]]], ["p", "nx"]], post=[["r", "cancel"]], test=[["c", "never", []]]),
        scenario(test=[["c", "old", [["k"]]], ["p", "ex"], ["c", "bad", [["r", "cancel"]]]]),
        scenario(post=[FIXTURE_SHAPES[3]], test=[["c", "never", []]]),
    ]
    seqs = [s for n in (1, 2, 3) for s in itertools.product(FLAVOURS, repeat=n)]
    for seq, prog in itertools.product(seqs, programs):
        yield dict(prog, results=list(seq))


def random_ops(rng, depth, in_fx=False, in_fx_cleanup=False):
    ops = []
    for _ in range(rng.choice([0, 1, 1, 2, 2, 3])):
        kinds = ["fail", "error"] if in_fx else KINDS
        t = rng.choice("rke" if in_fx_cleanup else "ccccrpkfde")
        if depth <= 0 and t in "cf":
            t = "k"
        if t == "c":
            ops.append(["c", "n%d" % rng.randrange(1000), random_ops(rng, depth - 1, in_fx, in_fx)])
        elif t == "r":
            if rng.random() < 0.5:
                ops.append(["r", rng.choice(kinds)])
                break
        elif t == "p":
            ops.append(["p", rng.choice(ATTRS)])
        elif t == "f":
            ops.append(["f", "x%d" % rng.randrange(1000), random_ops(rng, depth - 1, True, False)])
        elif t == "d":
            ops.append(["d", "y%d" % rng.randrange(1000)] + [rng.choice([None, None] + kinds) for _ in "ab"])
        else:
            ops.append([t])
    return ops


def gen_random(rng):
    while True:
        sc = scenario(*[random_ops(rng, 3) for _ in STAGES])
        sc["results"] = [rng.choice(FLAVOURS) for _ in range(rng.choice([1, 2, 2, 3]))]
        yield sc


PHASES = {"stages": gen_stages, "nesting": gen_nesting, "patch": gen_patch,
          "fixture": gen_fixture, "histories": gen_histories}
HINTS = [("_run_cleanups", "nesting"), ("addCleanup", "nesting"), ("monkey", "patch"), ("patch", "patch"),
         ("restore", "patch"), ("useFixture", "fixture"), ("_reset", "histories"), ("TestCase.run", "histories"),
         ("RunTest.run", "histories"), ("_run_prepared_result", "histories"), ("_run_one", "histories"),
         ("_run_core", "stages"), ("_run_setup", "stages"), ("_run_teardown", "stages"),
         ("setUp", "stages"), ("tearDown", "stages"), ("_run_user", "stages")]


def load_json(arg):
    if os.path.exists(arg):
        with open(arg) as f:
            return json.load(f)
    return json.loads(arg)


CURRENT = [None]


def on_alarm(signum, frame):
    emit_failure(CURRENT[0], {"note": "run() did not return within 30 s"},
                 "all stages and cleanups run once and run() terminates")
    os._exit(1)


def run_one(sc):
    CURRENT[0] = sc
    try:
        check(sc)
    except Violation as v:
        emit_failure(sc, v.observed, v.required)
        return False
    return True


def main():
    ap = argparse.ArgumentParser()
    ap.add_argument("--budget", type=float, default=60.0)
    ap.add_argument("--from-obligation")
    ap.add_argument("--scenario")
    args = ap.parse_args()
    signal.signal(signal.SIGALRM, on_alarm)
    if args.scenario:
        return 0 if run_one(load_json(args.scenario)) else 1
    deadline = time.monotonic() + args.budget
    order = list(PHASES)
    try:
        target = str(load_json(args.from_obligation).get("target", "")) if args.from_obligation else ""
    except Exception:
        target = ""
    for key, phase in HINTS:
        if key in target:
            order.remove(phase)
            order.insert(0, phase)
            break
    rng = random.Random(int(os.environ.get("VERIF_SEED", "0")))
    for name in order + ["random"]:
        count, start = 0, time.monotonic()
        for sc in (gen_random(rng) if name == "random" else PHASES[name]()):
            if time.monotonic() > deadline:
                break
            if not run_one(sc):
                return 1
            count += 1
        print("phase %-9s %6d scenarios ok (%.1fs)" % (name, count, time.monotonic() - start))
    print("C02: no violating scenario found")
    return 0


if __name__ == "__main__":
    try:
        code = main()
    except SystemExit:
        raise
    except BaseException:
        import traceback
        traceback.print_exc()
        code = 2
    sys.stdout.flush()
    sys.exit(code)
