#!/venv/bin/python
"""Replay / counterexample-search harness for property C15 (testtools Spinner).

ORACLE (written from the property statement, observable behaviour only)
A scenario is one call ``Spinner(reactor).run(timeout, f)`` with three possible
"deciding instants": f's own result (synchronously / already-fired Deferred =
instant -1, or a Deferred fired at time t), the timeout (instant T), and a
reactor stop request (at start-up or from inside f = instant -1, or at time t;
requested through ``reactor.stop()`` looked up at that moment, or SIGINT on the
real reactor).  The earliest instant decides what run() must do: return f's
own marker object / raise f's own exception instance, raise TimeoutError, or
raise NoResultError.  Exact ties allow any of the tied outcomes; nothing else
is ever allowed.  Whatever run() did, afterwards: reactor.running is false,
reactor.getDelayedCalls() is empty, no selectable registered by f is still in
the reactor, every delayed call f (or the scenario) left behind has either run
or is inactive AND listed in spinner.get_junk() (selectables likewise),
reactor.stop equals what it was before, and signal.getsignal() of
SIGINT/SIGTERM/SIGCHLD is what was installed before.  A nested spinner.run()
made by f must raise ReentryError without calling its function.  If junk was
reported, a further run() on the same spinner must raise StaleJunkError without
calling its function; after clear_junk() the junk list is empty.  Finally a
fresh Spinner on the same reactor must still be able to run (the reactor was
crashed, not stopped for good).

ENUMERATION
Phase 1: virtual-time reactor (twisted Clock + run/crash/stop/selectables, it
installs its own signal handlers in run() like the real one), full product of
T in {0,2} x 15 result shapes x 8 stop points (times 0, 0.5, 1, 2, 3), then
that product again x 5 leftover shapes x 4 pre-installed handler sets x
re-entry (9600 scenarios).
Phase 2 (run right after the core product): ~50 scenarios on the real global
reactor with wide wall-clock margins and a SIGALRM watchdog.  Phase 3: seeded
random larger virtual scenarios (VERIF_SEED) until the budget is used.
"""
import argparse
import itertools
import json
import os
import random
import signal
import sys
import time
import traceback

from twisted.internet import defer, error
from twisted.internet.task import Clock

from testtools.twistedsupport._spinner import (
    NoResultError, ReentryError, Spinner, StaleJunkError, TimeoutError)

SIGS = [signal.SIGINT, signal.SIGTERM, signal.SIGCHLD]


class Boom(Exception):
    """The exception f raises / fails its Deferred with."""


class Hang(BaseException):
    """The reactor would spin forever (nothing left that could end run())."""


class Sel:
    """A minimal read descriptor on a pipe nobody writes to."""

    def __init__(self):
        self.r, self.w = os.pipe()

    def fileno(self):
        return self.r

    def doRead(self):
        pass

    def connectionLost(self, reason):
        pass

    def logPrefix(self):
        return "sel"

    def close(self):
        for fd in (self.r, self.w):
            try:
                os.close(fd)
            except OSError:
                pass


class VReactor(Clock):
    """Deterministic virtual-time reactor: run() jumps from call to call."""

    def __init__(self):
        Clock.__init__(self)
        self.running = False
        self._dead = False
        self._startup = []
        self._sel = []

    def getDelayedCalls(self):
        return list(self.calls)

    def callWhenRunning(self, f, *a, **kw):
        if self.running:
            f(*a, **kw)
        else:
            self._startup.append((f, a, kw))

    def _on_signal(self, *a):
        self.stop()

    def run(self, installSignalHandlers=True):
        if self._dead:
            raise error.ReactorNotRestartable()
        if self.running:
            raise error.ReactorAlreadyRunning()
        for s in SIGS:
            signal.signal(s, self._on_signal)
        self.running = True
        hooks, self._startup = self._startup, []
        for f, a, kw in hooks:
            f(*a, **kw)
        while self.running:
            if not self.calls:
                raise Hang("virtual reactor idle for ever")
            nxt = min(c.getTime() for c in self.calls)
            if nxt > 10000:
                raise Hang("virtual reactor still spinning at t=10000")
            self.advance(max(0, nxt - self.seconds()))

    def crash(self):
        self.running = False

    def stop(self):
        if not self.running:
            raise error.ReactorNotRunning()
        self._dead = True
        self.running = False

    def iterate(self, delay=0):
        self.advance(delay)

    def addReader(self, s):
        if s not in self._sel:
            self._sel.append(s)

    addWriter = addReader

    def removeReader(self, s):
        if s in self._sel:
            self._sel.remove(s)

    removeWriter = removeReader

    def getReaders(self):
        return list(self._sel)

    def getWriters(self):
        return []

    def removeAll(self):
        removed, self._sel = self._sel, []
        return removed


def handlers_for(spec):
    """'d' default, 'i' SIG_IGN, 'c' a fresh python function; INT,TERM,CHLD."""
    out = []
    for sig, ch in zip(SIGS, spec):
        if ch == "i":
            out.append(signal.SIG_IGN)
        elif ch == "c":
            out.append(lambda *a: None)
        else:
            out.append(signal.default_int_handler if sig == signal.SIGINT
                       else signal.SIG_DFL)
    return out


def instant(x):
    return -1 if x in ("sync", "fired", "startup", "in_f") else x


def allowed_outcomes(sc):
    inst = {"timeout": sc["timeout"]}
    if sc["when"] != "never":
        inst["own"] = instant(sc["when"])
    if sc.get("stop") is not None:
        inst["stop"] = instant(sc["stop"])
    first = min(inst.values())
    return sorted(k for k, v in inst.items() if v == first)


REQ = {"own": "return f's value / raise f's exception",
       "timeout": "raise TimeoutError", "stop": "raise NoResultError"}


class Runner:
    def __init__(self, sc):
        self.sc = sc
        self.real = sc["reactor"] == "real"
        if self.real:
            from twisted.internet import reactor
            self.reactor = reactor
        else:
            self.reactor = VReactor()
        self.sels = []
        self.bad = []  # (observed, required)
        self.hung = []

    def _watchdog(self, *a):
        self.hung.append(1)
        self.reactor.callFromThread(self.reactor.crash)

    def guarded(self, spinner, timeout, f):
        """spinner.run under a watchdog -> ('value', v) | ('raise', exc)."""
        if self.real:
            old = signal.signal(signal.SIGALRM, self._watchdog)
            signal.alarm(5)
        try:
            try:
                out = ("value", spinner.run(timeout, f))
            except BaseException as e:
                out = ("raise", e)
        finally:
            if self.real:
                signal.alarm(0)
                signal.signal(signal.SIGALRM, old)
        if self.hung:
            out = ("raise", Hang("run() had not returned after 5 s"))
        return out

    def post_state(self, label, stop_before, handlers, leftovers, sels, spinner):
        r = self.reactor
        if r.running:
            self.bad.append((label + ": reactor.running is true after run()",
                             "reactor no longer running"))
        pending = r.getDelayedCalls()
        if pending:
            self.bad.append((label + ": %d delayed call(s) still pending: %r"
                             % (len(pending), [str(c) for c in pending]),
                             "no pending delayed calls after run()"))
        present = r.getReaders() + r.getWriters()
        if any(s in present for s in sels) or (not self.real and present):
            self.bad.append((label + ": selectables still registered",
                             "no selectables left in the reactor"))
        if r.stop != stop_before:
            self.bad.append((label + ": reactor.stop is %r" % (r.stop,),
                             "reactor.stop restored to %r" % (stop_before,)))
        now = [signal.getsignal(s) for s in SIGS]
        if now != handlers:
            self.bad.append((label + ": signal handlers are %r" % (now,),
                             "SIGINT/SIGTERM/SIGCHLD handlers restored to %r"
                             % (handlers,)))
        junk = list(spinner.get_junk())
        for name, call, ran in leftovers:
            if ran():
                continue
            if call.active() or not any(call is j for j in junk):
                self.bad.append((label + ": leftover call %s active=%s in_junk=%s"
                                 % (name, call.active(),
                                    any(call is j for j in junk)),
                                 "leftover delayed calls cancelled and "
                                 "reported as junk"))
        for s in sels:
            if not any(s is j for j in junk):
                self.bad.append((label + ": leftover selectable not in junk",
                                 "removed selectables reported as junk"))

    def run(self):
        sc, r = self.sc, self.reactor
        handlers = handlers_for(sc.get("signals", "ddd"))
        for s, h in zip(SIGS, handlers):
            signal.signal(s, h)
        try:
            self._run(handlers)
        finally:
            if self.real:
                for c in r.getDelayedCalls():
                    c.cancel()
                r.removeAll()
            for s in self.sels:
                s.close()
            for s, h in zip(SIGS, handlers_for("ddd")):
                signal.signal(s, h)
        return self.bad

    def _run(self, handlers):
        sc, r = self.sc, self.reactor
        T, when, ok = sc["timeout"], sc["when"], sc.get("result", "ok") == "ok"
        stop, via = sc.get("stop"), sc.get("stop_via", "stop")
        spinner = Spinner(r)
        marker, boom = object(), Boom("boom")
        log = {"called": 0, "inner": 0, "reenter": None, "ran": set()}
        extras = []

        def request_stop():
            log["ran"].add("stop")
            if via == "sigint":
                os.kill(os.getpid(), signal.SIGINT)
            else:
                r.stop()  # looked up now, as a signal handler would

        def inner():
            log["inner"] += 1

        def f():
            log["called"] += 1
            if sc.get("reenter"):
                try:
                    spinner.run(T, inner)
                except BaseException as e:
                    log["reenter"] = e
            for i, d in enumerate(sc.get("extras", [])):
                extras.append(("extra%d@%s" % (i, d),
                               r.callLater(d, log["ran"].add, i),
                               lambda i=i: i in log["ran"]))
            for _ in range(sc.get("sels", 0)):
                s = Sel()
                self.sels.append(s)
                r.addReader(s)
            if stop == "in_f":
                request_stop()
            if when == "sync":
                if ok:
                    return marker
                raise boom
            if when == "fired":
                return defer.succeed(marker) if ok else defer.fail(boom)
            d = defer.Deferred()
            if when != "never":
                if ok:
                    r.callLater(when, d.callback, marker)
                else:
                    r.callLater(when, d.errback, boom)
            return d

        stop_before = r.stop
        if stop == "startup":
            r.callWhenRunning(request_stop)
        elif stop is not None and stop != "in_f":
            extras.append(("stop@%s" % stop, r.callLater(stop, request_stop),
                           lambda: "stop" in log["ran"]))
        kind, val = self.guarded(spinner, T, f)
        if kind == "value":
            got = "own" if (ok and val is marker) else "other"
            shown = "returned f's value" if got == "own" else "returned %r" % (val,)
        else:
            if val is boom and not ok:
                got = "own"
            elif isinstance(val, TimeoutError):
                got = "timeout"
            elif isinstance(val, NoResultError):
                got = "stop"
            else:
                got = "other"
            shown = "raised %s: %s" % (type(val).__name__, val)
        allowed = allowed_outcomes(sc)
        if got not in allowed:
            self.bad.append(("run() " + shown,
                             "run() must " + " or ".join(REQ[a] for a in allowed)))
        if log["called"] > 1:
            self.bad.append(("f called %d times" % log["called"], "f called once"))
        if sc.get("reenter") and log["called"] and (
                not isinstance(log["reenter"], ReentryError) or log["inner"]):
            self.bad.append(("nested run(): raised %r, inner function called %d "
                             "time(s)" % (log["reenter"], log["inner"]),
                             "nested run() raises ReentryError and does not "
                             "call its function"))
        self.post_state("main run", stop_before, handlers, extras, self.sels,
                        spinner)
        if self.bad:
            return
        probe_T = 0.5 if self.real else 2
        if spinner.get_junk():
            calls = []
            kind2, val2 = self.guarded(spinner, probe_T, lambda: calls.append(1))
            if kind2 != "raise" or not isinstance(val2, StaleJunkError) or calls:
                self.bad.append(("run() with uncleared junk: %s %r, function "
                                 "called %d time(s)" % (kind2, val2, len(calls)),
                                 "raise StaleJunkError without calling f"))
            self.post_state("stale-junk run", stop_before, handlers, [], [],
                            Spinner(r))
            spinner.clear_junk()
            if spinner.get_junk():
                self.bad.append(("junk still present after clear_junk()",
                                 "clear_junk() clears the junk"))
            elif got == "own" and ok:
                m2 = object()
                kind2, val2 = self.guarded(spinner, probe_T, lambda: m2)
                if kind2 != "value" or val2 is not m2:
                    self.bad.append(("run() after clear_junk(): %s %r"
                                     % (kind2, val2), "return f's value"))
        if self.bad:
            return
        fresh, m3 = Spinner(r), object()
        kind3, val3 = self.guarded(fresh, probe_T, lambda: m3)
        if kind3 != "value" or val3 is not m3:
            self.bad.append(("a following run() of a fresh Spinner on the same "
                             "reactor: %s %r" % (kind3, val3),
                             "return f's value (reactor crashed, not stopped)"))
        self.post_state("follow-up run", stop_before, handlers, [], [], fresh)


def shapes(times):
    out = [("ok", "never")]
    for w in ["sync", "fired"] + list(times):
        out += [("ok", w), ("err", w)]
    return out


def mk(reactor, T, res, when, stop=None, extras=(), sels=0, signals="ddd",
       reenter=False, via="stop"):
    return {"reactor": reactor, "timeout": T, "result": res, "when": when,
            "stop": stop, "stop_via": via, "extras": list(extras), "sels": sels,
            "signals": signals, "reenter": reenter}


def virtual_core():
    for T, (res, when), stop in itertools.product(
            [0, 2], shapes([0, 0.5, 1, 2, 3]),
            [None, "startup", "in_f", 0, 0.5, 1, 2, 3]):
        yield mk("virtual", T, res, when, stop)


def virtual_full():
    left = [((), 0), ((1,), 0), ((5,), 0), ((), 1), ((1, 5, 5), 2)]
    for (ex, sels), sigs, re_ in itertools.product(
            left, ["ddd", "iii", "ccc", "cid"], [False, True]):
        if not ex and not sels and sigs == "ddd" and not re_:
            continue  # that slice is virtual_core
        for sc in virtual_core():
            sc.update(extras=list(ex), sels=sels, signals=sigs, reenter=re_)
            yield sc


def real_scenarios():
    R = "real"
    for res, when in shapes([0.0, 0.01])[1:]:
        yield mk(R, 0.5, res, when)
    yield mk(R, 0.02, "ok", "never")
    yield mk(R, 0.02, "ok", 0.6)
    yield mk(R, 0.02, "err", 0.6)
    for stop, when in itertools.product(["startup", "in_f", 0.01],
                                        ["sync", 0.3, "never"]):
        yield mk(R, 0.6, "ok", when, stop)
    yield mk(R, 0.6, "err", 0.01, 0.3)
    yield mk(R, 0.6, "ok", "never", "startup", via="sigint")
    yield mk(R, 0.6, "ok", 0.3, 0.01, via="sigint")
    for T, when, stop in [(0.5, "sync", None), (0.5, 0.01, None),
                          (0.02, "never", None), (0.6, "never", 0.01)]:
        yield mk(R, T, "ok", when, stop, extras=(0.0, 5, 7), sels=2)
    for sigs in ["iii", "ccc", "cid", "dci"]:
        yield mk(R, 0.5, "ok", "sync", signals=sigs)
        yield mk(R, 0.02, "ok", "never", signals=sigs)
        yield mk(R, 0.6, "ok", "never", 0.01, signals=sigs)
    yield mk(R, 0.5, "ok", "sync", reenter=True)
    yield mk(R, 0.5, "err", 0.01, reenter=True, extras=(5,))


def random_scenarios(rng):
    while True:
        times = list(range(9))
        res, when = rng.choice(shapes(times))
        stop = rng.choice([None, None, "startup", "in_f"] + times)
        yield mk("virtual", rng.randrange(7), res, when, stop,
                 extras=[rng.randrange(11) for _ in range(rng.randrange(6))],
                 sels=rng.randrange(4),
                 signals="".join(rng.choice("dic") for _ in SIGS),
                 reenter=rng.random() < 0.25)


def priority(target):
    """Sort key putting scenarios that exercise `target` first."""
    t = (target or "").lower()
    if "_clean" in t or "junk" in t:
        return lambda sc: not (sc["extras"] or sc["sels"] or sc["stop"] is not None)
    if "signal" in t:
        return lambda sc: sc["signals"] == "ddd"
    if "timed_out" in t or "timeout" in t:
        return lambda sc: "timeout" not in allowed_outcomes(sc)
    if "stop" in t or "get_result" in t:
        return lambda sc: sc["stop"] is None
    if "reentrant" in t:
        return lambda sc: not sc["reenter"]
    return lambda sc: False


def check(sc):
    """Run one scenario; return None or the failure record."""
    if sc.get("reactor") == "real" and os.environ.get("VERIF_NO_REAL"):
        return None   # wall-clock scenarios are skipped when the harness runs as a check's stand-in (no timing flakes)
    bad = Runner(sc).run()
    if not bad:
        return None
    return {"scenario": sc, "observed": "; ".join(b[0] for b in bad),
            "required": "; ".join(sorted(set(b[1] for b in bad)))}


def main():
    ap = argparse.ArgumentParser()
    ap.add_argument("--budget", type=float, default=60.0)
    ap.add_argument("--from-obligation", default=None)
    ap.add_argument("--scenario", default=None)
    args = ap.parse_args()
    for s, h in zip(SIGS, handlers_for("ddd")):
        signal.signal(s, h)  # known baseline whatever the parent shell did
    if args.scenario:
        fail = check(json.loads(args.scenario))
        if fail:
            print(json.dumps(fail))
            return 1
        print("scenario satisfies C15")
        return 0
    target = None
    if args.from_obligation:
        try:
            target = json.loads(args.from_obligation).get("target")
        except Exception:
            target = None
    key = priority(target)
    deadline = time.time() + args.budget
    rng = random.Random(int(os.environ.get("VERIF_SEED", "0")))
    phases = [("virtual core", sorted(virtual_core(), key=key)),
              ("real reactor", sorted(real_scenarios(), key=key)),
              ("virtual full", sorted(virtual_full(), key=key)),
              ("random", random_scenarios(rng))]
    total = 0
    for name, scenarios in phases:
        n = 0
        for sc in scenarios:
            if time.time() > deadline or (name == "random" and n >= 20000):
                break
            fail = check(sc)
            n += 1
            if fail:
                print("C15 violated in phase %r after %d scenarios"
                      % (name, total + n))
                print(json.dumps(fail))
                return 1
        total += n
        print("phase %-13s %6d scenarios ok" % (name, n))
    print("no failing scenario found (%d scenarios)" % total)
    return 0


if __name__ == "__main__":
    try:
        code = main()
    except SystemExit:
        raise
    except BaseException:
        traceback.print_exc()
        code = 2
    sys.stdout.flush()
    sys.exit(code)
