#!/usr/bin/env python
"""Replay / counterexample search for property C05 of testtools:
"All details and every traceback reach the result; none is dropped or overwritten".

A scenario is a small test program in JSON: action lists for setUp, the test
method, tearDown and 0..n cleanups, 0..2 addOnException handlers (which may
attach a detail themselves) and optionally a skip decorator.  Actions:
  ["detail", name, payload]        addDetail under a name not yet in getDetails()
  ["udetail", name, payload]       addDetailUniqueName
  ["vdetail", name, key, payload]  addDetail of volatile content; ["mutate", key, payload] changes it
  ["raise", kind] / ["raise", "multi", [kinds]]   fail error skip xfail usucc kbd sysexit
  ["assertThat", [[name, payload]..]] / ["expectThat", ...]   mismatch carrying details
  ["fixture", "new"|"old", [[name, payload]..], fails, [[late name, payload]..]]
A payload is [tag, hexchunk...] (tag "t" text/plain utf8, "b" octet-stream).

ORACLE (from the statement; only the public behaviour is looked at).  The test is
run against a testtools.testresult.doubles.ExtendedTestResult that additionally
reads every detail at the moment the outcome is reported.  Required of the first
outcome: there is an injective assignment of *expected items* to delivered details:
  * every addDetail / addDetailUniqueName / mismatch / fixture / handler detail
    that was really attached: a detail called NAME or NAME-<n>.. with exactly the
    attached content type and bytes (volatile content: the bytes current when
    the outcome is reported);
  * every failure/error that left user code (each constituent of a
    MultipleExceptions, the assertion under expectFailure, KeyboardInterrupt...):
    a detail 'traceback...' whose text contains the unique marker of that exception;
  * every expectThat mismatch: a 'Failed expectation...' detail with its marker;
plus: an addSkip outcome carries a reason that user code gave; every handler got
every exception that left a user stage (MultipleExceptions constituents
separately) exactly once, before the outcome.  Extra details are allowed.

ENUMERATION: (A) 7 colliding names x 3 ways to attach x 19 continuations x 2
places; (B) the C01 cross product of per-stage raises (3x10x4x5) with colliding
details and two handlers; (C) all length-3 sequences over 8 collision makers x 3
endings; (D) seeded random larger programs (VERIF_SEED) until 3000 or the budget.
"""
import argparse
import itertools
import json
import os
import random
import re
import sys
import time
import traceback

import fixtures
import testtools
from testtools import MultipleExceptions
from testtools.content import Content
from testtools.content_type import UTF8_TEXT, ContentType
from testtools.matchers import Mismatch
from testtools.testresult.doubles import ExtendedTestResult

BIN = ContentType("application", "octet-stream")
OUTCOMES = ("addSuccess", "addError", "addFailure", "addSkip",
            "addExpectedFailure", "addUnexpectedSuccess")


class HarnessError(Exception):
    pass


def ctype(p):
    return UTF8_TEXT if p[0] == "t" else BIN


def chunks(p):
    return [bytes.fromhex(h) for h in p[1:]]


def snapshot(details):
    out = {}
    for name, c in (details or {}).items():
        try:
            out[name] = (c.content_type, b"".join(c.iter_bytes()))
        except Exception as e:  # unreadable detail == nothing usable delivered
            out[name] = (None, ("<unreadable: %r>" % (e,)).encode())
    return out


class Rec(ExtendedTestResult):
    """The documented double, plus a reading of the details at reporting time."""


def _recording(name):
    def method(self, test, *args, **kw):
        reason = kw.get("reason", args[0] if args and name == "addSkip" else None)
        vol = {k: b"".join(v) for k, v in self.run.vol.items()}
        self.run.log.append(("outcome", name, snapshot(kw.get("details")), vol, reason))
        return getattr(ExtendedTestResult, name)(self, test, *args, **kw)
    return method


for _n in OUTCOMES:
    setattr(Rec, _n, _recording(_n))


class _Matcher:
    def __init__(self, mismatch):
        self.mismatch = mismatch

    def match(self, matchee):
        return self.mismatch

    def __str__(self):
        return "NeverMatches()"


class Run:
    """Executes one scenario on the real code and records what user code did."""

    def __init__(self, sc):
        self.sc, self.log, self.vol, self.expect, self.skips = sc, [], {}, [], []
        self.raised, self.count, self.armed, self.internal = [], itertools.count(1), False, None

    def marker(self):
        return "<<M%d>>" % next(self.count)

    def want(self, src, name, p, data=None):
        self.expect.append(("detail", src, name, ctype(p), b"".join(chunks(p)) if data is None else data))

    def content(self, p):
        return Content(ctype(p), lambda c=chunks(p): list(c))

    def attach(self, holder, src, name, p):  # a detail under a distinct name
        if name != "reason" and name not in holder.getDetails():
            holder.addDetail(name, self.content(p))
            self.want(src, name, p)

    def new_exc(self, case, kind):
        m = self.marker()
        if kind == "skip":
            self.skips.append("why " + m)
            return case.skipException("why " + m)
        self.expect.append(("tb", m))
        cls = {"fail": case.failureException, "kbd": KeyboardInterrupt,
               "sysexit": SystemExit}.get(kind, RuntimeError)
        return cls("boom " + m)

    def do_raise(self, case, kind, subs):
        self.armed = True
        if kind == "xfail":
            exc = self.new_exc(case, "fail")

            def predicate():
                raise exc
            case.expectFailure("known " + self.marker(), predicate)
        elif kind == "usucc":
            case.expectFailure("known " + self.marker(), lambda: None)
        elif kind == "multi":
            def make(ks):       # a list inside the list of kinds is a nested MultipleExceptions
                infos = []
                for k in ks or ():
                    try:
                        if isinstance(k, list):
                            raise MultipleExceptions(*make(k))
                        raise self.new_exc(case, k)
                    except BaseException:
                        infos.append(sys.exc_info())
                return infos
            infos = make(subs)
            if infos:
                raise MultipleExceptions(*infos)
        else:
            raise self.new_exc(case, kind)

    def act(self, case, a):
        op, run = a[0], self
        if op in ("detail", "udetail", "vdetail") and a[1] == "reason":
            return  # reserved name: outside the quantifier
        if op == "detail":
            self.attach(case, "addDetail", a[1], a[2])
        elif op == "udetail":
            case.addDetailUniqueName(a[1], self.content(a[2]))
            self.want("addDetailUniqueName", a[1], a[2])
        elif op == "vdetail":
            name, key, p = a[1:4]
            if name not in case.getDetails():
                self.vol[key] = chunks(p)
                case.addDetail(name, Content(ctype(p), lambda: list(self.vol[key])))
                self.want("addDetail(volatile)", name, p, ("vol", key))
        elif op == "mutate":
            self.vol[a[1]] = chunks(a[2])
        elif op == "raise":
            self.do_raise(case, a[1], a[2] if len(a) > 2 else None)
        elif op in ("assertThat", "expectThat"):
            pay = {n: p for n, p in a[1] if n != "reason"}
            m = self.marker()
            for n, p in pay.items():
                self.want(op + " mismatch", n, p)
            matcher = _Matcher(Mismatch("differs " + m, {n: self.content(p) for n, p in pay.items()}))
            self.expect.append(("tb" if op == "assertThat" else "fe", m))
            self.armed = op == "assertThat"
            getattr(case, op)(0, matcher)
        elif op == "fixture":
            style, dets, fails, late = a[1], a[2], a[3], a[4]

            def fill(fx):
                for n, p in dets:
                    run.attach(fx, "fixture", n, p)
                if fails:
                    run.expect.append(("tb", m))
                    raise RuntimeError("fixture boom " + m)

            class Fx(fixtures.Fixture):
                if style == "new":
                    def _setUp(self):
                        fill(self)
                else:
                    def setUp(self):
                        super().setUp()
                        fill(self)
            m, self.armed = self.marker(), bool(fails)
            fx = case.useFixture(Fx())
            for n, p in late:
                self.attach(fx, "fixture(late)", n, p)
        else:
            raise HarnessError("unknown action %r" % (a,))

    def stage(self, case, actions):
        try:
            for a in actions:
                self.armed = False
                self.act(case, a)
        except BaseException as e:
            tb = e.__traceback__
            while tb.tb_next is not None:
                tb = tb.tb_next
            if not self.armed and tb.tb_frame.f_code.co_filename == __file__:
                self.internal = e  # a bug of this harness, not of testtools
            self.raised.extend(self.constituents(e))
            raise

    def constituents(self, e):
        if isinstance(e, MultipleExceptions) and e.args:
            return [x for info in e.args for x in self.constituents(info[1])]
        return [e]

    def handler(self, case, h, p):
        n = itertools.count()

        def on_exception(exc_info):
            self.log.append(("handler", h, exc_info[1]))
            if p is not None:
                self.attach(case, "handler", "diag-%d-%d" % (h, next(n)), p)
        return on_exception

    def execute(self):
        sc, run = self.sc, self

        class Case(testtools.TestCase):
            def setUp(self):
                super().setUp()
                for acts in sc.get("cleanups", ()):
                    self.addCleanup(run.stage, self, acts)
                run.stage(self, sc.get("setUp", ()))

            def test_it(self):
                run.stage(self, sc.get("test", ()))
            if sc.get("skip_deco") is not None:
                test_it = testtools.skip(sc["skip_deco"])(test_it)

            def tearDown(self):
                run.stage(self, sc.get("tearDown", ()))
                super().tearDown()
        case, result = Case("test_it"), Rec()
        result.run = self
        for h, p in enumerate(sc.get("handlers", ())):
            case.addOnException(self.handler(case, h, p))
        try:
            case.run(result)
        except BaseException as e:
            self.escaped = repr(e)
        if self.internal is not None:
            raise HarnessError("stage code failed: %r" % (self.internal,)) from self.internal


def renamed(base, name):
    return name == base or re.fullmatch(re.escape(base) + r"(-\d+)+", name) is not None


def fits(item, name, got, vol):
    if item[0] == "detail":
        _, _, base, ct, data = item
        if isinstance(data, tuple):
            data = vol.get(data[1])
        return renamed(base, name) and got == (ct, data)
    prefix = "traceback" if item[0] == "tb" else "Failed expectation"
    return name.startswith(prefix) and item[1].encode() in got[1]


def unmatched(items, details, vol):
    """Items left without a detail of their own in a maximum matching."""
    names, owner = list(details), {}

    def augment(i, seen):
        for n in names:
            if n not in seen and fits(items[i], n, details[n], vol):
                seen.add(n)
                if n not in owner or augment(owner[n], seen):
                    owner[n] = i
                    return True
        return False
    return [items[i] for i in range(len(items)) if not augment(i, set())]


def judge(run):
    """None if the property held, else (observed, required)."""
    outs = [i for i, e in enumerate(run.log) if e[0] == "outcome"]
    if not outs:
        return ("no outcome was reported; run() raised %s" % getattr(run, "escaped", "nothing"),
                "one outcome carrying the details")
    first = outs[0]
    _, oname, details, vol, reason = run.log[first]
    shown = {n: "%s %r" % (c, d[:60] + d[-60:] if len(d) > 120 else d) for n, (c, d) in details.items()}
    obs = {"outcome": oname, "details": shown}
    missing = unmatched(run.expect, details, vol)
    if missing:
        def text(it):
            if it[0] == "detail":
                d = vol.get(it[4][1]) if isinstance(it[4], tuple) else it[4]
                return "%s detail %r (or %r-N) %s %r" % (it[1], it[2], it[2], it[3], d)
            return "%s detail containing %s" % ("traceback" if it[0] == "tb" else "Failed expectation", it[1])
        return (obs, "each of these carried by its own detail of the outcome; missing: "
                + "; ".join(text(it) for it in missing))
    if oname == "addSkip":
        got = [reason] if reason is not None else []
        if "reason" in details:
            got.append(details["reason"][1].decode("utf8", "replace"))
        allowed = run.skips if run.sc.get("skip_deco") is None else [run.sc["skip_deco"]]
        if allowed and not set(got) & set(allowed):
            return (dict(obs, reason=got), "the skip carries the reason given: one of %r" % (allowed,))
    for h in range(len(run.sc.get("handlers", ()))):
        for x in run.raised:
            calls = [i for i, e in enumerate(run.log) if e[0] == "handler" and e[1] == h and e[2] is x]
            if len(calls) != 1 or calls[0] > first:
                when = ["before" if i < first else "after" for i in calls]
                return (dict(obs, handler=h, exception=repr(x), calls=when),
                        "handler %d called exactly once with %r, before the outcome" % (h, x))
    return None


def check(sc):
    run = Run(sc)
    run.execute()
    verdict = judge(run)
    return None if verdict is None else {"scenario": sc, "observed": verdict[0], "required": verdict[1]}


# ---------------------------------------------------------------- enumeration
NAMES = ["traceback", "traceback-1", "traceback-2", "Failed expectation",
         "Failed expectation-1", "x", "x-1"]
PAYLOADS = [["t"], ["t", ""], ["t", "6162"], ["b", "61", "", "c3"], ["b", "fffe80"],
            ["t", "e282ac", "0a", "7a"], ["b", "00", "ff"]]
KINDS = ["fail", "error", "skip", "xfail", "usucc", "kbd", "sysexit"]


def scen(setUp=(), test=(), tearDown=(), cleanups=(), handlers=(), skip_deco=None):
    sc = {"setUp": list(setUp), "test": list(test), "tearDown": list(tearDown),
          "cleanups": [list(c) for c in cleanups], "handlers": list(handlers)}
    if skip_deco is not None:
        sc["skip_deco"] = skip_deco
    return sc


def small_scenarios():
    pay = itertools.cycle(PAYLOADS)
    P = lambda: next(pay)
    hs = itertools.cycle([[], [None], [P(), None]])
    boom = itertools.cycle([[["raise", "error"]], [], [], [["raise", "skip"]], []])  # how later stages end
    yield scen(test=[["detail", "x", P()]], skip_deco="not today")
    # (A) one user detail with a colliding name, then one continuation
    for n, mode, place in itertools.product(NAMES, ("detail", "udetail", "vdetail"), ("setUp", "test")):
        first = [[mode, n, "k", P()], ["mutate", "k", P()]] if mode == "vdetail" else [[mode, n, P()]]
        conts = [[]] + [[["raise", k]] for k in KINDS] + [
            [["raise", "multi", ["fail", "error"]]], [["raise", "multi", ["error", "skip", "fail", "error"]]],
            [["raise", "multi", ["fail", ["error", "fail"]]]], [["raise", "multi", [["error", ["fail", "error"]]]]],
            [["assertThat", [[n, P()], ["traceback", P()]]]],
            [["expectThat", [[n, P()]]], ["expectThat", [[n, P()], ["Failed expectation", P()]]]],
            [["expectThat", [["Failed expectation", P()]]], ["detail", n, P()], ["raise", "fail"]],
            [["fixture", "new", [[n, P()], ["traceback", P()]], False, [["late", P()], [n + "-1", P()]]], ["raise", "error"]],
            [["fixture", "new", [[n, P()], ["y", P()]], True, []]],
            [["fixture", "old", [[n, P()], ["traceback", P()]], True, []]],
            [["fixture", "old", [[n, P()]], False, [[n, P()]]], ["udetail", n, P()]],
            [["raise", "error"], ["detail", "unreached", P()]],
            [["vdetail", "v", "k2", P()], ["raise", "fail"]]]
        for cont in conts:
            late = [[["mutate", "k2", P()], ["detail", n, P()]] + next(boom)]
            if place == "setUp":
                yield scen(setUp=first, test=cont, tearDown=[["detail", "traceback-1", P()]], cleanups=late, handlers=next(hs))
            else:
                yield scen(test=first + cont, tearDown=[["udetail", n, P()]] + next(boom), cleanups=late, handlers=next(hs))
    # (B) cross product of per-stage raises, a colliding detail in front of each
    ups = [[], [["raise", "error"]], [["raise", "skip"]]]
    bodies = [[]] + [[["raise", k]] for k in ("fail", "error", "skip", "xfail", "usucc", "kbd")] + [
        [["raise", "multi", ["fail", "fail"]]], [["assertThat", [["traceback-1", P()]]]], [["expectThat", [["traceback", P()]]]]]
    downs = [[], [["raise", "fail"]], [["raise", "skip"]], [["raise", "error"]]]
    cleans = [None, [], [["raise", "error"]], [["raise", "multi", ["error", "fail"]]], [["raise", "skip"]]]
    for (i, u), b, (j, d), c in itertools.product(enumerate(ups), bodies, enumerate(downs), cleans):
        yield scen(setUp=[["detail", NAMES[i], P()]] + u, test=[["detail", NAMES[j + 1], P()]] + b,
                   tearDown=[["detail", NAMES[(i + j) % 3], P()]] + d,
                   cleanups=[] if c is None else [[["detail", "traceback-2", P()]] + c, [["raise", "fail"]]],
                   handlers=[None, P()])
    # (C) every length-3 sequence of collision makers, three endings
    makers = [["detail", "traceback", P()], ["detail", "traceback-1", P()], ["udetail", "traceback", P()],
              ["udetail", "Failed expectation", P()], ["expectThat", [["traceback", P()]]],
              ["expectThat", [["Failed expectation", P()], ["Failed expectation-1", P()]]],
              ["fixture", "new", [["traceback", P()], ["Failed expectation", P()]], False, [["traceback-1", P()]]],
              ["fixture", "old", [["Failed expectation-1", P()]], False, []]]
    ends = [[], [["raise", "fail"]], [["raise", "multi", ["error", "fail"]]]]
    for seq in itertools.product(makers, repeat=3):
        for end in ends:
            yield scen(test=list(seq) + end, cleanups=[next(boom)], handlers=[None])


def random_scenario(rng):
    names = NAMES + ["y", "diag-0-0", "late"]
    P, N = (lambda: rng.choice(PAYLOADS)), (lambda: rng.choice(names))
    dets = lambda: [[N(), P()] for _ in range(rng.randint(0, 3))]

    def action():
        r = rng.randrange(10)
        if r < 2:
            return ["detail", N(), P()]
        if r == 2:
            return ["udetail", N(), P()]
        if r == 3:
            return ["vdetail", N(), "k%d" % rng.randrange(3), P()]
        if r == 4:
            return ["mutate", "k%d" % rng.randrange(3), P()]
        if r == 5:
            return ["assertThat", dets()]
        if r < 8:
            return ["expectThat", dets()]
        return ["fixture", rng.choice(["new", "old"]), dets(), rng.random() + calm < 0.3, dets()]

    calm = rng.choice([1.0, 0.3, 0.0])

    def stage():
        acts = [action() for _ in range(rng.randint(0, 3))]
        r = rng.random() + calm
        if r < 0.3:
            acts.append(["raise", rng.choice(KINDS)])
        elif r < 0.4:
            acts.append(["raise", "multi", [rng.choice(["fail", "error", "skip"]) for _ in range(rng.randint(1, 4))]])
        return acts
    return scen(stage(), stage(), stage(), [stage() for _ in range(rng.randint(0, 3))],
                [rng.choice([None, P()]) for _ in range(rng.randint(0, 2))])


HINTS = {"useFixture": "fixture", "gather_details": "fixture", "_copy_content": "fixture",
         "_report_traceback": '"raise"', "onException": '"raise"', "_got_user_exception": "multi",
         "addDetailUniqueName": "That", "_matchHelper": "That", "expectThat": "expectThat",
         "assertThat": "assertThat", "expectFailure": "xfail", "_report_skip": "skip",
         "addOnException": '"raise"', "iter_bytes": "vdetail"}


def main():
    ap = argparse.ArgumentParser()
    ap.add_argument("--budget", type=float, default=60.0)
    ap.add_argument("--from-obligation")
    ap.add_argument("--scenario")
    args = ap.parse_args()
    if args.scenario:
        bad = check(json.loads(args.scenario))
        if bad:
            print(json.dumps(bad))
        return 1 if bad else 0
    deadline, key = time.time() + args.budget, None
    try:
        target = str(json.loads(args.from_obligation).get("target", "")) if args.from_obligation else ""
        key = next((v for k, v in HINTS.items() if target.endswith(k)), None)
    except Exception:
        pass
    small = list(small_scenarios())
    if key:
        small.sort(key=lambda sc: key not in json.dumps(sc))
    rng = random.Random(int(os.environ.get("VERIF_SEED", "0")))
    n = 0
    for sc in itertools.chain(small, (random_scenario(rng) for _ in range(3000))):
        if time.time() > deadline:
            break
        bad, n = check(sc), n + 1
        if bad:
            print("violation after %d scenarios" % n)
            print(json.dumps(bad))
            return 1
    print("C05: %d scenarios (%d small), no violation" % (n, len(small)))
    return 0


if __name__ == "__main__":
    try:
        code = main()
    except SystemExit:
        raise
    except BaseException:
        traceback.print_exc()
        code = 2
    sys.stdout.flush()
    sys.exit(code)
